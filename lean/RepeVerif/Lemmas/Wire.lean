import RepeVerif.Model.Wire
/-! Helper lemmas for the wire model (C01, C02, C05, C17). Core Lean only. -/
namespace Repe

@[simp] theorem leBytes_length (n v : Nat) : (leBytes n v).length = n := by
  induction n generalizing v with
  | zero => rfl
  | succ n ih => simp [leBytes, ih]

theorem fromLe_leBytes (n v : Nat) (h : v < 256 ^ n) : fromLe (leBytes n v) = v := by
  induction n generalizing v with
  | zero => simp [leBytes, fromLe]; omega
  | succ n ih =>
    have h2 : v / 256 < 256 ^ n := by rw [Nat.pow_succ] at h; omega
    simp [leBytes, fromLe, ih _ h2]; omega

theorem fromLe_lt (bs : Bytes) : fromLe bs < 256 ^ bs.length := by
  induction bs with
  | nil => simp [fromLe]
  | cons b bs ih =>
    have hb : b.toNat < 256 := by have := b.toNat_lt; omega
    simp only [fromLe, List.length_cons, Nat.pow_succ]; omega

theorem leBytes_fromLe (bs : Bytes) : leBytes bs.length (fromLe bs) = bs := by
  induction bs with
  | nil => rfl
  | cons b bs ih =>
    have hb : b.toNat < 256 := by have := b.toNat_lt; omega
    simp only [List.length_cons, leBytes, fromLe]
    have h1 : (b.toNat + 256 * fromLe bs) % 256 = b.toNat := by omega
    have h2 : (b.toNat + 256 * fromLe bs) / 256 = fromLe bs := by omega
    rw [h1, h2, ih]; simp

theorem leBytes_fromLe' (bs : Bytes) (n : Nat) (h : bs.length = n) : leBytes n (fromLe bs) = bs := by
  subst h; exact leBytes_fromLe bs

end Repe

namespace Repe

theorem encode_eq_fields (h : Header) : h.encode =
    leBytes 8 h.length ++ leBytes 2 h.spec ++ leBytes 1 h.version ++ leBytes 1 h.notify ++
    leBytes 4 h.reserved ++ leBytes 8 h.id ++ leBytes 8 h.queryLength ++ leBytes 8 h.bodyLength ++
    leBytes 2 h.queryFormat ++ leBytes 2 h.bodyFormat ++ leBytes 4 h.ec := by
  simp [Header.encode, encodeWith, specLayout, Header.get]

@[simp] theorem encode_length (h : Header) : h.encode.length = 48 := by
  simp [encode_eq_fields]

theorem parse_eq_fields (bs : Bytes) : Header.parse bs =
    { length := fromLe (bs.take 8)
      spec := fromLe ((bs.drop 8).take 2)
      version := fromLe ((bs.drop 10).take 1)
      notify := fromLe ((bs.drop 11).take 1)
      reserved := fromLe ((bs.drop 12).take 4)
      id := fromLe ((bs.drop 16).take 8)
      queryLength := fromLe ((bs.drop 24).take 8)
      bodyLength := fromLe ((bs.drop 32).take 8)
      queryFormat := fromLe ((bs.drop 40).take 2)
      bodyFormat := fromLe ((bs.drop 42).take 2)
      ec := fromLe ((bs.drop 44).take 4) } := by
  simp [Header.parse, parseWith, specLayout, Header.set, Header.zero, List.drop_drop]

/-- One step of the table interpreter on an encoded prefix. -/
theorem parseWith_step (f : Field) (w v : Nat) (l : Layout) (X : Bytes) (h0 : Header)
    (hv : v < 256 ^ w) :
    parseWith ((f, w) :: l) (leBytes w v ++ X) h0 = parseWith l X (h0.set f v) := by
  simp only [parseWith]
  rw [List.take_left' (leBytes_length w v), List.drop_left' (leBytes_length w v), fromLe_leBytes w v hv]

theorem parse_encode_append (h : Header) (hr : h.InRange) (rest : Bytes) :
    Header.parse (h.encode ++ rest) = h := by
  have := hr.length; have := hr.spec; have := hr.version; have := hr.notify; have := hr.reserved
  have := hr.id; have := hr.queryLength; have := hr.bodyLength; have := hr.queryFormat
  have := hr.bodyFormat; have := hr.ec
  rw [encode_eq_fields]
  simp only [Header.parse, specLayout, List.append_assoc]
  rw [parseWith_step _ _ _ _ _ _ (by omega), parseWith_step _ _ _ _ _ _ (by omega),
      parseWith_step _ _ _ _ _ _ (by omega), parseWith_step _ _ _ _ _ _ (by omega),
      parseWith_step _ _ _ _ _ _ (by omega), parseWith_step _ _ _ _ _ _ (by omega),
      parseWith_step _ _ _ _ _ _ (by omega), parseWith_step _ _ _ _ _ _ (by omega),
      parseWith_step _ _ _ _ _ _ (by omega), parseWith_step _ _ _ _ _ _ (by omega),
      parseWith_step _ _ _ _ _ _ (by omega)]
  simp [parseWith, Header.set, Header.zero]

theorem parse_encode (h : Header) (hr : h.InRange) : Header.parse h.encode = h := by
  have := parse_encode_append h hr []
  simpa using this

theorem fromLe_take_lt (bs : Bytes) (n : Nat) : fromLe (bs.take n) < 256 ^ n := by
  refine Nat.lt_of_lt_of_le (fromLe_lt _) ?_
  exact Nat.pow_le_pow_right (by omega) (by simp [List.length_take]; omega)

theorem parse_inRange (bs : Bytes) : (Header.parse bs).InRange := by
  rw [parse_eq_fields]
  constructor <;> simp only <;> exact Nat.lt_of_lt_of_le (fromLe_take_lt _ _) (by decide)

end Repe

namespace Repe

theorem take_chunk_length (bs : Bytes) (o w : Nat) (h : o + w ≤ bs.length) :
    ((bs.drop o).take w).length = w := by
  simp [List.length_take, List.length_drop]; omega

/-- One encoding: the header bytes are determined by the parsed fields. -/
theorem encode_parse (bs : Bytes) (h : 48 ≤ bs.length) : (Header.parse bs).encode = bs.take 48 := by
  rw [encode_eq_fields, parse_eq_fields]
  simp only
  have e0 : leBytes 8 (fromLe (bs.take 8)) = (bs.drop 0).take 8 := by
    simpa using leBytes_fromLe' (bs.take 8) 8 (by simp [List.length_take]; omega)
  rw [e0,
    leBytes_fromLe' _ 2 (take_chunk_length bs 8 2 (by omega)),
    leBytes_fromLe' _ 1 (take_chunk_length bs 10 1 (by omega)),
    leBytes_fromLe' _ 1 (take_chunk_length bs 11 1 (by omega)),
    leBytes_fromLe' _ 4 (take_chunk_length bs 12 4 (by omega)),
    leBytes_fromLe' _ 8 (take_chunk_length bs 16 8 (by omega)),
    leBytes_fromLe' _ 8 (take_chunk_length bs 24 8 (by omega)),
    leBytes_fromLe' _ 8 (take_chunk_length bs 32 8 (by omega)),
    leBytes_fromLe' _ 2 (take_chunk_length bs 40 2 (by omega)),
    leBytes_fromLe' _ 2 (take_chunk_length bs 42 2 (by omega)),
    leBytes_fromLe' _ 4 (take_chunk_length bs 44 4 (by omega))]
  have step : ∀ (o w : Nat), bs.take (o + w) = bs.take o ++ (bs.drop o).take w := fun o w => List.take_add
  have : bs.take 48 = (bs.drop 0).take 8 ++ (bs.drop 8).take 2 ++ (bs.drop 10).take 1 ++
      (bs.drop 11).take 1 ++ (bs.drop 12).take 4 ++ (bs.drop 16).take 8 ++ (bs.drop 24).take 8 ++
      (bs.drop 32).take 8 ++ (bs.drop 40).take 2 ++ (bs.drop 42).take 2 ++ (bs.drop 44).take 4 := by
    rw [(by rfl : (48:Nat) = 44 + 4), step 44 4, (by rfl : (44:Nat) = 42 + 2), step 42 2,
        (by rfl : (42:Nat) = 40 + 2), step 40 2, (by rfl : (40:Nat) = 32 + 8), step 32 8,
        (by rfl : (32:Nat) = 24 + 8), step 24 8, (by rfl : (24:Nat) = 16 + 8), step 16 8,
        (by rfl : (16:Nat) = 12 + 4), step 12 4, (by rfl : (12:Nat) = 11 + 1), step 11 1,
        (by rfl : (11:Nat) = 10 + 1), step 10 1, (by rfl : (10:Nat) = 8 + 2), step 8 2]
    simp
  exact this.symm

end Repe

namespace Repe

theorem addU64_small (form : SumForm) (mode : OvMode) (a b : Nat) (h : a + b < 2^64) :
    addU64 form mode a b = .ok (some (a + b)) := by
  simp [addU64, U64, h]

theorem sum3_small (form : SumForm) (mode : OvMode) (a q b : Nat) (h : a + q + b < 2^64) :
    sumU64 form mode a [q, b] = .ok (some (a + q + b)) := by
  have h1 : a + q < 2^64 := by omega
  simp [sumU64, addU64_small form mode a q h1, addU64_small form mode (a+q) b h]

theorem sum3_checked (mode : OvMode) (a q b : Nat) :
    sumU64 .checked mode a [q, b] =
      .ok (if a + q + b < 2^64 then some (a + q + b) else none) := by
  by_cases h : a + q + b < 2^64
  · simp [sum3_small .checked mode a q b h, h]
  · by_cases h1 : a + q < 2^64
    · have h1' : a + q < 18446744073709551616 := by omega
      have h' : ¬ a + q + b < 18446744073709551616 := by omega
      simp [sumU64, addU64, U64, h1', h']
    · have h1' : ¬ a + q < 18446744073709551616 := by omega
      simp [sumU64, addU64, U64, h1', h]

/-- `decode` succeeds exactly on the parsed header when the three checks pass (any sum form). -/
theorem decode_ok_of (form : SumForm) (mode : OvMode) (bs : Bytes) (hl : 48 ≤ bs.length)
    (hs : (Header.parse bs).spec = REPE_SPEC)
    (hlen : (Header.parse bs).length = 48 + (Header.parse bs).queryLength + (Header.parse bs).bodyLength) :
    Header.decode form mode bs = .ok (Header.parse bs) := by
  have hr := parse_inRange bs
  have hlt : 48 + (Header.parse bs).queryLength + (Header.parse bs).bodyLength < 2^64 := by
    rw [← hlen]; exact hr.length
  simp [Header.decode, Nat.not_lt.mpr hl, hs, sum3_small form mode 48 _ _ hlt, hlen]

theorem decode_encode_append (form : SumForm) (mode : OvMode) (h : Header) (hr : h.InRange)
    (hs : h.spec = REPE_SPEC) (hlen : h.length = 48 + h.queryLength + h.bodyLength) (rest : Bytes) :
    Header.decode form mode (h.encode ++ rest) = .ok h := by
  have hp := parse_encode_append h hr rest
  have := decode_ok_of form mode (h.encode ++ rest) (by simp) (by rw [hp]; exact hs) (by rw [hp]; exact hlen)
  rw [this, hp]

/-- `decode` with a checked sum, as a closed form. -/
theorem decode_checked_eq (mode : OvMode) (bs : Bytes) :
    Header.decode .checked mode bs =
      if bs.length < 48 then .err .invalidHeaderLength
      else if (Header.parse bs).spec ≠ REPE_SPEC then .err .invalidSpec
      else if (Header.parse bs).length = 48 + (Header.parse bs).queryLength + (Header.parse bs).bodyLength
        then .ok (Header.parse bs) else .err .lengthMismatch := by
  have hr := parse_inRange bs
  unfold Header.decode
  by_cases h1 : bs.length < 48
  · simp [h1]
  · by_cases h2 : (Header.parse bs).spec ≠ REPE_SPEC
    · simp [h1, h2]
    · rw [if_neg h1, if_neg h2, if_neg h1, if_neg h2, sum3_checked]
      by_cases h3 : 48 + (Header.parse bs).queryLength + (Header.parse bs).bodyLength < 2^64
      · simp only [h3, if_true]
        by_cases h4 : (Header.parse bs).length = 48 + (Header.parse bs).queryLength + (Header.parse bs).bodyLength
        · simp [h4]
        · simp [h4]
      · have := hr.length
        have h4 : ¬ (Header.parse bs).length = 48 + (Header.parse bs).queryLength + (Header.parse bs).bodyLength := by omega
        simp [h3, h4]

/-- What a successful `decode` with a checked sum tells us. -/
theorem decode_checked_ok (mode : OvMode) (bs : Bytes) (h : Header)
    (hd : Header.decode .checked mode bs = .ok h) :
    48 ≤ bs.length ∧ h = Header.parse bs ∧ h.spec = REPE_SPEC ∧
    h.length = 48 + h.queryLength + h.bodyLength ∧ h.InRange := by
  rw [decode_checked_eq] at hd
  by_cases h1 : bs.length < 48
  · simp [h1] at hd
  · by_cases h2 : (Header.parse bs).spec ≠ REPE_SPEC
    · simp [h1, h2] at hd
    · by_cases h4 : (Header.parse bs).length = 48 + (Header.parse bs).queryLength + (Header.parse bs).bodyLength
      · simp [h1, h2, h4] at hd
        subst hd
        exact ⟨by omega, rfl, by simpa using h2, h4, parse_inRange bs⟩
      · simp [h1, h2, h4] at hd

/-- With a checked sum `decode` never panics or aborts, in either build profile. -/
theorem decode_checked_total (mode : OvMode) (bs : Bytes) :
    (Header.decode .checked mode bs).isReturn = true := by
  rw [decode_checked_eq]
  split
  · rfl
  · split
    · rfl
    · split <;> rfl

end Repe

namespace Repe

theorem sliceRange_ok (mode : OvMode) (bs : Bytes) (s l : Nat) (h : s + l ≤ bs.length)
    (hlt : s + l < 2^64) : sliceRange mode bs s l = .ok ((bs.drop s).take l) := by
  simp [sliceRange, addU64_small .unchecked mode s l hlt, h]

/-- `from_slice` after a successful checked header decode: the only remaining failure is a short buffer. -/
theorem fromSlice_of_decode (sform : SumForm) (mode : OvMode) (bs : Bytes) (h : Header)
    (hl : 48 ≤ bs.length) (hd : Header.decode .checked mode (bs.take 48) = .ok h) :
    Message.fromSlice .checked sform mode bs =
      if bs.length < 48 + h.queryLength + h.bodyLength then .err .bufferTooSmall
      else .ok ⟨h, (bs.drop 48).take h.queryLength, (bs.drop (48 + h.queryLength)).take h.bodyLength⟩ := by
  obtain ⟨_, _, _, hlen, hr⟩ := decode_checked_ok mode _ h hd
  have hlt : 48 + h.queryLength + h.bodyLength < 2^64 := by rw [← hlen]; exact hr.length
  unfold Message.fromSlice
  rw [if_neg (by omega), hd]
  simp only [Outcome.bind, sum3_small sform mode 48 _ _ hlt]
  by_cases hs : bs.length < 48 + h.queryLength + h.bodyLength
  · simp [hs]
  · rw [if_neg hs, if_neg hs]
    rw [sliceRange_ok mode bs 48 h.queryLength (by omega) (by omega)]
    simp only [addU64_small .unchecked mode 48 h.queryLength (by omega)]
    rw [sliceRange_ok mode bs (48 + h.queryLength) h.bodyLength (by omega) (by omega)]
    simp [Message.new, List.length_take, List.length_drop]
    omega

theorem fromSlice_checked_total (sform : SumForm) (mode : OvMode) (bs : Bytes) :
    (Message.fromSlice .checked sform mode bs).isReturn = true := by
  by_cases hl : bs.length < 48
  · simp [Message.fromSlice, hl, Outcome.isReturn]
  · cases hd : Header.decode .checked mode (bs.take 48) with
    | ok h =>
      rw [fromSlice_of_decode sform mode bs h (by omega) hd]
      split <;> rfl
    | err e => simp [Message.fromSlice, hl, hd, Outcome.bind, Outcome.isReturn]
    | panic => have := decode_checked_total mode (bs.take 48); rw [hd] at this; cases this
    | abort => have := decode_checked_total mode (bs.take 48); rw [hd] at this; cases this

/-- Soundness of `from_slice`: what an `Ok` means. -/
theorem fromSlice_sound (sform : SumForm) (mode : OvMode) (bs : Bytes) (m : Message)
    (hp : Message.fromSlice .checked sform mode bs = .ok m) :
    48 ≤ bs.length ∧ m.header = Header.parse bs ∧ m.header.spec = REPE_SPEC ∧
    m.header.length = 48 + m.header.queryLength + m.header.bodyLength ∧
    48 + m.header.queryLength + m.header.bodyLength ≤ bs.length ∧
    m.query = (bs.drop 48).take m.header.queryLength ∧
    m.body = (bs.drop (48 + m.header.queryLength)).take m.header.bodyLength ∧
    m.query.length = m.header.queryLength ∧ m.body.length = m.header.bodyLength := by
  by_cases hl : bs.length < 48
  · simp [Message.fromSlice, hl] at hp
  · cases hd : Header.decode .checked mode (bs.take 48) with
    | ok h =>
      rw [fromSlice_of_decode sform mode bs h (by omega) hd] at hp
      obtain ⟨_, hpar, hsp, hlen, hr⟩ := decode_checked_ok mode _ h hd
      by_cases hs : bs.length < 48 + h.queryLength + h.bodyLength
      · simp [hs] at hp
      · simp [hs] at hp
        subst hp
        have hpar' : h = Header.parse bs := by
          rw [hpar]; simp [parse_eq_fields, List.take_take, List.drop_take]
        refine ⟨by omega, hpar', hsp, hlen, by simpa using Nat.le_of_not_lt hs, rfl, rfl, ?_, ?_⟩
        · simp [List.length_take, List.length_drop]; omega
        · simp [List.length_take, List.length_drop]; omega
    | err e => simp [Message.fromSlice, hl, hd, Outcome.bind] at hp
    | panic => simp [Message.fromSlice, hl, hd, Outcome.bind] at hp
    | abort => simp [Message.fromSlice, hl, hd, Outcome.bind] at hp

end Repe

namespace Repe

theorem Message.WF.hdr (m : Message) (wf : m.WF) :
    m.header.length = 48 + m.header.queryLength + m.header.bodyLength := by
  rw [wf.len, wf.qlen, wf.blen]

/-- Completeness: a consistent frame followed by anything parses to itself (any sum form:
the sum cannot overflow because it equals the 64-bit `length` field). -/
theorem fromSlice_toVec_append (form sform : SumForm) (mode : OvMode) (m : Message) (wf : m.WF)
    (rest : Bytes) : Message.fromSlice form sform mode (m.toVec ++ rest) = .ok m := by
  have hr := wf.inRange
  have hlen := wf.hdr
  have hlt : 48 + m.header.queryLength + m.header.bodyLength < 2^64 := by rw [← hlen]; exact hr.length
  have htake : (m.toVec ++ rest).take 48 = m.header.encode := by
    simp only [Message.toVec, List.append_assoc]
    exact List.take_left' (encode_length _)
  have hd : Header.decode form mode ((m.toVec ++ rest).take 48) = .ok m.header := by
    rw [htake]; simpa using decode_encode_append form mode m.header hr wf.spec hlen []
  have hL : (m.toVec ++ rest).length = 48 + m.query.length + m.body.length + rest.length := by
    simp [Message.toVec]; omega
  unfold Message.fromSlice
  rw [if_neg (by omega), hd]
  simp only [Outcome.bind, sum3_small sform mode 48 _ _ hlt]
  have hq := wf.qlen; have hb := wf.blen
  rw [if_neg (by omega)]
  rw [sliceRange_ok mode _ 48 m.header.queryLength (by omega) (by omega)]
  simp only [addU64_small .unchecked mode 48 m.header.queryLength (by omega)]
  rw [sliceRange_ok mode _ (48 + m.header.queryLength) m.header.bodyLength (by omega) (by omega)]
  have e1 : ((m.toVec ++ rest).drop 48).take m.header.queryLength = m.query := by
    simp only [Message.toVec, List.append_assoc]
    rw [List.drop_left' (encode_length _), hq]
    exact List.take_left' rfl
  have e2 : ((m.toVec ++ rest).drop (48 + m.header.queryLength)).take m.header.bodyLength = m.body := by
    have : m.toVec ++ rest = (m.header.encode ++ m.query) ++ (m.body ++ rest) := by
      simp [Message.toVec]
    rw [this, List.drop_left' (by simp [hq]), hb]
    exact List.take_left' rfl
  rw [e1, e2]
  simp [Message.new, hq, hb]

theorem fromSlice_toVec (form sform : SumForm) (mode : OvMode) (m : Message) (wf : m.WF) :
    Message.fromSlice form sform mode m.toVec = .ok m := by
  simpa using fromSlice_toVec_append form sform mode m wf []

theorem toVec_length (m : Message) : m.toVec.length = 48 + m.query.length + m.body.length := by
  simp [Message.toVec]; omega

theorem fromSliceExact_toVec (form sform : SumForm) (mode : OvMode) (m : Message) (wf : m.WF) :
    Message.fromSliceExact form sform mode m.toVec = .ok m := by
  simp [Message.fromSliceExact, fromSlice_toVec form sform mode m wf, Outcome.bind, toVec_length]

theorem fromSliceExact_trailing (form sform : SumForm) (mode : OvMode) (m : Message) (wf : m.WF)
    (rest : Bytes) (hne : rest ≠ []) :
    Message.fromSliceExact form sform mode (m.toVec ++ rest) = .err .lengthMismatch := by
  have : rest.length ≠ 0 := by simpa using hne
  simp [Message.fromSliceExact, fromSlice_toVec_append form sform mode m wf rest, Outcome.bind, toVec_length]
  omega

/-- A parsed message is consistent, and re-serialises to the prefix of the input it was parsed from. -/
theorem fromSlice_wf_and_bytes (sform : SumForm) (mode : OvMode) (bs : Bytes) (m : Message)
    (hp : Message.fromSlice .checked sform mode bs = .ok m) :
    m.WF ∧ m.toVec = bs.take (48 + m.query.length + m.body.length) := by
  obtain ⟨hl, hpar, hsp, hlen, hle, hq, hb, hql, hbl⟩ := fromSlice_sound sform mode bs m hp
  have hr : m.header.InRange := by rw [hpar]; exact parse_inRange bs
  refine ⟨⟨hr, hsp, hql.symm, hbl.symm, by rw [hlen, hql, hbl]⟩, ?_⟩
  have henc : m.header.encode = bs.take 48 := by rw [hpar]; exact encode_parse bs hl
  rw [Message.toVec, henc, hql, hbl]
  conv => lhs; rw [hq, hb]
  rw [List.take_add, List.take_add]

end Repe

namespace Repe

/-! ### emission routes -/

theorem writeTo_eq_toVec (m : Message) : m.writeTo = m.toVec := by
  unfold Message.writeTo Message.writes Message.toVec
  cases hq : m.query <;> cases hb : m.body <;> simp

theorem overwrite_split {α} (a b c src : List α) (hb : b.length = src.length) :
    overwrite (a ++ b ++ c) a.length src = a ++ src ++ c := by
  unfold overwrite; simp [List.drop_append, hb]

theorem overwrite_split' {α} (a b c src : List α) (n : Nat) (ha : a.length = n)
    (hb : b.length = src.length) : overwrite (a ++ b ++ c) n src = a ++ src ++ c := by
  subst ha; exact overwrite_split a b c src hb

theorem overwrite_head {α} (b c src : List α) (hb : b.length = src.length) :
    overwrite (b ++ c) 0 src = src ++ c := by
  simpa using overwrite_split [] b c src hb

/-- `into_wire_bytes` equals `to_vec` whatever the capacity of the body buffer (both branches). -/
theorem intoWireBytes_eq_toVec (m : Message) (cap : Nat) : m.intoWireBytes cap = m.toVec := by
  unfold Message.intoWireBytes
  simp only
  by_cases hc : cap ≥ 48 + m.query.length + m.body.length
  · rw [if_pos hc]
    -- the zero padding appended by `resize` has exactly the prefix length
    have hpad : 48 + m.query.length + m.body.length - m.body.length = 48 + m.query.length := by omega
    rw [hpad]
    -- re-split  body ++ zeros  as  x ++ y  with |x| = prefix, |y| = |body|
    let b1 := m.body ++ List.replicate (48 + m.query.length) (0 : UInt8)
    have hb1 : b1.length = (48 + m.query.length) + m.body.length := by simp [b1]; omega
    let x := b1.take (48 + m.query.length)
    let y := b1.drop (48 + m.query.length)
    have hx : x.length = 48 + m.query.length := by simp [x, List.length_take, hb1]
    have hy : y.length = m.body.length := by simp [y, List.length_drop, hb1]
    have hxy : b1 = x ++ y := (List.take_append_drop _ _).symm
    have htk : b1.take m.body.length = m.body := List.take_left' rfl
    -- after copy_within: x ++ body
    have hb2 : (if m.body.length > 0 then overwrite b1 (48 + m.query.length) (b1.take m.body.length) else b1)
        = x ++ m.body := by
      by_cases hz : m.body.length > 0
      · rw [if_pos hz, htk]
        have := overwrite_split' x y [] m.body (48 + m.query.length) hx hy
        simpa [← hxy] using this
      · have hnil : m.body = [] := by
          cases hbb : m.body with
          | nil => rfl
          | cons a t => rw [hbb] at hz; simp at hz
        rw [if_neg hz]
        have : y = [] := by
          apply List.eq_nil_of_length_eq_zero; rw [hy, hnil]; rfl
        rw [hxy, this, hnil]
    show (if m.query.isEmpty then overwrite (if m.body.length > 0 then overwrite b1 (48 + m.query.length) (b1.take m.body.length) else b1) 0 m.header.encode
          else overwrite (overwrite (if m.body.length > 0 then overwrite b1 (48 + m.query.length) (b1.take m.body.length) else b1) 0 m.header.encode) 48 m.query) = m.toVec
    rw [hb2]
    -- split x into its first 48 bytes and the query-sized rest
    let x1 := x.take 48
    let x2 := x.drop 48
    have hx1 : x1.length = 48 := by simp [x1, List.length_take, hx]
    have hx2 : x2.length = m.query.length := by simp [x2, List.length_drop, hx]
    have hx12 : x = x1 ++ x2 := (List.take_append_drop _ _).symm
    have h3 : overwrite (x ++ m.body) 0 m.header.encode = m.header.encode ++ (x2 ++ m.body) := by
      rw [hx12, List.append_assoc]
      exact overwrite_head x1 (x2 ++ m.body) m.header.encode (by simp [hx1])
    rw [h3]
    by_cases hq : m.query.isEmpty
    · rw [if_pos hq]
      have hqn : m.query = [] := by simpa using hq
      have : x2 = [] := by apply List.eq_nil_of_length_eq_zero; rw [hx2, hqn]; rfl
      simp [this, Message.toVec, hqn]
    · rw [if_neg hq]
      have := overwrite_split' m.header.encode x2 m.body m.query 48 (encode_length _) hx2
      rw [← List.append_assoc, this]
      simp [Message.toVec]
  · rw [if_neg hc]
    unfold Message.toVec
    cases hq : m.query <;> cases hb : m.body <;> simp

theorem Builder.build_toVec (b : Builder) :
    b.build.toVec = (b.build.header).encode ++ b.query ++ b.body := rfl

theorem Builder.build_wf (b : Builder) (hid : b.id < 2^64) (hec : b.ec < 2^32)
    (hqf : b.queryFormat < 2^16) (hbf : b.bodyFormat < 2^16)
    (hlen : 48 + b.query.length + b.body.length < 2^64) : b.build.WF := by
  refine ⟨⟨?_, ?_, ?_, ?_, ?_, ?_, ?_, ?_, ?_, ?_, ?_⟩, rfl, rfl, rfl, rfl⟩ <;>
    simp [Builder.build, REPE_SPEC, REPE_VERSION] <;> (try split) <;> omega

/-- `write_message_streaming` produces `to_vec` of the message with the three lengths patched. -/
theorem streaming_eq_toVec (h : Header) (q body : Bytes) :
    writeMessageStreaming h q body = (Message.mk (h.patchLengths q.length body.length) q body).toVec := by
  unfold writeMessageStreaming Message.toVec
  cases q <;> simp

theorem streaming_wf (h : Header) (q body : Bytes) (hr : h.InRange) (hs : h.spec = REPE_SPEC)
    (hlen : 48 + q.length + body.length < 2^64) :
    (Message.mk (h.patchLengths q.length body.length) q body).WF := by
  refine ⟨⟨?_, hr.spec, hr.version, hr.notify, hr.reserved, hr.id, ?_, ?_, hr.queryFormat, hr.bodyFormat, hr.ec⟩,
    hs, rfl, rfl, rfl⟩ <;> simp [Header.patchLengths] <;> omega

/-- A message whose lengths are already right is unchanged by the streaming writer's patching. -/
theorem patchLengths_id (m : Message) (wf : m.WF) :
    m.header.patchLengths m.query.length m.body.length = m.header := by
  cases m with | mk h q b =>
  cases h
  simp [Header.patchLengths]
  have := wf.qlen; have := wf.blen; have := wf.len
  simp_all

theorem streaming_of_wf (m : Message) (wf : m.WF) :
    writeMessageStreaming m.header m.query m.body = m.toVec := by
  rw [streaming_eq_toVec, patchLengths_id m wf]

/-- TCP-server echo framing and WebSocket stamping put the same bytes on the wire. -/
theorem serverFrame_eq_stamped (resp : Message) (wf : resp.WF) (reqQuery : Bytes) :
    serverFrame resp reqQuery = (stampResponseQuery resp reqQuery).toVec := by
  unfold serverFrame responseEchoQuery stampResponseQuery
  by_cases hrq : resp.query.isEmpty
  · have hrqn : resp.query = [] := by simpa using hrq
    by_cases hq : reqQuery.isEmpty
    · have hqn : reqQuery = [] := by simpa using hq
      have := streaming_of_wf resp wf
      simp [hrqn, hqn] at this ⊢
      exact this
    · simp only [hrq, hq, if_true, not_true, or_self]
      rw [streaming_eq_toVec, wf.blen]
      simp
  · simp only [hrq]
    simp only [Bool.false_eq_true, not_false_eq_true, or_true, if_true]
    exact streaming_of_wf resp wf

end Repe

namespace Repe

/-! ### stream readers -/

theorem alloc_fallible (n : Nat) :
    alloc .fallible n = if n ≥ 2^62 then .err .io else .ok () := by
  unfold alloc ISIZE_MAX NEVER_ALLOC
  by_cases h1 : n > 2^63 - 1
  · have : n ≥ 2^62 := by omega
    simp [h1, this]
  · by_cases h2 : n ≥ 2^62 <;> simp [h1, h2]

theorem alloc_fallible_return (n : Nat) : (alloc .fallible n).isReturn = true := by
  rw [alloc_fallible]; split <;> rfl

theorem readExact_return (s : Bytes) (n : Nat) : (readExact s n).isReturn = true := by
  unfold readExact; split <;> rfl

theorem Message.new_return (h : Header) (q b : Bytes) : (Message.new h q b).isReturn = true := by
  unfold Message.new; split <;> rfl

theorem bind_return {ε α β} (x : Outcome ε α) (f : α → Outcome ε β)
    (hx : x.isReturn = true) (hf : ∀ a, (f a).isReturn = true) : (x.bind f).isReturn = true := by
  cases x with
  | ok a => exact hf a
  | err e => rfl
  | panic => cases hx
  | abort => cases hx

/-- With checked sums and fallible allocation `read_message` never panics and never aborts,
for every stream and every declared size. -/
theorem readMessage_total (mode : OvMode) (s : Bytes) :
    (readMessage .checked .fallible mode s).isReturn = true := by
  unfold readMessage
  refine bind_return _ _ (readExact_return _ _) fun ⟨hb, s1⟩ => ?_
  refine bind_return _ _ (decode_checked_total _ _) fun h => ?_
  refine bind_return _ _ (alloc_fallible_return _) fun _ => ?_
  refine bind_return _ _ (readExact_return _ _) fun ⟨q, s2⟩ => ?_
  refine bind_return _ _ (alloc_fallible_return _) fun _ => ?_
  refine bind_return _ _ (readExact_return _ _) fun ⟨b, _⟩ => ?_
  exact Message.new_return _ _ _

theorem bind_return' {ε α β} (x : Outcome ε α) (f : α → Outcome ε β)
    (hx : x.isReturn = true) (hf : ∀ a, x = .ok a → (f a).isReturn = true) :
    (x.bind f).isReturn = true := by
  cases x with
  | ok a => exact hf a rfl
  | err e => rfl
  | panic => cases hx
  | abort => cases hx

theorem readMessageInto_total (tform : SumForm) (mode : OvMode) (s : Bytes) :
    (readMessageInto .checked tform .fallible mode s).isReturn = true := by
  unfold readMessageInto
  refine bind_return _ _ (readExact_return _ _) fun ⟨hb, s1⟩ => ?_
  refine bind_return' _ _ (decode_checked_total _ _) fun h hd => ?_
  obtain ⟨_, _, _, hlen, hr⟩ := decode_checked_ok mode _ h hd
  have hlt : 48 + h.queryLength + h.bodyLength < 2^64 := by rw [← hlen]; exact hr.length
  simp only [sum3_small tform mode 48 _ _ hlt]
  refine bind_return _ _ (alloc_fallible_return _) fun _ => ?_
  rw [if_neg (by omega)]
  exact bind_return _ _ (readExact_return _ _) fun ⟨r, _⟩ => rfl

/-- `read_message` on a stream that starts with a whole consistent frame (payloads below the
never-allocatable bound) returns that frame. -/
theorem readMessage_complete (form : SumForm) (mode : OvMode) (m : Message) (wf : m.WF) (rest : Bytes)
    (hq : m.query.length < 2^62) (hb : m.body.length < 2^62) :
    readMessage form .fallible mode (m.toVec ++ rest) = .ok m := by
  have hr := wf.inRange
  have hL : (m.toVec ++ rest).length = 48 + m.query.length + m.body.length + rest.length := by
    simp [Message.toVec]; omega
  have htake : (m.toVec ++ rest).take 48 = m.header.encode := by
    simp only [Message.toVec, List.append_assoc]; exact List.take_left' (encode_length _)
  have hdrop : (m.toVec ++ rest).drop 48 = m.query ++ (m.body ++ rest) := by
    simp only [Message.toVec, List.append_assoc]; exact List.drop_left' (encode_length _)
  have hd : Header.decode form mode m.header.encode = .ok m.header := by
    simpa using decode_encode_append form mode m.header hr wf.spec wf.hdr []
  unfold readMessage
  simp only [readExact, Outcome.bind]
  rw [if_neg (by omega), htake, hdrop]
  simp only [hd, alloc_fallible, wf.qlen, wf.blen]
  rw [if_neg (by omega)]
  simp only [List.length_append]
  rw [if_neg (by omega), if_neg (by omega)]
  simp only [List.take_left' rfl, List.drop_left' rfl, List.length_append]
  rw [if_neg (by omega)]
  simp [Message.new, wf.qlen, wf.blen]

/-- A stream cut anywhere inside a frame makes `read_message` return an I/O error. -/
theorem readMessage_truncated (form : SumForm) (mode : OvMode) (m : Message) (wf : m.WF) (n : Nat)
    (hn : n < m.toVec.length) :
    readMessage form .fallible mode (m.toVec.take n) = .err .io := by
  have hr := wf.inRange
  have hL := toVec_length m
  by_cases h48 : n < 48
  · unfold readMessage
    simp only [readExact, Outcome.bind]
    rw [if_pos (by simp [List.length_take]; omega)]
  · have hlen : (m.toVec.take n).length = n := by simp [List.length_take]; omega
    have htake : (m.toVec.take n).take 48 = m.header.encode := by
      rw [List.take_take, Nat.min_eq_left (by omega)]
      simp only [Message.toVec, List.append_assoc]; exact List.take_left' (encode_length _)
    have hd : Header.decode form mode m.header.encode = .ok m.header := by
      simpa using decode_encode_append form mode m.header hr wf.spec wf.hdr []
    have hdl : ((m.toVec.take n).drop 48).length = n - 48 := by simp [List.length_drop, hlen]
    unfold readMessage
    simp only [readExact, Outcome.bind]
    rw [if_neg (by omega), htake]
    simp only [hd, alloc_fallible, wf.qlen, wf.blen]
    by_cases hq62 : m.query.length ≥ 2^62
    · simp [hq62]
    · rw [if_neg hq62]
      simp only [hdl]
      by_cases hq : n - 48 < m.query.length
      · simp [hq]
      · rw [if_neg hq]
        simp only
        by_cases hb62 : m.body.length ≥ 2^62
        · simp [hb62]
        · rw [if_neg hb62]
          simp only [List.length_drop, hdl]
          rw [if_pos (by omega)]

end Repe

namespace Repe

/-! ### coverage-audit pass: stream-reader soundness, pipelining, further emission routes -/

theorem bind_eq_ok {ε α β} (x : Outcome ε α) (f : α → Outcome ε β) (b : β)
    (h : x.bind f = .ok b) : ∃ a, x = .ok a ∧ f a = .ok b := by
  cases x with
  | ok a => exact ⟨a, rfl, h⟩
  | err e => simp [Outcome.bind] at h
  | panic => simp [Outcome.bind] at h
  | abort => simp [Outcome.bind] at h

theorem readExact_ok (s : Bytes) (n : Nat) (a r : Bytes) (h : readExact s n = .ok (a, r)) :
    n ≤ s.length ∧ a = s.take n ∧ r = s.drop n := by
  unfold readExact at h
  split at h
  · cases h
  · simp only [Outcome.ok.injEq, Prod.mk.injEq] at h
    exact ⟨by omega, h.1.symm, h.2.symm⟩

theorem alloc_ok_any (af : AllocForm) (n : Nat) (u : Unit) (_h : alloc af n = .ok u) : True := trivial

/-- Soundness of `read_message` (any allocation form): `Ok(m)` means the stream starts with the whole
consistent frame `m.toVec`, and `m`'s parts are exactly those stream bytes. -/
theorem readMessage_sound (af : AllocForm) (mode : OvMode) (s : Bytes) (m : Message)
    (h : readMessage .checked af mode s = .ok m) : m.WF ∧ ∃ rest, s = m.toVec ++ rest := by
  unfold readMessage at h
  obtain ⟨⟨hb, s1⟩, h1, h⟩ := bind_eq_ok _ _ _ h
  obtain ⟨hd, h2, h⟩ := bind_eq_ok _ _ _ h
  obtain ⟨_, _, h⟩ := bind_eq_ok _ _ _ h
  obtain ⟨⟨q, s2⟩, h3, h⟩ := bind_eq_ok _ _ _ h
  obtain ⟨_, _, h⟩ := bind_eq_ok _ _ _ h
  obtain ⟨⟨b, s3⟩, h4, h⟩ := bind_eq_ok _ _ _ h
  dsimp only at h h3 h4 h2
  obtain ⟨hl1, rfl, rfl⟩ := readExact_ok _ _ _ _ h1
  obtain ⟨hl3, rfl, rfl⟩ := readExact_ok _ _ _ _ h3
  obtain ⟨hl4, rfl, rfl⟩ := readExact_ok _ _ _ _ h4
  obtain ⟨hl2, hpar, hsp, hlen, hr⟩ := decode_checked_ok mode _ hd h2
  have hq : ((s.drop 48).take hd.queryLength).length = hd.queryLength := by
    rw [List.length_take]; omega
  have hbl : (((s.drop 48).drop hd.queryLength).take hd.bodyLength).length = hd.bodyLength := by
    rw [List.length_take]; omega
  unfold Message.new at h
  rw [if_neg (by rw [hq, hbl]; simp)] at h
  simp only [Outcome.ok.injEq] at h
  subst h
  refine ⟨⟨hr, hsp, hq.symm, hbl.symm, by dsimp only; rw [hlen, hq, hbl]⟩, ?_⟩
  refine ⟨((s.drop 48).drop hd.queryLength).drop hd.bodyLength, ?_⟩
  have htl : (s.take 48).length = 48 := by rw [List.length_take]; omega
  have henc : hd.encode = s.take 48 := by
    rw [hpar, encode_parse _ (by omega), List.take_take]; simp
  simp only [Message.toVec]
  rw [henc, List.append_assoc, List.append_assoc, List.take_append_drop, List.take_append_drop,
    List.take_append_drop]

/-- Soundness of `read_message_into`: on `Ok` the buffer holds exactly one whole consistent frame, which
is the front of the stream (nothing of an earlier frame, nothing of the next). -/
theorem readMessageInto_sound (tform : SumForm) (af : AllocForm) (mode : OvMode) (s f : Bytes)
    (h : readMessageInto .checked tform af mode s = .ok f) :
    ∃ m : Message, m.WF ∧ f = m.toVec ∧ ∃ rest, s = f ++ rest := by
  unfold readMessageInto at h
  obtain ⟨⟨hb, s1⟩, h1, h⟩ := bind_eq_ok _ _ _ h
  obtain ⟨hd, h2, h⟩ := bind_eq_ok _ _ _ h
  dsimp only at h h2
  obtain ⟨hl1, rfl, rfl⟩ := readExact_ok _ _ _ _ h1
  obtain ⟨hl2, hpar, hsp, hlen, hr⟩ := decode_checked_ok mode _ hd h2
  have hlt : 48 + hd.queryLength + hd.bodyLength < 2^64 := by rw [← hlen]; exact hr.length
  simp only [sum3_small tform mode 48 _ _ hlt] at h
  obtain ⟨_, _, h⟩ := bind_eq_ok _ _ _ h
  rw [if_neg (by omega)] at h
  obtain ⟨⟨r, s2⟩, h3, h⟩ := bind_eq_ok _ _ _ h
  dsimp only at h
  obtain ⟨hl3, rfl, rfl⟩ := readExact_ok _ _ _ _ h3
  simp only [Outcome.ok.injEq] at h
  subst h
  have hsub : 48 + hd.queryLength + hd.bodyLength - 48 = hd.queryLength + hd.bodyLength := by omega
  rw [hsub] at hl3 ⊢
  have hrl : ((s.drop 48).take (hd.queryLength + hd.bodyLength)).length = hd.queryLength + hd.bodyLength := by
    rw [List.length_take]; omega
  have htl : (s.take 48).length = 48 := by rw [List.length_take]; omega
  have henc : hd.encode = s.take 48 := by
    rw [hpar, encode_parse _ (by omega), List.take_take]; simp
  let r := (s.drop 48).take (hd.queryLength + hd.bodyLength)
  refine ⟨⟨hd, r.take hd.queryLength, r.drop hd.queryLength⟩, ?_, ?_, ?_⟩
  · have hq : (r.take hd.queryLength).length = hd.queryLength := by
      rw [List.length_take, hrl]; omega
    have hbb : (r.drop hd.queryLength).length = hd.bodyLength := by
      rw [List.length_drop, hrl]; omega
    exact ⟨hr, hsp, hq.symm, hbb.symm, by dsimp only; rw [hlen, hq, hbb]⟩
  · simp only [Message.toVec]
    rw [henc, List.append_assoc, List.take_append_drop]
  · exact ⟨(s.drop 48).drop (hd.queryLength + hd.bodyLength), by
      rw [List.append_assoc, List.take_append_drop, List.take_append_drop]⟩

/-- `read_message_into` on a stream that starts with a whole consistent frame of allocatable size leaves
exactly that frame in the buffer, whatever follows on the stream. -/
theorem readMessageInto_complete (form tform : SumForm) (mode : OvMode) (m : Message) (wf : m.WF)
    (rest : Bytes) (hsz : 48 + m.query.length + m.body.length < 2^62) :
    readMessageInto form tform .fallible mode (m.toVec ++ rest) = .ok m.toVec := by
  have hr := wf.inRange
  have hlt : 48 + m.header.queryLength + m.header.bodyLength < 2^64 := by
    rw [wf.qlen, wf.blen]; omega
  have hL : (m.toVec ++ rest).length = 48 + m.query.length + m.body.length + rest.length := by
    simp [Message.toVec]; omega
  have htake : (m.toVec ++ rest).take 48 = m.header.encode := by
    simp only [Message.toVec, List.append_assoc]; exact List.take_left' (encode_length _)
  have hdrop : (m.toVec ++ rest).drop 48 = m.query ++ (m.body ++ rest) := by
    simp only [Message.toVec, List.append_assoc]; exact List.drop_left' (encode_length _)
  have hd : Header.decode form mode m.header.encode = .ok m.header := by
    simpa using decode_encode_append form mode m.header hr wf.spec wf.hdr []
  unfold readMessageInto
  simp only [readExact, Outcome.bind]
  rw [if_neg (by omega), htake, hdrop]
  have hlt' : 48 + m.query.length + m.body.length < 2^64 := by omega
  simp only [hd, wf.qlen, wf.blen, sum3_small tform mode 48 _ _ hlt', alloc_fallible]
  rw [if_neg (by omega), if_neg (by omega)]
  have hsub : 48 + m.query.length + m.body.length - 48 = m.query.length + m.body.length := by omega
  simp only [hsub, List.length_append]
  rw [if_neg (by omega)]
  have : m.query ++ (m.body ++ rest) = (m.query ++ m.body) ++ rest := by simp
  rw [this, List.take_left' (by simp)]
  simp [Message.toVec]

/-- A stream cut anywhere inside a frame makes `read_message_into` return an I/O error. -/
theorem readMessageInto_truncated (form tform : SumForm) (mode : OvMode) (m : Message) (wf : m.WF)
    (n : Nat) (hn : n < m.toVec.length) :
    readMessageInto form tform .fallible mode (m.toVec.take n) = .err .io := by
  have hr := wf.inRange
  have hL := toVec_length m
  have hlt : 48 + m.header.queryLength + m.header.bodyLength < 2^64 := by
    rw [← wf.hdr]; exact hr.length
  by_cases h48 : n < 48
  · unfold readMessageInto
    simp only [readExact, Outcome.bind]
    rw [if_pos (by simp [List.length_take]; omega)]
  · have hlen : (m.toVec.take n).length = n := by simp [List.length_take]; omega
    have htake : (m.toVec.take n).take 48 = m.header.encode := by
      rw [List.take_take, Nat.min_eq_left (by omega)]
      simp only [Message.toVec, List.append_assoc]; exact List.take_left' (encode_length _)
    have hd : Header.decode form mode m.header.encode = .ok m.header := by
      simpa using decode_encode_append form mode m.header hr wf.spec wf.hdr []
    have hdl : ((m.toVec.take n).drop 48).length = n - 48 := by simp [List.length_drop, hlen]
    unfold readMessageInto
    simp only [readExact, Outcome.bind]
    rw [if_neg (by omega), htake]
    have hlt' : 48 + m.query.length + m.body.length < 2^64 := by rw [← wf.qlen, ← wf.blen]; exact hlt
    simp only [hd, wf.qlen, wf.blen, sum3_small tform mode 48 _ _ hlt', alloc_fallible]
    by_cases h62 : 48 + m.query.length + m.body.length ≥ 2^62
    · simp [h62]
    · rw [if_neg h62, if_neg (by omega)]
      simp only [hdl]
      rw [if_pos (by omega)]

/-- Pipelining with one reader and one reused buffer: `n` whole consistent frames back to back are read
as exactly those frames, in order, and the stream is left at the first byte after them. -/
theorem readSeq_frames (reader : Bytes → WOut Bytes) (ms : List Message) (tail : Bytes)
    (hreader : ∀ m ∈ ms, ∀ rest, reader (m.toVec ++ rest) = .ok m.toVec) :
    readSeq reader ms.length ((ms.map Message.toVec).flatten ++ tail) = (ms.map Message.toVec, tail) := by
  induction ms with
  | nil => simp [readSeq]
  | cons m ms ih =>
    have h1 := hreader m (by simp) ((ms.map Message.toVec).flatten ++ tail)
    have ih' := ih (fun m' hm' rest => hreader m' (by simp [hm']) rest)
    simp only [List.map_cons, List.flatten_cons, List.length_cons, List.append_assoc, readSeq, h1,
      List.drop_left' rfl, ih']

/-! emission: the async server's `write_view_response`, `serialized_len`, the response constructors -/

theorem writeViewResponse_of_wf (resp : Message) (wf : resp.WF) (query : Bytes) :
    writeViewResponse resp query = writeMessageStreaming resp.header query resp.body := by
  have hbl := wf.blen
  unfold writeViewResponse writeMessageStreaming Header.patchLengths
  cases hb : resp.body <;> simp [hbl, hb]

/-- Async TCP server and blocking TCP server frame the same response identically. -/
theorem asyncServerFrame_eq_serverFrame (resp : Message) (wf : resp.WF) (reqQuery : Bytes) :
    asyncServerFrame resp reqQuery = serverFrame resp reqQuery := by
  unfold asyncServerFrame serverFrame
  exact writeViewResponse_of_wf resp wf _

theorem serializedLen_eq (m : Message) : m.serializedLen = m.toVec.length := by
  rw [toVec_length]; rfl

theorem stamp_unstamped_error (reqId : Nat) (reqQuery : Bytes) (code : Nat) (msg : Bytes) :
    stampResponseQuery (createErrorResponseUnstamped reqId code msg) reqQuery =
      createErrorResponseLike reqId reqQuery code msg := by
  unfold stampResponseQuery createErrorResponseUnstamped createErrorResponseLike wireErrorMessage
    Builder.build Header.patchLengths
  cases reqQuery with
  | nil => simp
  | cons a t => simp

theorem stamp_unstamped_response (reqId reqQf : Nat) (reqQuery : Bytes) (bf : Nat) (body : Bytes) :
    stampResponseQuery (createResponseUnstamped reqId reqQf bf body) reqQuery =
      createResponse reqId reqQf reqQuery bf body := by
  unfold stampResponseQuery createResponseUnstamped createResponse Builder.build Header.patchLengths
  cases reqQuery with
  | nil => simp
  | cons a t => simp

theorem createErrorResponseLike_wf (reqId : Nat) (reqQuery : Bytes) (code : Nat) (msg : Bytes)
    (hid : reqId < 2^64) (hc : code < 2^32) (hlen : 48 + reqQuery.length + msg.length < 2^64) :
    (createErrorResponseLike reqId reqQuery code msg).WF := by
  refine ⟨⟨?_, ?_, ?_, ?_, ?_, ?_, ?_, ?_, ?_, ?_, ?_⟩, rfl, rfl, rfl, rfl⟩ <;>
    simp [createErrorResponseLike, wireErrorMessage, Builder.build, REPE_SPEC, REPE_VERSION, UTF8_FORMAT] <;>
    omega

/-- A route whose writes are header, query, body (guarded or not) emits `to_vec`. -/
theorem emitParts_ok (ps : List Part) (h : partsOk ps = true) (m : Message) :
    emitParts ps m = m.toVec := by
  match ps, h with
  | [.header, .query gq, .body gb], _ =>
    unfold emitParts Message.toVec
    cases gq <;> cases gb <;> cases hq : m.query <;> cases hb : m.body <;> simp [Part.emit, hq, hb]

/-- header then query (guarded or not): the prefix `write_message_streaming` writes before the body callback. -/
def prefixPartsOk : List Part → Bool
  | [.header, .query _] => true
  | _ => false

theorem emitParts_prefix_ok (ps : List Part) (h : prefixPartsOk ps = true) (m : Message) :
    emitParts ps m ++ m.body = m.toVec := by
  match ps, h with
  | [.header, .query gq], _ =>
    unfold emitParts Message.toVec
    cases gq <;> cases hq : m.query <;> simp [Part.emit, hq]

end Repe
