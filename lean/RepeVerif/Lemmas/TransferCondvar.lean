import RepeVerif.Lemmas.Transfer
import RepeVerif.Lemmas.Condvar
/-!
Composition of the C11/C13 model (`Repe.Transfer`, the whole `TransferControl` state: ring with bodies,
eviction, peer slot, overflow modes, poisoning) with the C12 model (`Repe.Condvar`, the part of the state the
two wait predicates and the signalling methods read or write).  `absSh` forgets what C12 does not look at;
the lemmas show that every state-changing method has the same effect in both models and that one pass through
either wait loop returns the same value, so C12's wake-up theorems speak about the same object as the
history theorems of C11/C13.
-/
namespace Repe.Transfer
open Repe

/-- the part of the state C12's model looks at -/
def absSh (s : State) : Condvar.Sh :=
  ⟨s.window, s.sent, s.acked, s.file, s.cancelled, s.pending, s.chunks.map fun c => (c.offset, c.dataLen)⟩

/-- C12's signalling op as a call on the full model (peer id, `last` flag and wire body do not matter to C12) -/
def ofCondvarOp (p : Nat) (last : Bool) (body : Bytes) : Condvar.Op → Op
  | .sent n => .recordSent n
  | .ack f o => .recordAck f o
  | .cancel r => .cancel r
  | .advance f => .advance f
  | .resume f o => .requestResume p f o
  | .push o l => .pushReplay o l last body
  | .nop => .setPeer p

/-- The forms the source has today (each one a field of `Gen.transferFacts`). -/
structure Facts.Std (f : Facts) : Prop where
  creditZero : f.creditZero = true
  creditChecked : f.creditAdd = .checked
  creditLe : f.creditLe = true
  ackFileTest : f.ackFileTest = true
  ackCap : f.ackCap = true
  ackStrict : f.ackStrict = true
  resumeCap : f.resumeCap = true
  reconnCancelFirst : f.reconnCancelFirst = true
  advanceDropsPending : f.advanceDropsPending = true
  advanceKeepsCancel : f.advanceKeepsCancel = true
  cancelFirstWins : f.cancelFirstWins = true

instance (f : Facts) : Decidable f.Std :=
  if h : f.creditZero = true ∧ f.creditAdd = .checked ∧ f.creditLe = true ∧ f.ackFileTest = true ∧ f.ackCap = true ∧
      f.ackStrict = true ∧ f.resumeCap = true ∧ f.reconnCancelFirst = true ∧ f.advanceDropsPending = true ∧
      f.advanceKeepsCancel = true ∧ f.cancelFirstWins = true
  then isTrue ⟨h.1, h.2.1, h.2.2.1, h.2.2.2.1, h.2.2.2.2.1, h.2.2.2.2.2.1, h.2.2.2.2.2.2.1, h.2.2.2.2.2.2.2.1,
    h.2.2.2.2.2.2.2.2.1, h.2.2.2.2.2.2.2.2.2.1, h.2.2.2.2.2.2.2.2.2.2⟩
  else isFalse fun g => h ⟨g.1, g.2, g.3, g.4, g.5, g.6, g.7, g.8, g.9, g.10, g.11⟩

/-- `ReplayRing::covers` is C12's `ringCovers` on the chunk boundaries (while the newest chunk ends below 2^64). -/
theorem covers_eq_ringCovers (f : Facts) (m : OvMode) (chunks : List Chunk) (off : Nat)
    (hedge : ∀ c, chunks.getLast? = some c → c.offset + c.dataLen < U64) :
    covers f m chunks off = .ok (Condvar.ringCovers (chunks.map fun c => (c.offset, c.dataLen)) off) := by
  unfold covers Condvar.ringCovers
  rw [List.getLast?_map]
  cases hl : chunks.getLast? with
  | none => simp
  | some c =>
    have hlt := hedge c hl
    simp only [Option.map_some]
    have hany : (List.map (fun c => (c.offset, c.dataLen)) chunks).any (fun c => c.1 == off) =
        chunks.any (fun c => c.offset == off) := by
      simp [List.any_map, Function.comp_def]
    rw [hany]
    by_cases ha : (chunks.any fun c => c.offset == off) = true
    · simp [ha]
    · simp only [ha, if_false, Bool.false_eq_true, Bool.false_or]
      unfold addU64
      simp [hlt]

/-- The push is accepted by the `debug_assert!` and does not evict (C12's model assumes the capacity is not
reached). -/
def PushFits (f : Facts) (m : OvMode) (s : State) : Condvar.Op → Prop
  | .push o _ => pushAssertOk m s.chunks o = true ∧
      ∀ c : Chunk, (evict f s.capacity (s.chunks ++ [c]) (satAdd s.bytesHeld c.body.length)).1 = s.chunks ++ [c]
  | _ => True

/-- **Every signalling method has the same effect in both models.** -/
theorem sim_op {f : Facts} (hf : f.Std) (m : OvMode) (t : Condvar.NotifyTable) (s : State) (cop : Condvar.Op)
    (p : Nat) (last : Bool) (body : Bytes) (hp : s.poisoned = false)
    (hedge : ∀ c, s.chunks.getLast? = some c → c.offset + c.dataLen < U64) (hpush : PushFits f m s cop) :
    absSh (step f m s (ofCondvarOp p last body cop)).1 = (Condvar.applyOp t cop (absSh s)).1 ∧
    (step f m s (ofCondvarOp p last body cop)).1.poisoned = false := by
  cases cop with
  | sent n =>
    simp only [ofCondvarOp, step, hp, if_false, Bool.false_eq_true, Condvar.applyOp, absSh]
    by_cases h : n > s.sent
    · have h' : s.sent < n := h
      simp [h, h', hp]
    · have h' : ¬ s.sent < n := h
      simp [h, h', hp]
  | ack fi off =>
    simp only [ofCondvarOp, step, hp, if_false, Bool.false_eq_true, Condvar.applyOp, absSh, hf.ackFileTest,
      ackAdvances, ackCapped, hf.ackCap, hf.ackStrict, if_true, Bool.not_true, Bool.false_or]
    by_cases hfile : fi = s.file
    · by_cases hadv : min off s.sent > s.acked
      · have : s.acked < min off s.sent := hadv
        simp [hfile, hadv, this, hp, Nat.blt]
        all_goals (intros; omega)
      · have : ¬ s.acked < min off s.sent := hadv
        simp [hfile, hadv, this, hp, Nat.blt]
        all_goals (intros; omega)
    · simp [hfile, hp]
  | cancel r =>
    simp only [ofCondvarOp, step, hp, if_false, Bool.false_eq_true, Condvar.applyOp, absSh, hf.cancelFirstWins, if_true]
    split <;> simp_all
  | advance fi =>
    simp [ofCondvarOp, step, hp, Condvar.applyOp, absSh, hf.advanceDropsPending, hf.advanceKeepsCancel]
  | resume fi off =>
    simp only [ofCondvarOp, step, hp, if_false, Bool.false_eq_true, Condvar.applyOp, Condvar.resumeRes]
    cases hc : s.cancelled with
    | some r => simp [absSh, hc, hp]
    | none =>
      by_cases hfile : fi = s.file
      · have hcov := covers_eq_ringCovers f m s.chunks off hedge
        simp only [absSh, hc, Option.isSome_none, Bool.false_eq_true, if_false, hfile, bne_self_eq_false, hcov]
        cases hr : Condvar.ringCovers (s.chunks.map fun c => (c.offset, c.dataLen)) off with
        | false => simp [hp, hc]
        | true =>
          simp only [Bool.not_true, Bool.false_eq_true, if_false, resumeBumps, hf.resumeCap, Bool.not_true,
            Bool.false_or]
          by_cases h1 : off > s.acked <;> by_cases h2 : off ≤ s.sent <;>
            simp [h1, h2, hp, hc, Nat.blt, Nat.ble_eq, Nat.not_lt.mp, Nat.lt_of_lt_of_le] <;> omega
      · have : (fi != s.file) = true := by simpa using hfile
        simp [absSh, hc, this, hp]
  | push o l =>
    obtain ⟨ha, hne⟩ := hpush
    rw [show ofCondvarOp p last body (.push o l) = .pushReplay o l last body from rfl,
      step_push s o l last body hp ha]
    have := hne ⟨o, l, last, body⟩
    simp only at this
    simp [absSh, Condvar.applyOp, this, hp]
  | nop =>
    simp [ofCondvarOp, step, hp, Condvar.applyOp, absSh]

/-- my return value of a wait, as C12's `Ret` -/
def toCondvarRet : Ret → Option Condvar.Ret
  | .creditOk => some .ok
  | .creditCancelled r => some (.cancelled r)
  | .creditTimeout => some .timeout
  | .reconnResume o => some (.resume o)
  | .reconnCancelled r => some (.cancelled r)
  | .reconnTimeout => some .timeout
  | _ => none

def waitOp : Condvar.Kind → Op
  | .credit len => .waitCredit len
  | .reconnect => .waitReconnect

/-- **One pass through either wait loop (deadline reached) is the same in both models**: same return value,
same effect on the shared state (the reconnect wait consumes the pending resume). -/
theorem sim_wait {f : Facts} (hf : f.Std) (m : OvMode) (s : State) (k : Condvar.Kind)
    (hp : s.poisoned = false) (hw : s.window < U64) :
    ∃ r, toCondvarRet (step f m s (waitOp k)).2 = some r ∧
      Condvar.runBody k true Condvar.stdLoop (absSh s) = some (absSh (step f m s (waitOp k)).1, .returned r) ∧
      (step f m s (waitOp k)).1.poisoned = false := by
  cases k with
  | reconnect =>
    simp only [waitOp, step, hp, if_false, Bool.false_eq_true, hf.reconnCancelFirst, if_true,
      Condvar.stdLoop, Condvar.runBody, absSh]
    cases hc : s.cancelled with
    | some r => exact ⟨.cancelled r, rfl, by simp [hc], hp⟩
    | none =>
      cases hpe : s.pending with
      | some o => exact ⟨.resume o, rfl, by simp [hc], by simp [hp]⟩
      | none => exact ⟨.timeout, rfl, by simp [hc, hpe], hp⟩
  | credit len =>
    simp only [waitOp, step, hp, if_false, Bool.false_eq_true, Condvar.stdLoop, Condvar.runBody, absSh]
    cases hc : s.cancelled with
    | some r => exact ⟨.cancelled r, rfl, by simp [hc], hp⟩
    | none =>
      simp only
      by_cases hfit : inFlight s = 0 ∨ inFlight s + len ≤ s.window
      · rw [creditFits_complete (m := m) hf.creditZero hf.creditLe hw hfit]
        refine ⟨.ok, rfl, ?_, hp⟩
        have : (Condvar.inFlight ⟨s.window, s.sent, s.acked, s.file, none, s.pending,
            s.chunks.map fun c => (c.offset, c.dataLen)⟩) = inFlight s := rfl
        rcases hfit with h0 | h1
        · simp [this, h0, hc]
        · simp [this, Nat.ble_eq, h1, hc]
      · obtain ⟨b, hb⟩ := creditFits_total (f := f) (m := m) (infl := inFlight s) (len := len) (w := s.window)
          (Or.inl (by rw [hf.creditChecked]; decide))
        cases b with
        | true => exact absurd (creditFits_sound (Or.inl hf.creditChecked) hb) hfit
        | false =>
          rw [hb]
          refine ⟨.timeout, rfl, ?_, hp⟩
          have : (Condvar.inFlight ⟨s.window, s.sent, s.acked, s.file, none, s.pending,
              s.chunks.map fun c => (c.offset, c.dataLen)⟩) = inFlight s := rfl
          have h0 : ¬ inFlight s = 0 := fun h => hfit (Or.inl h)
          have h1 : ¬ inFlight s + len ≤ s.window := fun h => hfit (Or.inr h)
          simp [this, h0, Nat.ble_eq, h1, hc]

theorem condvar_expected_ne_timeout (k : Condvar.Kind) (s : Condvar.Sh) (hp : Condvar.pred k s = true) :
    Condvar.expected k s ≠ .timeout := by
  cases hc : s.cancelled with
  | some r => simp [Condvar.expected, hc]
  | none =>
    cases k with
    | credit len => simp [Condvar.expected, hc]
    | reconnect =>
      cases hq : s.pending with
      | none => simp [Condvar.pred, hc, hq] at hp
      | some off => simp [Condvar.expected, hc, hq]

/-- The wait condition of C12, read on the full state: the pass does not end in a timeout. -/
theorem pred_iff_not_timeout {f : Facts} (hf : f.Std) (m : OvMode) (s : State) (k : Condvar.Kind)
    (hp : s.poisoned = false) (hw : s.window < U64) :
    Condvar.pred k (absSh s) = true ↔ toCondvarRet (step f m s (waitOp k)).2 ≠ some .timeout := by
  obtain ⟨r, hr, hbody, _⟩ := sim_wait hf m s k hp hw
  rw [hr]
  constructor
  · intro hpred
    obtain ⟨s', hs', _⟩ := Condvar.runBody_std_true k true (absSh s) hpred
    rw [hbody] at hs'
    intro hto
    have hne := condvar_expected_ne_timeout k (absSh s) hpred
    simp at hto
    subst hto
    simp at hs'
    exact hne hs'.2.symm
  · intro hne
    cases hpred : Condvar.pred k (absSh s) with
    | true => rfl
    | false =>
      have := Condvar.runBody_std_false k true (absSh s) hpred
      rw [hbody] at this
      simp at this
      exact absurd (by rw [this.2]) hne

end Repe.Transfer
