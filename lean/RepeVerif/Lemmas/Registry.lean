import RepeVerif.Model.Registry
/-! Helper lemmas for C14 (pointer syntax, JSON tree, registry, lock-region schedules). Core only. -/
namespace Repe

/-! ## escaping -/

/-- what `escape_token` does to one character -/
def esc1 (c : Char) : List Char :=
  if c = '~' then ['~', '0'] else if c = '/' then ['~', '1'] else [c]

theorem escapeToken_nil : escapeToken [] = [] := rfl

theorem escapeToken_cons (c : Char) (t : Tok) : escapeToken (c :: t) = esc1 c ++ escapeToken t := by
  unfold escapeToken replaceChar esc1
  by_cases h1 : c = '~'
  · subst h1; simp [List.flatMap_cons]
  · by_cases h2 : c = '/'
    · subst h2; simp [List.flatMap_cons]
    · simp [List.flatMap_cons, h1, h2]

theorem unescScan_nil : unescScan [] = some [] := by rw [unescScan.eq_def]
theorem unescScan_cons_ne (c : Char) (r : List Char) (h : c ≠ '~') :
    unescScan (c :: r) = (unescScan r).map (c :: ·) := by
  rw [unescScan.eq_def]; simp [h]
theorem unescScan_t0 (r : List Char) : unescScan ('~' :: '0' :: r) = (unescScan r).map ('~' :: ·) := by
  rw [unescScan.eq_def]; simp
theorem unescScan_t1 (r : List Char) : unescScan ('~' :: '1' :: r) = (unescScan r).map ('/' :: ·) := by
  rw [unescScan.eq_def]; simp
theorem unescScan_tx (d : Char) (r : List Char) (h0 : d ≠ '0') (h1 : d ≠ '1') :
    unescScan ('~' :: d :: r) = none := by
  rw [unescScan.eq_def]; simp [h0, h1]
theorem unescScan_t : unescScan ['~'] = none := by rw [unescScan.eq_def]; simp

theorem unescScan_esc1 (c : Char) (r : List Char) :
    unescScan (esc1 c ++ r) = (unescScan r).map (c :: ·) := by
  unfold esc1
  by_cases h1 : c = '~'
  · subst h1; simp [unescScan_t0]
  · by_cases h2 : c = '/'
    · subst h2; simp [unescScan_t1]
    · simp [h1, h2, unescScan_cons_ne]

theorem unescScan_escape (t : Tok) : unescScan (escapeToken t) = some t := by
  induction t with
  | nil => simp [escapeToken_nil, unescScan_nil]
  | cons c t ih => rw [escapeToken_cons, unescScan_esc1, ih]; rfl

theorem unescScan_no_tilde (t : Tok) (h : ∀ c ∈ t, c ≠ '~') : unescScan t = some t := by
  induction t with
  | nil => exact unescScan_nil
  | cons c t ih =>
    have hc : c ≠ '~' := h c (by simp)
    have ht : ∀ d ∈ t, d ≠ '~' := fun d hd => h d (by simp [hd])
    simp [unescScan_cons_ne, hc, ih ht]

theorem no_tilde_of_not_contains (t : List Char) (h : ¬ (t.contains '~' = true)) : ∀ c ∈ t, c ≠ '~' := by
  intro c hc hEq; subst hEq
  exact h (List.contains_iff_mem.mpr hc)

/-- The borrowed fast path of `unescape_token` is not observable. -/
theorem unescapeToken_eq_scan (t : Tok) : unescapeToken t = unescScan t := by
  unfold unescapeToken
  split
  · rfl
  · rename_i h
    exact (unescScan_no_tilde t (no_tilde_of_not_contains t h)).symm

/-- On a token (no raw `/`), whatever the strict scanner accepts re-escapes to the same text. -/
theorem escape_of_unescScan : ∀ (t u : Tok), (∀ c ∈ t, c ≠ '/') → unescScan t = some u → escapeToken u = t
  | [], u, _, h => by
    rw [unescScan_nil] at h; cases h; rfl
  | c :: r, u, hs, h => by
    by_cases hc : c = '~'
    · subst hc
      match r, h, hs with
      | [], h, _ => rw [unescScan_t] at h; cases h
      | d :: r', h, hs =>
        have hs' : ∀ c ∈ r', c ≠ '/' := fun c hc => hs c (by simp [hc])
        by_cases h0 : d = '0'
        · subst h0
          rw [unescScan_t0] at h
          cases hr : unescScan r' with
          | none => simp [hr] at h
          | some w =>
            simp [hr] at h; subst h
            rw [escapeToken_cons, escape_of_unescScan r' w hs' hr]; simp [esc1]
        · by_cases h1 : d = '1'
          · subst h1
            rw [unescScan_t1] at h
            cases hr : unescScan r' with
            | none => simp [hr] at h
            | some w =>
              simp [hr] at h; subst h
              rw [escapeToken_cons, escape_of_unescScan r' w hs' hr]; simp [esc1]
          · rw [unescScan_tx d r' h0 h1] at h; cases h
    · have hs' : ∀ c ∈ r, c ≠ '/' := fun c hc => hs c (by simp [hc])
      have hsl : c ≠ '/' := hs c (by simp)
      rw [unescScan_cons_ne c r hc] at h
      cases hr : unescScan r with
      | none => simp [hr] at h
      | some w =>
        simp [hr] at h; subst h
        rw [escapeToken_cons, escape_of_unescScan r w hs' hr]; simp [esc1, hc, hsl]

/-! ## split / join -/

theorem splitOn_ne_nil (sep : Char) (s : List Char) : splitOn sep s ≠ [] := by
  induction s with
  | nil => simp [splitOn]
  | cons c r ih =>
    unfold splitOn
    split
    · simp
    · split <;> simp

theorem splitOn_cons_sep (sep : Char) (r : List Char) : splitOn sep (sep :: r) = [] :: splitOn sep r := by
  rw [splitOn]; simp

theorem splitOn_cons_ne (sep c : Char) (r : List Char) (h : c ≠ sep) :
    ∃ hd tl, splitOn sep r = hd :: tl ∧ splitOn sep (c :: r) = (c :: hd) :: tl := by
  cases hs : splitOn sep r with
  | nil => exact absurd hs (splitOn_ne_nil sep r)
  | cons hd tl => exact ⟨hd, tl, rfl, by rw [splitOn]; simp [h, hs]⟩

/-- every piece of a split consists of characters of the input and does not contain the separator -/
theorem mem_splitOn (sep : Char) (s : List Char) :
    ∀ t ∈ splitOn sep s, ∀ c ∈ t, c ∈ s ∧ c ≠ sep := by
  induction s with
  | nil => intro t ht c hc; simp [splitOn] at ht; subst ht; simp at hc
  | cons d r ih =>
    intro t ht c hc
    by_cases hd : d = sep
    · subst hd
      rw [splitOn_cons_sep] at ht
      rcases List.mem_cons.mp ht with h | h
      · subst h; simp at hc
      · have := ih t h c hc; exact ⟨by simp [this.1], this.2⟩
    · obtain ⟨hd', tl, h1, h2⟩ := splitOn_cons_ne sep d r hd
      rw [h2] at ht
      rcases List.mem_cons.mp ht with h | h
      · subst h
        rcases List.mem_cons.mp hc with h' | h'
        · subst h'; exact ⟨by simp, hd⟩
        · have := ih hd' (by rw [h1]; simp) c h'; exact ⟨by simp [this.1], this.2⟩
      · have := ih t (by rw [h1]; simp [h]) c hc; exact ⟨by simp [this.1], this.2⟩

theorem escapeToken_plain (t : Tok) (h : ∀ c ∈ t, c ≠ '~' ∧ c ≠ '/') : escapeToken t = t := by
  induction t with
  | nil => rfl
  | cons c t ih =>
    have hc := h c (by simp)
    rw [escapeToken_cons, ih (fun d hd => h d (by simp [hd]))]
    simp [esc1, hc.1, hc.2]

/-- re-joining the split of an escape-free string gives the string back -/
theorem joinSegs_splitOn (s : List Char) (h : ∀ c ∈ s, c ≠ '~') :
    joinSegs (splitOn '/' s) = '/' :: s := by
  induction s with
  | nil => simp [splitOn, joinSegs, escapeToken_nil]
  | cons d r ih =>
    have hr : ∀ c ∈ r, c ≠ '~' := fun c hc => h c (by simp [hc])
    have ih := ih hr
    by_cases hd : d = '/'
    · subst hd
      rw [splitOn_cons_sep, joinSegs, ih]; simp [escapeToken_nil]
    · obtain ⟨hd', tl, h1, h2⟩ := splitOn_cons_ne '/' d r hd
      rw [h1, joinSegs] at ih
      rw [h2, joinSegs, escapeToken_cons]
      have hdt : d ≠ '~' := h d (by simp)
      have : esc1 d = [d] := by simp [esc1, hd, hdt]
      rw [this]
      simp only [List.cons.injEq, true_and] at ih
      simp [ih]

theorem mapOpt_id_of {α} (f : α → Option α) (l : List α) (h : ∀ x ∈ l, f x = some x) : mapOpt f l = some l := by
  induction l with
  | nil => rfl
  | cons x r ih =>
    simp [mapOpt, h x (by simp), ih (fun y hy => h y (by simp [hy]))]

/-! ## `canonical_key` -/

theorem parsePointer_plain (rest : List Char) (hne : rest ≠ []) (h : ∀ c ∈ rest, c ≠ '~') :
    parsePointer ('/' :: rest) = .ok (splitOn '/' rest) := by
  unfold parsePointer
  have : ¬ (('/' :: rest) = [] ∨ ('/' :: rest) = ['/']) := by simp [hne]
  rw [if_neg this]
  have hm : mapOpt unescapeToken (splitOn '/' rest) = some (splitOn '/' rest) := by
    apply mapOpt_id_of
    intro t ht
    rw [unescapeToken_eq_scan]
    exact unescScan_no_tilde t (fun c hc => h c ((mem_splitOn '/' rest t ht c hc).1))
  simp [hm]

/-- `canonical_key` = parse then re-escape, on every input, including which inputs are errors:
the borrowed fast path is not observable. -/
theorem canonicalKey_eq (p : Ptr) : canonicalKey p = (parsePointer p).map canonicalPointer := by
  unfold canonicalKey
  by_cases hroot : p = [] ∨ p = ['/']
  · rw [if_pos hroot]; unfold parsePointer; rw [if_pos hroot]; rfl
  · rw [if_neg hroot]
    match p, hroot with
    | [], hroot => simp at hroot
    | c :: rest, hroot =>
      by_cases hc : c = '/'
      · subst hc
        simp only
        split
        · rfl
        · rename_i hct
          have hnt := no_tilde_of_not_contains _ hct
          have hrest : ∀ c ∈ rest, c ≠ '~' := fun c hc => hnt c (by simp [hc])
          have hne : rest ≠ [] := by intro h; subst h; simp at hroot
          rw [parsePointer_plain rest hne hrest]
          show Except.ok ('/' :: rest) = Except.ok (canonicalPointer (splitOn '/' rest))
          unfold canonicalPointer
          have : (splitOn '/' rest).isEmpty = false := by
            cases hs : splitOn '/' rest with
            | nil => exact absurd hs (splitOn_ne_nil _ _)
            | cons _ _ => rfl
          rw [this, joinSegs_splitOn rest hrest]; rfl
      · have : parsePointer (c :: rest) = .error .invalidPointer := by
          unfold parsePointer; rw [if_neg hroot]
          split
          · rename_i heq; cases heq; exact absurd rfl hc
          · rfl
        rw [this]
        split
        · rename_i heq; cases heq; exact absurd rfl hc
        · rfl

/-! ## malformed pointers -/

theorem parsePointer_no_slash (c : Char) (rest : List Char) (hc : c ≠ '/') :
    parsePointer (c :: rest) = .error .invalidPointer := by
  unfold parsePointer
  have : ¬ ((c :: rest) = [] ∨ (c :: rest) = ['/']) := by
    intro h; rcases h with h | h
    · cases h
    · cases h; exact hc rfl
  rw [if_neg this]
  split
  · rename_i heq; cases heq; exact absurd rfl hc
  · rfl

theorem mapOpt_none_of_mem {α β} (f : α → Option β) (l : List α) (x : α) (hx : x ∈ l) (h : f x = none) :
    mapOpt f l = none := by
  induction l with
  | nil => cases hx
  | cons y r ih =>
    rcases List.mem_cons.mp hx with e | e
    · subst e; simp [mapOpt, h]
    · simp only [mapOpt]; split
      · rfl
      · rw [ih e]; rfl

theorem parsePointer_bad_token (rest : List Char) (hne : rest ≠ []) (t : Tok)
    (ht : t ∈ splitOn '/' rest) (hbad : unescScan t = none) :
    parsePointer ('/' :: rest) = .error .invalidPointer := by
  unfold parsePointer
  have : ¬ (('/' :: rest) = [] ∨ ('/' :: rest) = ['/']) := by simp [hne]
  rw [if_neg this]
  have : mapOpt unescapeToken (splitOn '/' rest) = none :=
    mapOpt_none_of_mem _ _ t ht (by rw [unescapeToken_eq_scan]; exact hbad)
  simp [this]

/-! ## JSON tree -/

theorem oget_oset_eq (k : Key) (v : J) (o : Obj) : oget k (oset k v o) = some v := by
  induction o with
  | nil => simp [oset, oget]
  | cons hd r ih => obtain ⟨k', v'⟩ := hd; unfold oset; split <;> simp_all [oget]

theorem oget_oset_ne (k k' : Key) (v : J) (o : Obj) (h : k' ≠ k) : oget k' (oset k v o) = oget k' o := by
  induction o with
  | nil => simp [oset, oget, h.symm]
  | cons hd r ih =>
    obtain ⟨k'', v'⟩ := hd; unfold oset; split
    · rename_i hk; subst hk; simp [oget, Ne.symm h]
    · simp_all [oget]

theorem oget_oset (k k' : Key) (v : J) (o : Obj) :
    oget k' (oset k v o) = if k = k' then some v else oget k' o := by
  by_cases h : k = k'
  · subst h; simp [oget_oset_eq]
  · simp [h, oget_oset_ne k k' v o (Ne.symm h)]

/-- `for (k, v) in src { dst.insert(k, v) }`: the last binding of a key in `src` wins, other keys keep
their value. -/
theorem oget_omerge (k : Key) (src dst : Obj) :
    oget k (omerge src dst) = src.foldl (fun acc kv => if kv.1 = k then some kv.2 else acc) (oget k dst) := by
  unfold omerge
  induction src generalizing dst with
  | nil => rfl
  | cons kv r ih => simp only [List.foldl_cons]; rw [ih, oget_oset]

theorem foldl_keep {α} (k : Key) (src : List (Key × α)) (init : Option α) (h : ∀ kv ∈ src, kv.1 ≠ k) :
    src.foldl (fun acc kv => if kv.1 = k then some kv.2 else acc) init = init := by
  induction src generalizing init with
  | nil => rfl
  | cons kv r ih =>
    simp only [List.foldl_cons, h kv (by simp), if_false]
    exact ih _ (fun x hx => h x (by simp [hx]))

/-- shape of a successful `set_pointer` at an object -/
theorem setPointer_obj (o : Obj) (t : Tok) (ps : List Tok) (v r : J)
    (h : setPointer (.obj o) (t :: ps) v = .ok r) :
    ∃ x, r = .obj (oset t x o) ∧
      ((ps = [] ∧ x = v) ∨ (ps ≠ [] ∧ ∃ c, oget t o = some c ∧ setPointer c ps v = .ok x)) := by
  cases ps with
  | nil => simp [setPointer] at h; exact ⟨v, h.symm, .inl ⟨rfl, rfl⟩⟩
  | cons t2 ts =>
    simp only [setPointer] at h
    cases hc : oget t o with
    | none => simp [hc] at h
    | some c =>
      simp only [hc] at h
      cases hs : setPointer c (t2 :: ts) v with
      | error e => simp [hs, Except.map] at h
      | ok x =>
        simp [hs, Except.map] at h
        exact ⟨x, h.symm, .inr ⟨by simp, c, rfl, hs⟩⟩

/-- shape of a successful `set_pointer` at an array -/
theorem setPointer_arr (a : List J) (t : Tok) (ps : List Tok) (v r : J)
    (h : setPointer (.arr a) (t :: ps) v = .ok r) :
    ∃ i x, parseUsize t = some i ∧ i < a.length ∧ r = .arr (a.set i x) ∧
      ((ps = [] ∧ x = v) ∨ (ps ≠ [] ∧ ∃ c, a[i]? = some c ∧ setPointer c ps v = .ok x)) := by
  cases ps with
  | nil =>
    simp only [setPointer] at h
    cases hi : parseUsize t with
    | none => simp [hi] at h
    | some i =>
      simp only [hi] at h
      split at h
      · rename_i hlt; simp at h; exact ⟨i, v, rfl, hlt, h.symm, .inl ⟨rfl, rfl⟩⟩
      · simp at h
  | cons t2 ts =>
    simp only [setPointer] at h
    cases hi : parseUsize t with
    | none => simp [hi] at h
    | some i =>
      simp only [hi] at h
      cases hc : a[i]? with
      | none => simp [hc] at h
      | some c =>
        simp only [hc] at h
        cases hs : setPointer c (t2 :: ts) v with
        | error e => simp [hs, Except.map] at h
        | ok x =>
          simp [hs, Except.map] at h
          have hlt : i < a.length := by
            have := hc; simp [List.getElem?_eq_some_iff] at this; exact this.1
          exact ⟨i, x, rfl, hlt, h.symm, .inr ⟨by simp, c, hc, hs⟩⟩

theorem setPointer_scalar (cur : J) (t : Tok) (ps : List Tok) (v r : J)
    (hobj : ∀ o, cur ≠ .obj o) (harr : ∀ a, cur ≠ .arr a) : setPointer cur (t :: ps) v ≠ .ok r := by
  intro h
  cases cur with
  | obj o => exact hobj o rfl
  | arr a => exact harr a rfl
  | null => cases ps <;> simp [setPointer] at h
  | bool b => cases ps <;> simp [setPointer] at h
  | num s => cases ps <;> simp [setPointer] at h
  | str s => cases ps <;> simp [setPointer] at h

theorem resolveRef_nil (v : J) : resolveRef v [] = .ok v := by rw [resolveRef]

theorem resolveRef_obj (o : Obj) (t : Tok) (ts : List Tok) :
    resolveRef (.obj o) (t :: ts) = match oget t o with
      | some c => resolveRef c ts
      | none => .error .pathNotFound := by rw [resolveRef]; rfl

theorem resolveRef_arr (a : List J) (t : Tok) (ts : List Tok) :
    resolveRef (.arr a) (t :: ts) = match parseUsize t with
      | none => .error .invalidArrayIndex
      | some i => match a[i]? with
        | some c => resolveRef c ts
        | none => .error .arrayIndexOutOfBounds := by rw [resolveRef]; rfl

/-- read-after-write on the tree -/
theorem resolve_setPointer (root : J) (p : List Tok) (v root' : J)
    (h : setPointer root p v = .ok root') : resolveRef root' p = .ok v := by
  induction p generalizing root root' with
  | nil => simp [setPointer] at h; subst h; exact resolveRef_nil _
  | cons t ps ih =>
    cases root with
    | obj o =>
      obtain ⟨x, hr, hx⟩ := setPointer_obj o t ps v root' h
      subst hr
      rw [resolveRef_obj, oget_oset_eq]
      rcases hx with ⟨hps, hxv⟩ | ⟨_, c, _, hs⟩
      · subst hps; subst hxv; exact resolveRef_nil _
      · exact ih c x hs
    | arr a =>
      obtain ⟨i, x, hi, hlt, hr, hx⟩ := setPointer_arr a t ps v root' h
      subst hr
      rw [resolveRef_arr, hi]
      simp only [List.getElem?_set_self hlt]
      rcases hx with ⟨hps, hxv⟩ | ⟨_, c, _, hs⟩
      · subst hps; subst hxv; exact resolveRef_nil _
      · exact ih c x hs
    | null => exact absurd h (setPointer_scalar _ t ps v root' (by simp) (by simp))
    | bool b => exact absurd h (setPointer_scalar _ t ps v root' (by simp) (by simp))
    | num s => exact absurd h (setPointer_scalar _ t ps v root' (by simp) (by simp))
    | str s => exact absurd h (setPointer_scalar _ t ps v root' (by simp) (by simp))

/-- two tokens that can address the same child: equal keys, or the same array index -/
def sameSlot (t u : Tok) : Prop := t = u ∨ ∃ i, parseUsize t = some i ∧ parseUsize u = some i

/-- the frame rule on the tree: a successful write at `pre ++ t :: ps` does not change what is read at
`pre ++ u :: qs` when `t` and `u` cannot address the same child -/
theorem resolve_setPointer_frame (pre : List Tok) (t u : Tok) (ps qs : List Tok) (root v root' : J)
    (hd : ¬ sameSlot t u)
    (h : setPointer root (pre ++ t :: ps) v = .ok root') :
    resolveRef root' (pre ++ u :: qs) = resolveRef root (pre ++ u :: qs) := by
  induction pre generalizing root root' with
  | nil =>
    simp only [List.nil_append] at h ⊢
    have hne : u ≠ t := fun e => hd (.inl e.symm)
    cases root with
    | obj o =>
      obtain ⟨x, hr, _⟩ := setPointer_obj o t ps v root' h
      subst hr
      rw [resolveRef_obj, resolveRef_obj, oget_oset_ne t u x o hne]
    | arr a =>
      obtain ⟨i, x, hi, hlt, hr, _⟩ := setPointer_arr a t ps v root' h
      subst hr
      rw [resolveRef_arr, resolveRef_arr]
      cases hu : parseUsize u with
      | none => rfl
      | some j =>
        have hij : i ≠ j := fun e => hd (.inr ⟨i, hi, by rw [hu, e]⟩)
        simp only [List.getElem?_set_ne hij]
    | null => exact absurd h (setPointer_scalar _ t ps v root' (by simp) (by simp))
    | bool b => exact absurd h (setPointer_scalar _ t ps v root' (by simp) (by simp))
    | num s => exact absurd h (setPointer_scalar _ t ps v root' (by simp) (by simp))
    | str s => exact absurd h (setPointer_scalar _ t ps v root' (by simp) (by simp))
  | cons s pre ih =>
    simp only [List.cons_append] at h ⊢
    have hne : pre ++ t :: ps ≠ [] := by simp
    cases root with
    | obj o =>
      obtain ⟨x, hr, hx⟩ := setPointer_obj o s _ v root' h
      subst hr
      rcases hx with ⟨hps, _⟩ | ⟨_, c, hc, hs⟩
      · exact absurd hps hne
      · rw [resolveRef_obj, resolveRef_obj, oget_oset_eq, hc]
        exact ih c x hs
    | arr a =>
      obtain ⟨i, x, hi, hlt, hr, hx⟩ := setPointer_arr a s _ v root' h
      subst hr
      rcases hx with ⟨hps, _⟩ | ⟨_, c, hc, hs⟩
      · exact absurd hps hne
      · rw [resolveRef_arr, resolveRef_arr, hi]
        simp only [List.getElem?_set_self hlt, hc]
        exact ih c x hs
    | null => exact absurd h (setPointer_scalar _ s _ v root' (by simp) (by simp))
    | bool b => exact absurd h (setPointer_scalar _ s _ v root' (by simp) (by simp))
    | num s' => exact absurd h (setPointer_scalar _ s _ v root' (by simp) (by simp))
    | str s' => exact absurd h (setPointer_scalar _ s _ v root' (by simp) (by simp))

/-! ## registry level -/

/-- `p` addresses a registered callable -/
def Reg.callableAt (reg : Reg) (p : Ptr) : Option Fn :=
  match canonicalKey p with
  | .ok key => fget key reg.funcs
  | .error _ => none

theorem dispatch_some_of_callable (rc : Bool) (reg : Reg) (p : Ptr) (v : J) (f : Fn)
    (h : reg.callableAt p = some f) : reg.dispatch rc p (some v) = reg.call f v := by
  unfold Reg.callableAt at h
  cases hk : canonicalKey p with
  | error e => simp [hk] at h
  | ok key =>
    simp only [hk] at h
    simp [Reg.dispatch, Reg.dispatchBody, Reg.dispatchLookup, hk, h]

theorem dispatch_some_of_not_callable (rc : Bool) (reg : Reg) (p : Ptr) (v : J)
    (h : reg.callableAt p = none) : reg.dispatch rc p (some v) = reg.writeAt p v := by
  unfold Reg.callableAt at h
  cases hk : canonicalKey p with
  | error e =>
    have hp : parsePointer p = .error e := by
      rw [canonicalKey_eq] at hk
      cases hp : parsePointer p with
      | error e' => rw [hp] at hk; simp [Except.map] at hk; rw [hk]
      | ok s => rw [hp] at hk; simp [Except.map] at hk
    simp [Reg.dispatch, Reg.dispatchBody, Reg.dispatchLookup, hk, Reg.writeAt, hp]
  | ok key =>
    simp only [hk] at h
    cases rc <;> simp [Reg.dispatch, Reg.dispatchBody, Reg.dispatchLookup, Reg.dispatchCommit, hk, h]

theorem writeAt_log (reg : Reg) (p : Ptr) (v : J) : (reg.writeAt p v).1.log = reg.log ∧ (reg.writeAt p v).1.funcs = reg.funcs := by
  unfold Reg.writeAt
  split
  · simp
  · split <;> simp
  · split <;> simp

/-- the body-bearing dispatch seen as one atomic step equals its commit section whenever the commit
section re-checks the function map, or no callable is registered at the key at that moment -/
theorem apply_disp_eq_commit (rc : Bool) (reg : Reg) (p : Ptr) (v : J)
    (h : rc = true ∨ reg.callableAt p = none) :
    reg.apply rc (.disp p (some v)) = reg.dispatchCommit rc p v := by
  show reg.dispatch rc p (some v) = _
  cases hc : reg.callableAt p with
  | none =>
    rw [dispatch_some_of_not_callable rc reg p v hc]
    unfold Reg.callableAt at hc
    cases hk : canonicalKey p with
    | error e =>
      have hp : parsePointer p = .error e := by
        rw [canonicalKey_eq] at hk
        cases hp : parsePointer p with
        | error e' => rw [hp] at hk; simp [Except.map] at hk; rw [hk]
        | ok s => rw [hp] at hk; simp [Except.map] at hk
      simp [Reg.dispatchCommit, hk, Reg.writeAt, hp]
    | ok key =>
      simp only [hk] at hc
      cases rc <;> simp [Reg.dispatchCommit, hk, hc]
  | some f =>
    rw [dispatch_some_of_callable rc reg p v f hc]
    rcases h with h | h
    · subst h
      unfold Reg.callableAt at hc
      cases hk : canonicalKey p with
      | error e => simp [hk] at hc
      | ok key => simp only [hk] at hc; simp [Reg.dispatchCommit, hk, hc]
    · rw [hc] at h; cases h

theorem apply_disp_of_lookup (rc : Bool) (reg reg' : Reg) (p : Ptr) (v : J) (r : Res)
    (h : reg.dispatchLookup p v = (reg', some r)) : reg.apply rc (.disp p (some v)) = (reg', r) := by
  show reg.dispatch rc p (some v) = _
  simp [Reg.dispatch, Reg.dispatchBody, h]

/-! ## schedules -/

theorem runSeq_append (rc : Bool) (reg : Reg) (a b : List (Nat × Op)) :
    runSeq rc reg (a ++ b) =
      ((runSeq rc (runSeq rc reg a).1 b).1, (runSeq rc reg a).2 ++ (runSeq rc (runSeq rc reg a).1 b).2) := by
  induction a generalizing reg with
  | nil => simp [runSeq]
  | cons x a ih =>
    obtain ⟨t, op⟩ := x
    simp only [List.cons_append, runSeq]
    rw [ih]

theorem runSeq_single (rc : Bool) (reg : Reg) (t : Nat) (op : Op) :
    runSeq rc reg [(t, op)] = ((reg.apply rc op).1, [(t, (reg.apply rc op).2)]) := by
  simp [runSeq]

/-- the callable (if any) the commit step of this event would find -/
def commitTarget (c : Conf) : Ev → Option Fn
  | .commit t =>
    match pget t c.pend with
    | some (p, _) => c.reg.callableAt p
    | none => none
  | _ => none

theorem commitClean_iff (c : Conf) (e : Ev) : commitClean c e = true ↔ commitTarget c e = none := by
  cases e with
  | atomic t op => simp [commitClean, commitTarget]
  | lookup t p v => simp [commitClean, commitTarget]
  | commit t =>
    simp only [commitClean, commitTarget]
    cases hp : pget t c.pend with
    | none => simp
    | some pv =>
      obtain ⟨p, v⟩ := pv
      simp only [Reg.callableAt]
      cases hk : canonicalKey p with
      | error e => simp
      | ok key => simp [Option.isNone_iff_eq_none]

/-- One step of a schedule = the API calls that linearise at it, run atomically. -/
theorem stepConc_sim (rc : Bool) (c : Conf) (e : Ev) (o : StepOut)
    (h : stepConc rc c e = some o) (hc : rc = true ∨ commitClean c e = true) :
    runSeq rc c.reg o.lin = (o.conf.reg, o.results) := by
  cases e with
  | atomic t op =>
    simp only [stepConc] at h
    split at h
    · cases h
    · simp at h; subst h; simp [runSeq]
  | lookup t p v =>
    simp only [stepConc] at h
    split at h
    · cases h
    · split at h
      · rename_i reg' r hl
        simp at h; subst h
        simp [runSeq, apply_disp_of_lookup rc c.reg reg' p v r hl]
      · simp at h; subst h; simp [runSeq]
  | commit t =>
    simp only [stepConc] at h
    cases hp : pget t c.pend with
    | none => simp [hp] at h
    | some pv =>
      obtain ⟨p, v⟩ := pv
      simp [hp] at h; subst h
      have hcl : rc = true ∨ c.reg.callableAt p = none := by
        rcases hc with hc | hc
        · exact .inl hc
        · right
          have := (commitClean_iff c (.commit t)).mp hc
          simpa [commitTarget, hp] using this
      simp [runSeq, apply_disp_eq_commit rc c.reg p v hcl]

/-- A whole schedule = its linearisation run atomically: same final registry, same results in the
same (completion) order. -/
theorem runConc_sim (rc : Bool) (c : Conf) (evs : List Ev) (o : StepOut)
    (h : runConc rc c evs = some o) (hc : rc = true ∨ allCommitsClean rc c evs = true) :
    runSeq rc c.reg o.lin = (o.conf.reg, o.results) := by
  induction evs generalizing c o with
  | nil => simp [runConc] at h; subst h; simp [runSeq]
  | cons e es ih =>
    simp only [runConc] at h
    cases hs : stepConc rc c e with
    | none => simp [hs] at h
    | some o1 =>
      simp only [hs] at h
      cases hr : runConc rc o1.conf es with
      | none => simp [hr] at h
      | some o2 =>
        simp [hr] at h; subst h
        have h1 : rc = true ∨ commitClean c e = true := by
          rcases hc with hc | hc
          · exact .inl hc
          · right; simp [allCommitsClean, hs] at hc; exact hc.1
        have h2 : rc = true ∨ allCommitsClean rc o1.conf es = true := by
          rcases hc with hc | hc
          · exact .inl hc
          · right; simp [allCommitsClean, hs] at hc; exact hc.2
        have s1 := stepConc_sim rc c e o1 hs h1
        have s2 := ih o1.conf o2 hr h2
        rw [runSeq_append, s1]
        simp [s2]

/-- every API call linearises at a step of its own thread, the step that delivers its result -/
def evThread : Ev → Nat
  | .atomic t _ => t
  | .lookup t _ _ => t
  | .commit t => t

theorem stepConc_lin_own (rc : Bool) (c : Conf) (e : Ev) (o : StepOut) (h : stepConc rc c e = some o) :
    o.lin.map (·.1) = o.results.map (·.1) ∧ ∀ x ∈ o.lin, x.1 = evThread e := by
  cases e with
  | atomic t op =>
    simp only [stepConc] at h
    split at h
    · cases h
    · simp at h; subst h; simp [evThread]
  | lookup t p v =>
    simp only [stepConc] at h
    split at h
    · cases h
    · split at h
      · simp at h; subst h; simp [evThread]
      · simp at h; subst h; simp
  | commit t =>
    simp only [stepConc] at h
    cases hp : pget t c.pend with
    | none => simp [hp] at h
    | some pv => obtain ⟨p, v⟩ := pv; simp [hp] at h; subst h; simp [evThread]

/-! ## `json_pointer::parse`: the replace-based unescape is the RFC 6901 scan -/

theorem replace2_head_ne (a b w c : Char) (r : List Char) (h : c ≠ a) :
    replace2 a b w (c :: r) = c :: replace2 a b w r := by
  cases r with
  | nil => simp [replace2]
  | cons y rest => simp [replace2, h]

theorem replace2_hit (a b w : Char) (r : List Char) :
    replace2 a b w (a :: b :: r) = w :: replace2 a b w r := by simp [replace2]

theorem replace2_miss (a b w y : Char) (r : List Char) (h : y ≠ b) :
    replace2 a b w (a :: y :: r) = a :: replace2 a b w (y :: r) := by simp [replace2, h]

theorem jpUnescape_of_unescScan : ∀ (t u : Tok), unescScan t = some u → jpUnescape t = u
  | [], u, h => by rw [unescScan_nil] at h; cases h; simp [jpUnescape, replace2]
  | c :: r, u, h => by
    by_cases hc : c = '~'
    · subst hc
      match r, h with
      | [], h => rw [unescScan_t] at h; cases h
      | d :: r', h =>
        by_cases h0 : d = '0'
        · subst h0
          rw [unescScan_t0] at h
          cases hr : unescScan r' with
          | none => simp [hr] at h
          | some w =>
            simp [hr] at h; subst h
            have ih := jpUnescape_of_unescScan r' w hr
            unfold jpUnescape at ih ⊢
            rw [replace2_miss _ _ _ _ _ (by decide), replace2_head_ne _ _ _ '0' _ (by decide),
              replace2_hit, ih]
        · by_cases h1 : d = '1'
          · subst h1
            rw [unescScan_t1] at h
            cases hr : unescScan r' with
            | none => simp [hr] at h
            | some w =>
              simp [hr] at h; subst h
              have ih := jpUnescape_of_unescScan r' w hr
              unfold jpUnescape at ih ⊢
              rw [replace2_hit, replace2_head_ne _ _ _ '/' _ (by decide), ih]
          · rw [unescScan_tx d r' h0 h1] at h; cases h
    · rw [unescScan_cons_ne c r hc] at h
      cases hr : unescScan r with
      | none => simp [hr] at h
      | some w =>
        simp [hr] at h; subst h
        have ih := jpUnescape_of_unescScan r w hr
        unfold jpUnescape at ih ⊢
        rw [replace2_head_ne _ _ _ _ _ hc, replace2_head_ne _ _ _ _ _ hc, ih]

theorem mapOpt_map_eq {α β} (f : α → Option β) (g : α → β) (l : List α) (r : List β)
    (hfg : ∀ x y, f x = some y → g x = y) (h : mapOpt f l = some r) : l.map g = r := by
  induction l generalizing r with
  | nil => simp [mapOpt] at h; subst h; rfl
  | cons x l ih =>
    simp only [mapOpt] at h
    cases hx : f x with
    | none => simp [hx] at h
    | some y =>
      simp only [hx] at h
      cases hl : mapOpt f l with
      | none => simp [hl] at h
      | some r' =>
        simp [hl] at h; subst h
        simp [hfg x y hx, ih r' hl]

/-! ## the mount -/

theorem stripPrefix_append (p r : List Char) : stripPrefix p (p ++ r) = some r := by
  unfold stripPrefix
  have : p.isPrefixOf (p ++ r) = true := List.isPrefixOf_iff_prefix.mpr (List.prefix_append p r)
  simp [this]

theorem stripPrefix_some (p s r : List Char) (h : stripPrefix p s = some r) : s = p ++ r := by
  unfold stripPrefix at h
  split at h
  · rename_i hp
    simp at h; subst h
    exact (List.prefix_iff_eq_append.mp (List.isPrefixOf_iff_prefix.mp hp)).symm
  · cases h

theorem append_cons_ne_self (p : List Char) (c : Char) (r : List Char) : p ++ c :: r ≠ p := by
  intro h
  have := congrArg List.length h
  simp at this

theorem pointerFor_below (pre r : List Char) (hpre : pre ≠ []) :
    pointerFor pre (pre ++ '/' :: r) = some ('/' :: r) := by
  unfold pointerFor
  simp [hpre, stripPrefix_append]

theorem pointerFor_non_boundary (pre r : List Char) (c : Char) (hpre : pre ≠ []) (hc : c ≠ '/') :
    pointerFor pre (pre ++ c :: r) = none ∧ entryMatches pre (pre ++ c :: r) = false := by
  unfold pointerFor entryMatches
  simp only [hpre, if_false, append_cons_ne_self, stripPrefix_append]
  constructor
  · split
    · rename_i heq; simp at heq; exact absurd heq.1 hc
    · rfl
  · split
    · rename_i heq; simp at heq; exact absurd heq.1 hc
    · rfl

theorem pointerFor_sound (pre path ptr : List Char) (h : pointerFor pre path = some ptr) :
    (pre = [] ∧ path = [] ∧ ptr = ['/']) ∨ (pre = [] ∧ path ≠ [] ∧ ptr = path) ∨
    (pre ≠ [] ∧ path = pre ∧ ptr = ['/']) ∨ (pre ≠ [] ∧ ∃ r, path = pre ++ '/' :: r ∧ ptr = '/' :: r) := by
  unfold pointerFor at h
  by_cases hpre : pre = []
  · simp only [hpre, if_true] at h
    by_cases hp : path = []
    · simp [hp] at h; exact .inl ⟨hpre, hp, h.symm⟩
    · simp [hp] at h; exact .inr (.inl ⟨hpre, hp, h.symm⟩)
  · simp only [hpre, if_false] at h
    by_cases he : path = pre
    · simp [he] at h; exact .inr (.inr (.inl ⟨hpre, he, h.symm⟩))
    · simp only [he, if_false] at h
      cases hs : stripPrefix pre path with
      | none => simp [hs] at h
      | some rest =>
        simp only [hs] at h
        match rest, hs, h with
        | [], _, h => simp at h
        | c :: r, hs, h =>
          by_cases hc : c = '/'
          · subst hc
            simp at h
            exact .inr (.inr (.inr ⟨hpre, r, stripPrefix_some pre path _ hs, h.symm⟩))
          · split at h
            · rename_i heq; simp at heq; exact absurd heq.1 hc
            · cases h

/-! ## no callable at the root key -/

theorem splitOn_singleton_nil (sep : Char) (s : List Char) (h : splitOn sep s = [[]]) : s = [] := by
  cases s with
  | nil => rfl
  | cons c r =>
    by_cases hc : c = sep
    · subst hc
      rw [splitOn_cons_sep] at h
      simp at h
      exact absurd h (splitOn_ne_nil _ _)
    · obtain ⟨hd, tl, _, h2⟩ := splitOn_cons_ne sep c r hc
      rw [h2] at h; simp at h

theorem unescScan_eq_nil (x : Tok) (h : unescScan x = some []) : x = [] := by
  cases x with
  | nil => rfl
  | cons c r =>
    by_cases hc : c = '~'
    · subst hc
      cases r with
      | nil => rw [unescScan_t] at h; cases h
      | cons d r' =>
        by_cases h0 : d = '0'
        · subst h0; rw [unescScan_t0] at h; cases hr : unescScan r' <;> simp [hr] at h
        · by_cases h1 : d = '1'
          · subst h1; rw [unescScan_t1] at h; cases hr : unescScan r' <;> simp [hr] at h
          · rw [unescScan_tx d r' h0 h1] at h; cases h
    · rw [unescScan_cons_ne c r hc] at h; cases hr : unescScan r <;> simp [hr] at h

theorem parsePointer_ne_single_empty (p : Ptr) : parsePointer p ≠ .ok [[]] := by
  intro h
  unfold parsePointer at h
  split at h
  · cases h
  · rename_i hroot
    split at h
    · rename_i rest
      have hne : rest ≠ [] := by intro e; subst e; simp at hroot
      cases hm : mapOpt unescapeToken (splitOn '/' rest) with
      | none => simp [hm] at h
      | some segs =>
        simp [hm] at h; subst h
        cases hs : splitOn '/' rest with
        | nil => exact absurd hs (splitOn_ne_nil _ _)
        | cons x xs =>
          rw [hs] at hm
          simp only [mapOpt] at hm
          cases hx : unescapeToken x with
          | none => simp [hx] at hm
          | some y =>
            simp only [hx] at hm
            cases xs with
            | nil =>
              simp [mapOpt] at hm; subst hm
              rw [unescapeToken_eq_scan] at hx
              have := unescScan_eq_nil x hx; subst this
              exact hne (splitOn_singleton_nil _ _ hs)
            | cons x2 xs2 =>
              simp only [mapOpt] at hm
              cases hx2 : unescapeToken x2 with
              | none => simp [hx2] at hm
              | some y2 =>
                simp only [hx2] at hm
                cases hm2 : mapOpt unescapeToken xs2 <;> simp [hm2] at hm
    · cases h

theorem canonicalPointer_eq_root (segs : List Tok) (hne : segs ≠ []) (h : canonicalPointer segs = ['/']) :
    segs = [[]] := by
  cases segs with
  | nil => exact absurd rfl hne
  | cons s r =>
    simp only [canonicalPointer, List.isEmpty_cons, Bool.false_eq_true, if_false, joinSegs] at h
    simp only [List.cons.injEq, true_and, List.append_eq_nil_iff] at h
    obtain ⟨hs, hr⟩ := h
    have hs' : s = [] := by
      cases s with
      | nil => rfl
      | cons c t => rw [escapeToken_cons] at hs; unfold esc1 at hs; split at hs <;> (try split at hs) <;> simp at hs
    have hr' : r = [] := by
      cases r with
      | nil => rfl
      | cons a b => simp [joinSegs] at hr
    rw [hs', hr']

theorem fget_fset_ne (k k' : Key) (f : Fn) (l : List (Key × Fn)) (h : k ≠ k') :
    fget k' (fset k f l) = fget k' l := by
  induction l with
  | nil => simp [fset, fget, h]
  | cons hd tl ih =>
    obtain ⟨a, b⟩ := hd
    unfold fset; split
    · rename_i e; subst e; simp [fget, h]
    · simp [fget, ih]

/-- "No function can register at the root": the key `/` is never in the function map. -/
theorem root_key_free_preserved (rc : Bool) (reg : Reg) (op : Op) (h : fget ['/'] reg.funcs = none) :
    fget ['/'] (reg.apply rc op).1.funcs = none := by
  cases op with
  | setRoot v => exact h
  | regValue path v =>
    simp only [Reg.apply, Reg.registerValue]
    split <;> exact h
  | regFunc path f =>
    simp only [Reg.apply, Reg.registerFunction]
    split
    · exact h
    · exact h
    · rename_i _ segs hne' hs
      have hne : segs ≠ [] := fun e => hne' e
      simp only
      rw [fget_fset_ne _ _ _ _ ?_]; exact h
      intro hk
      have := canonicalPointer_eq_root segs hne hk
      subst this
      unfold parseRegistrationPath at hs
      split at hs
      · cases hs
      · split at hs
        · exact parsePointer_ne_single_empty _ hs
        · exact parsePointer_ne_single_empty _ hs
  | mergeRoot o => exact h
  | mergeAt path o =>
    simp only [Reg.apply, Reg.mergeAt]
    split
    · exact h
    · exact h
    · split <;> exact h
  | read p => exact h
  | disp p body =>
    cases body with
    | none => exact h
    | some v =>
      show fget ['/'] (reg.dispatch rc p (some v)).1.funcs = none
      cases hc : reg.callableAt p with
      | some f => rw [dispatch_some_of_callable rc reg p v f hc]; exact h
      | none => rw [dispatch_some_of_not_callable rc reg p v hc, (writeAt_log reg p v).2]; exact h

/-! ## pointer-level round trip -/

theorem splitOn_no_sep (sep : Char) (t : List Char) (h : ∀ c ∈ t, c ≠ sep) : splitOn sep t = [t] := by
  induction t with
  | nil => simp [splitOn]
  | cons c r ih =>
    obtain ⟨hd, tl, h1, h2⟩ := splitOn_cons_ne sep c r (h c (by simp))
    rw [ih (fun d hd => h d (by simp [hd]))] at h1
    simp at h1
    rw [h2, ← h1.1, ← h1.2]

theorem splitOn_append_sep (sep : Char) (t x : List Char) (h : ∀ c ∈ t, c ≠ sep) :
    splitOn sep (t ++ sep :: x) = t :: splitOn sep x := by
  induction t with
  | nil => simp [splitOn_cons_sep]
  | cons c r ih =>
    have ih := ih (fun d hd => h d (by simp [hd]))
    obtain ⟨hd, tl, h1, h2⟩ := splitOn_cons_ne sep c (r ++ sep :: x) (h c (by simp))
    rw [ih] at h1
    simp at h1
    simp only [List.cons_append]
    rw [h2, ← h1.1, ← h1.2]

theorem escapeToken_no_slash (s : Tok) : ∀ c ∈ escapeToken s, c ≠ '/' := by
  induction s with
  | nil => intro c hc; simp [escapeToken_nil] at hc
  | cons d r ih =>
    intro c hc
    rw [escapeToken_cons] at hc
    rcases List.mem_append.mp hc with h | h
    · unfold esc1 at h
      split at h
      · simp at h; rcases h with h | h <;> subst h <;> decide
      · split at h
        · simp at h; rcases h with h | h <;> subst h <;> decide
        · rename_i h1 h2; simp at h; subst h; exact h2
    · exact ih c h

theorem splitOn_join (s : Tok) (r : List Tok) :
    splitOn '/' (escapeToken s ++ joinSegs r) = escapeToken s :: r.map escapeToken := by
  induction r generalizing s with
  | nil => simp [joinSegs, splitOn_no_sep '/' _ (escapeToken_no_slash s)]
  | cons s2 r ih =>
    rw [joinSegs, splitOn_append_sep '/' _ _ (escapeToken_no_slash s), ih]; rfl

theorem mapOpt_unescape_escape (segs : List Tok) : mapOpt unescapeToken (segs.map escapeToken) = some segs := by
  induction segs with
  | nil => rfl
  | cons s r ih =>
    simp only [List.map_cons, mapOpt]
    rw [unescapeToken_eq_scan, unescScan_escape, ih]; rfl

/-- `parse_pointer ∘ canonical_pointer = id` on every non-root token list except the single empty
token (the pointer `/`, which this crate reads as the root). -/
theorem parse_canonical (segs : List Tok) (hne : segs ≠ []) (h1 : segs ≠ [[]]) :
    parsePointer (canonicalPointer segs) = .ok segs := by
  cases segs with
  | nil => exact absurd rfl hne
  | cons s r =>
    have hc : canonicalPointer (s :: r) = '/' :: (escapeToken s ++ joinSegs r) := by
      simp [canonicalPointer, joinSegs]
    rw [hc]
    unfold parsePointer
    have hroot : ¬ (('/' :: (escapeToken s ++ joinSegs r)) = [] ∨ ('/' :: (escapeToken s ++ joinSegs r)) = ['/']) := by
      intro h
      rcases h with h | h
      · cases h
      · simp only [List.cons.injEq, true_and, List.append_eq_nil_iff] at h
        obtain ⟨hs, hr⟩ := h
        have hs' : s = [] := by
          cases s with
          | nil => rfl
          | cons c t => rw [escapeToken_cons] at hs; unfold esc1 at hs; split at hs <;> (try split at hs) <;> simp at hs
        have hr' : r = [] := by
          cases r with
          | nil => rfl
          | cons a b => simp [joinSegs] at hr
        subst hs'; subst hr'; exact h1 rfl
    rw [if_neg hroot]
    simp only
    rw [splitOn_join, ← List.map_cons, mapOpt_unescape_escape]

/-! ## registration and merge read back -/

theorem resolve_regInsert (root : J) (segs : List Tok) (v : J) (hne : segs ≠ []) :
    resolveRef (regInsert root segs v) segs = .ok v := by
  induction segs generalizing root with
  | nil => exact absurd rfl hne
  | cons t ts ih =>
    cases ts with
    | nil => simp [regInsert, resolveRef_obj, oget_oset_eq, resolveRef_nil]
    | cons t2 ts2 =>
      simp only [regInsert]
      rw [resolveRef_obj, oget_oset_eq]
      exact ih _ (by simp)

theorem resolve_mergeAtPtr (root root' : J) (segs : List Tok) (src : Obj)
    (h : mergeAtPtr root segs src = .ok root') :
    ∃ old, resolveRef root segs = .ok (.obj old) ∧ resolveRef root' segs = .ok (.obj (omerge src old)) := by
  induction segs generalizing root root' with
  | nil =>
    cases root <;> simp [mergeAtPtr] at h
    subst h; exact ⟨_, resolveRef_nil _, resolveRef_nil _⟩
  | cons t ts ih =>
    cases root with
    | obj o =>
      simp only [mergeAtPtr] at h
      cases hc : oget t o with
      | none => simp [hc] at h
      | some c =>
        simp only [hc] at h
        cases hm : mergeAtPtr c ts src with
        | error e => simp [hm, Except.map] at h
        | ok c' =>
          simp [hm, Except.map] at h; subst h
          obtain ⟨old, h1, h2⟩ := ih c c' hm
          exact ⟨old, by rw [resolveRef_obj, hc]; exact h1, by rw [resolveRef_obj, oget_oset_eq]; exact h2⟩
    | arr a =>
      simp only [mergeAtPtr] at h
      cases hi : parseUsize t with
      | none => simp [hi] at h
      | some i =>
        simp only [hi] at h
        cases hc : a[i]? with
        | none => simp [hc] at h
        | some c =>
          simp only [hc] at h
          cases hm : mergeAtPtr c ts src with
          | error e => simp [hm, Except.map] at h
          | ok c' =>
            simp [hm, Except.map] at h; subst h
            obtain ⟨old, h1, h2⟩ := ih c c' hm
            have hlt : i < a.length := by
              have := hc; simp [List.getElem?_eq_some_iff] at this; exact this.1
            refine ⟨old, by rw [resolveRef_arr, hi]; simp only [hc]; exact h1, ?_⟩
            rw [resolveRef_arr, hi]; simp only [List.getElem?_set_self hlt]; exact h2
    | null => simp [mergeAtPtr] at h
    | bool b => simp [mergeAtPtr] at h
    | num s => simp [mergeAtPtr] at h
    | str s => simp [mergeAtPtr] at h

/-- the frame rule with the weakest divergence condition: the tokens differ, and – only if the node
where the two pointers part is an array – they are not the same index -/
theorem resolve_setPointer_frame' (pre : List Tok) (t u : Tok) (ps qs : List Tok) (root v root' : J)
    (hne : t ≠ u)
    (harr : ∀ a, resolveRef root pre = .ok (.arr a) → ¬ ∃ i, parseUsize t = some i ∧ parseUsize u = some i)
    (h : setPointer root (pre ++ t :: ps) v = .ok root') :
    resolveRef root' (pre ++ u :: qs) = resolveRef root (pre ++ u :: qs) := by
  induction pre generalizing root root' with
  | nil =>
    simp only [List.nil_append] at h ⊢
    cases root with
    | obj o =>
      obtain ⟨x, hr, _⟩ := setPointer_obj o t ps v root' h
      subst hr
      rw [resolveRef_obj, resolveRef_obj, oget_oset_ne t u x o (Ne.symm hne)]
    | arr a =>
      obtain ⟨i, x, hi, hlt, hr, _⟩ := setPointer_arr a t ps v root' h
      subst hr
      rw [resolveRef_arr, resolveRef_arr]
      cases hu : parseUsize u with
      | none => rfl
      | some j =>
        have hij : i ≠ j := fun e => harr a (resolveRef_nil _) ⟨i, hi, by rw [hu, e]⟩
        simp only [List.getElem?_set_ne hij]
    | null => exact absurd h (setPointer_scalar _ t ps v root' (by simp) (by simp))
    | bool b => exact absurd h (setPointer_scalar _ t ps v root' (by simp) (by simp))
    | num s => exact absurd h (setPointer_scalar _ t ps v root' (by simp) (by simp))
    | str s => exact absurd h (setPointer_scalar _ t ps v root' (by simp) (by simp))
  | cons s pre ih =>
    simp only [List.cons_append] at h ⊢
    have hne' : pre ++ t :: ps ≠ [] := by simp
    cases root with
    | obj o =>
      obtain ⟨x, hr, hx⟩ := setPointer_obj o s _ v root' h
      subst hr
      rcases hx with ⟨hps, _⟩ | ⟨_, c, hc, hs⟩
      · exact absurd hps hne'
      · rw [resolveRef_obj, resolveRef_obj, oget_oset_eq, hc]
        exact ih c x (fun a ha => harr a (by rw [resolveRef_obj, hc]; exact ha)) hs
    | arr a =>
      obtain ⟨i, x, hi, hlt, hr, hx⟩ := setPointer_arr a s _ v root' h
      subst hr
      rcases hx with ⟨hps, _⟩ | ⟨_, c, hc, hs⟩
      · exact absurd hps hne'
      · rw [resolveRef_arr, resolveRef_arr, hi]
        simp only [List.getElem?_set_self hlt, hc]
        exact ih c x (fun a' ha => harr a' (by rw [resolveRef_arr, hi]; simp only [hc]; exact ha)) hs
    | null => exact absurd h (setPointer_scalar _ s _ v root' (by simp) (by simp))
    | bool b => exact absurd h (setPointer_scalar _ s _ v root' (by simp) (by simp))
    | num s' => exact absurd h (setPointer_scalar _ s _ v root' (by simp) (by simp))
    | str s' => exact absurd h (setPointer_scalar _ s _ v root' (by simp) (by simp))

end Repe
