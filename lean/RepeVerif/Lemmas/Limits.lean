import RepeVerif.Lemmas.Wire
import RepeVerif.Lemmas.Dispatch
import RepeVerif.Model.Limits
/-! Helper lemmas for the outbound-guard model (C17). Core Lean only. -/
namespace Repe

@[simp] theorem lenOf_spec (q b : Nat) : lenOf [.header, .query, .body] q b = 48 + q + b := by
  simp [lenOf, lenTermOf]; omega

theorem frameLen_spec (m : Message) :
    frameLen [.header, .query, .body] m = m.toVec.length := by
  simp [frameLen, toVec_length]

theorem checkOutbound_gt (limit : Option Nat) (size : Nat) :
    checkOutbound .gt limit size =
      match limit with
      | some l => if size > l then some (size, l) else none
      | none => none := by
  cases limit <;> simp [checkOutbound, Cmp.holds]

/-- The decision under the specification facts, in closed form. -/
theorem decide_spec (limit : Option Nat) (notify q b : Nat) :
    decideOutbound specLimitFacts limit notify q b =
      match limit with
      | none => .pass
      | some l =>
        if 48 + q + b ≤ l then .pass
        else if notify ≠ 0 then .drop (48 + q + b) l else .replace (48 + q + b) l := by
  cases limit with
  | none => simp [decideOutbound, checkOutbound]
  | some l =>
    by_cases h : 48 + q + b ≤ l
    · have h' : ¬ (48 + q + b > l) := by omega
      simp [decideOutbound, checkOutbound, specLimitFacts, Cmp.holds, h, h']
    · have h' : 48 + q + b > l := by omega
      by_cases hn : notify = 0 <;>
        simp [decideOutbound, checkOutbound, specLimitFacts, Cmp.holds, h, h', hn]

theorem replacementMsg_spec (id : Nat) (text : Bytes) :
    replacementMsg specLimitFacts id text =
      errorUnstamped ⟨{ Header.zero with id := id }, [], []⟩ specCodes.internalError text := by
  simp [replacementMsg, specLimitFacts, errorUnstamped]

theorem replacementMsg_toVec_length (id : Nat) (text : Bytes) :
    (replacementMsg specLimitFacts id text).toVec.length = 48 + text.length := by
  simp [replacementMsg, specLimitFacts, createErrorMessage, Builder.build, toVec_length]

theorem replacementMsg_wf (id : Nat) (text : Bytes) (hid : id < 2^64) (hl : 48 + text.length < 2^64) :
    (replacementMsg specLimitFacts id text).WF := by
  rw [replacementMsg_spec]
  exact errorUnstamped_wf _ _ _ (by simpa using hid) (by decide) (by simpa using hl)

theorem erase_head (a : Nat) (l : List Nat) : (a :: l).erase a = l := by simp

/-- `writerRun` is a `filterMap` of `frameOutbound` over the queue (guarded writer). -/
theorem writerRun_wire (f : LimitFacts) (hg : f.writerGuarded = true) (limit : Option Nat)
    (text : Nat → Nat → Bytes) (qs : List Queued) :
    (writerRun f limit text qs).1 =
      qs.filterMap (fun q => (frameOutbound f limit text q.msg q.cap q.rcap).wire) := by
  induction qs with
  | nil => rfl
  | cons q rest ih =>
    simp only [writerRun, hg, if_true, List.filterMap_cons]
    rw [← ih]
    cases (frameOutbound f limit text q.msg q.cap q.rcap).wire <;> rfl

theorem writerRun_reports (f : LimitFacts) (hg : f.writerGuarded = true) (limit : Option Nat)
    (text : Nat → Nat → Bytes) (qs : List Queued) :
    (writerRun f limit text qs).2 =
      qs.flatMap (fun q => (frameOutbound f limit text q.msg q.cap q.rcap).reports) := by
  induction qs with
  | nil => rfl
  | cons q rest ih =>
    simp only [writerRun, hg, if_true, List.flatMap_cons]
    rw [← ih]

/-- What the peer can tell a frame is about: the id in the header it parses. -/
def wireId (bs : Bytes) : Nat := (Header.parse bs).id

end Repe
