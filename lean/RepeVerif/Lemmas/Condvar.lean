import RepeVerif.Model.Condvar
/-!
Helper lemmas for C12, generic in the extracted configuration `Cfg`: everything is proved for any
configuration that is `Good` (notify table adequate, both loop bodies in the standard order); the
property file instantiates them with `Gen.Wake.cfg` and discharges `Good` by `decide`.
-/
namespace Repe.Condvar

/-- A notify entry is *at most as guarded* as `allowed`: the call exists and every enclosing `if`
is one of `allowed`. -/
def Notify.atMost (n : Notify) (allowed : List Cond) : Bool :=
  match n with
  | .never => false
  | .when cs => cs.all fun c => allowed.contains c

/-- Every branch that can turn a wait predicate from false to true reaches `notify_all()`. -/
def NotifyTable.adequate (t : NotifyTable) : Bool :=
  t.ack.atMost [.fileMatches, .ackAdvances] && t.cancel.atMost [.notCancelled] &&
  t.advance.atMost [] && t.resume.atMost []

structure Cfg.Good (c : Cfg) : Prop where
  tbl : c.tbl.adequate = true
  credit : c.creditLoop = stdLoop
  reconnect : c.reconnectLoop = stdLoop
  creditAtomic : c.creditAtomic = true
  reconnectAtomic : c.reconnectAtomic = true
  creditClock : c.creditClock = true
  reconnectClock : c.reconnectClock = true

instance (c : Cfg) : Decidable c.Good :=
  if h : c.tbl.adequate = true ∧ c.creditLoop = stdLoop ∧ c.reconnectLoop = stdLoop ∧
      c.creditAtomic = true ∧ c.reconnectAtomic = true ∧ c.creditClock = true ∧ c.reconnectClock = true
  then isTrue ⟨h.1, h.2.1, h.2.2.1, h.2.2.2.1, h.2.2.2.2.1, h.2.2.2.2.2.1, h.2.2.2.2.2.2⟩
  else isFalse fun g => h ⟨g.tbl, g.credit, g.reconnect, g.creditAtomic, g.reconnectAtomic, g.creditClock, g.reconnectClock⟩

theorem Cfg.Good.clockOf {c : Cfg} (g : c.Good) (k : Kind) : c.clockOf k = true := by
  cases k <;> simp [Cfg.clockOf, g.creditClock, g.reconnectClock]

theorem Cfg.Good.atomicOf {c : Cfg} (g : c.Good) (k : Kind) : c.atomicOf k = true := by
  cases k <;> simp [Cfg.atomicOf, g.creditAtomic, g.reconnectAtomic]

theorem Cfg.Good.loopOf {c : Cfg} (g : c.Good) (k : Kind) : c.loopOf k = stdLoop := by
  cases k <;> simp [Cfg.loopOf, g.credit, g.reconnect]

theorem Notify.fires_of_atMost {n : Notify} {allowed : List Cond} {op : Op} {s : Sh}
    (h : n.atMost allowed = true) (ha : ∀ c ∈ allowed, c.eval op s = true) : n.fires op s = true := by
  cases n with
  | never => simp [Notify.atMost] at h
  | «when» cs =>
    simp only [Notify.atMost, List.all_eq_true] at h
    simp only [Notify.fires, List.all_eq_true]
    intro c hc
    have := h c hc
    exact ha c (by simpa using this)

/-! ### the per-branch obligation -/

theorem ble_false {a b : Nat} : Nat.ble a b = false ↔ ¬ a ≤ b := by
  cases h : Nat.ble a b with
  | true => simp [Nat.le_of_ble_eq_true h]
  | false =>
    simp only [true_iff]
    intro hle
    rw [Nat.ble_eq_true_of_le hle] at h
    cases h

theorem pred_credit_false {len : Nat} {s : Sh} (h : pred (.credit len) s = false) :
    s.cancelled = none ∧ s.sent - s.acked ≠ 0 ∧ ¬ (s.sent - s.acked + len ≤ s.window) := by
  simp only [pred, inFlight, Bool.or_eq_false_iff, beq_eq_false_iff_ne] at h
  obtain ⟨⟨h1, h2⟩, h3⟩ := h
  refine ⟨?_, h2, ble_false.mp h3⟩
  cases hc : s.cancelled <;> simp [hc] at h1 ⊢

theorem pred_reconnect_false {s : Sh} (h : pred .reconnect s = false) :
    s.cancelled = none ∧ s.pending = none := by
  simp only [pred, Bool.or_eq_false_iff] at h
  constructor
  · cases hc : s.cancelled <;> simp [hc] at h ⊢
  · cases hc : s.pending <;> simp [hc] at h ⊢

/-- The wait predicates read only these fields. -/
theorem pred_congr (k : Kind) {s s' : Sh} (h1 : s'.window = s.window) (h2 : s'.sent = s.sent)
    (h3 : s'.acked = s.acked) (h4 : s'.cancelled = s.cancelled) (h5 : s'.pending = s.pending) :
    pred k s' = pred k s := by
  cases k with
  | credit len => unfold pred inFlight; simp only [h1, h2, h3, h4]
  | reconnect => unfold pred; simp only [h4, h5]

theorem wake_obligation_generic (t : NotifyTable) (ht : t.adequate = true) (k : Kind) (op : Op) (s : Sh)
    (h0 : pred k s = false) (h1 : pred k (applyOp t op s).1 = true) : (applyOp t op s).2 = true := by
  simp only [NotifyTable.adequate, Bool.and_eq_true] at ht
  obtain ⟨⟨⟨hack, hcancel⟩, hadv⟩, hres⟩ := ht
  cases op with
  | sent n =>
    exfalso
    simp only [applyOp] at h1
    split at h1
    · rename_i hlt
      cases k with
      | credit len =>
        obtain ⟨hc, hne, hw⟩ := pred_credit_false h0
        simp only [pred, inFlight, hc, Option.isSome_none, Bool.false_or, Bool.or_eq_true,
          beq_iff_eq] at h1
        rcases h1 with h1 | h1
        · omega
        · have := Nat.le_of_ble_eq_true h1; omega
      | reconnect =>
        simp only [pred] at h0 h1
        rw [h0] at h1; cases h1
    · simp [h0] at h1
  | ack f off =>
    simp only [applyOp] at h1 ⊢
    split at h1
    · rename_i hc
      simp only [Bool.and_eq_true, beq_iff_eq, Nat.blt_eq] at hc
      apply Notify.fires_of_atMost hack
      intro c hc'
      simp only [List.mem_cons, List.not_mem_nil, or_false] at hc'
      rcases hc' with rfl | rfl
      · simp [Cond.eval, hc.1]
      · simp [Cond.eval, hc.2]
    · simp [h0] at h1
  | cancel r =>
    simp only [applyOp] at h1 ⊢
    split at h1
    · rename_i hc
      apply Notify.fires_of_atMost hcancel
      intro c hc'
      simp only [List.mem_cons, List.not_mem_nil, or_false] at hc'
      subst hc'
      simpa [Cond.eval] using hc
    · simp [h0] at h1
  | advance f =>
    simp only [applyOp]
    exact Notify.fires_of_atMost hadv (by simp)
  | resume f off =>
    simp only [applyOp] at h1 ⊢
    split
    · exact Notify.fires_of_atMost hres (by simp)
    · rename_i hr
      split at h1
      · rename_i heq; exact absurd heq (hr _)
      · simp [h0] at h1
  | push off len =>
    exfalso
    simp only [applyOp] at h1
    cases k <;> (simp only [pred, inFlight] at h0 h1; rw [h0] at h1; cases h1)
  | nop =>
    exfalso
    simp only [applyOp] at h1
    rw [h0] at h1; cases h1

/-! ### the loop body in the standard order -/

theorem runBody_std_true (k : Kind) (e : Bool) (s : Sh) (hp : pred k s = true) :
    ∃ s', runBody k e stdLoop s = some (s', .returned (expected k s)) ∧
      s'.window = s.window ∧ s'.sent = s.sent ∧ s'.acked = s.acked ∧ s'.cancelled = s.cancelled ∧
      s'.file = s.file ∧ s'.ring = s.ring ∧ (s'.pending = s.pending ∨ s'.pending = none) := by
  cases hc : s.cancelled with
  | some r => exact ⟨s, by simp [stdLoop, runBody, expected, hc], rfl, rfl, rfl, hc, rfl, rfl, Or.inl rfl⟩
  | none =>
    cases k with
    | credit len =>
      have : (inFlight s == 0 || Nat.ble (inFlight s + len) s.window) = true := by
        simpa [pred, hc] using hp
      exact ⟨s, by simp [stdLoop, runBody, expected, hc, this], rfl, rfl, rfl, hc, rfl, rfl, Or.inl rfl⟩
    | reconnect =>
      cases hq : s.pending with
      | none => simp [pred, hc, hq] at hp
      | some off =>
        exact ⟨{ s with pending := none }, by simp [stdLoop, runBody, expected, hc, hq], rfl, rfl, rfl, hc, rfl, rfl, Or.inr rfl⟩

theorem runBody_std_false (k : Kind) (e : Bool) (s : Sh) (hp : pred k s = false) :
    runBody k e stdLoop s = some (s, if e then .returned .timeout else .parked) := by
  cases k with
  | credit len =>
    obtain ⟨hc, hne, hw⟩ := pred_credit_false hp
    have : (inFlight s == 0 || Nat.ble (inFlight s + len) s.window) = false := by
      simp [inFlight, hne, ble_false.mpr hw]
    cases e <;> simp [stdLoop, runBody, hc, this]
  | reconnect =>
    obtain ⟨hc, hq⟩ := pred_reconnect_false hp
    cases e <;> simp [stdLoop, runBody, hc, hq]

/-! ### the safety invariant -/

/-- The waiter is not parked while its predicate holds, and `locked` says who holds the mutex. -/
structure NoLost (k : Kind) (st : St) : Prop where
  parked : st.pc = .parked → pred k st.sh = false
  mutex : st.locked = true ↔ st.pc = .checking
  /-- with check-and-park in one critical section the waiter is never between its tests and its wait
  without the mutex -/
  notPre : st.pc ≠ .preparking

theorem NoLost.init (k : Kind) (s : Sh) : NoLost k (St.init s) :=
  ⟨by simp [St.init], by simp [St.init], by simp [St.init]⟩

theorem NoLost.step {c : Cfg} (g : c.Good) {k : Kind} {st : St} (h : NoLost k st) (e : Ev) :
    NoLost k (step c k st e) := by
  cases e with
  | lock =>
    simp only [Repe.Condvar.step]
    split
    · exact ⟨by simp, by simp, by simp⟩
    · split
      · rename_i hpre; exact absurd hpre.1 h.notPre
      · exact h
  | check ex =>
    simp only [Repe.Condvar.step]
    split
    · rw [g.loopOf, g.atomicOf, g.clockOf, Bool.and_true]
      cases hp : pred k st.sh with
      | true =>
        obtain ⟨s', hs', _⟩ := runBody_std_true k ex st.sh hp
        rw [hs']; exact ⟨by simp, by simp, by simp⟩
      | false =>
        rw [runBody_std_false k ex st.sh hp]
        cases ex <;> exact ⟨by simp [hp], by simp, by simp⟩
    · exact h
  | wake =>
    simp only [Repe.Condvar.step]
    split
    · rename_i hpk
      refine ⟨by simp, ?_, by simp⟩
      have := h.mutex
      simp only [hpk] at this
      simpa using this
    · exact h
  | op o =>
    simp only [Repe.Condvar.step]
    split
    · exact h
    · rename_i hl
      have hnc : st.pc ≠ .checking := fun hc => hl (h.mutex.mpr hc)
      refine ⟨?_, ?_, ?_⟩
      · intro hpk
        by_cases hpc : st.pc = .parked
        · simp only [hpc, beq_self_eq_true, Bool.and_true] at hpk ⊢
          cases hn : (applyOp c.tbl o st.sh).2 with
          | true => simp [hn] at hpk
          | false =>
            cases hp' : pred k (applyOp c.tbl o st.sh).1 with
            | false => rfl
            | true =>
              have := wake_obligation_generic c.tbl g.tbl k o st.sh (h.parked hpc) hp'
              simp [hn] at this
        · have : (st.pc == PC.parked) = false := by simpa using hpc
          simp only [this, Bool.and_false] at hpk
          exact absurd hpk hpc
      · simp only
        have hl' : st.locked = false := by simpa using hl
        rw [hl']
        constructor
        · intro hh; cases hh
        · intro hh
          exfalso
          split at hh
          · cases hh
          · exact hnc hh
      · simp only
        intro hh
        split at hh
        · cases hh
        · exact h.notPre hh

theorem NoLost.run {c : Cfg} (g : c.Good) {k : Kind} (evs : List Ev) {st : St} (h : NoLost k st) :
    NoLost k (run c k st evs) := by
  induction evs generalizing st with
  | nil => exact h
  | cons e es ih => exact ih (h.step g e)

/-! ### progress: waiter steps only, predicate true -/

/-- State of a waiter that has seen, or is bound to see, its predicate true. -/
def Bound (k : Kind) (r : Ret) (sh0 : Sh) (st : St) : Prop :=
  st.pc = .returned r ∨
  ((st.pc = .start ∨ st.pc = .woken ∨ st.pc = .checking) ∧ pred k st.sh = true ∧
    expected k st.sh = r ∧ st.sh = sh0 ∧ (st.locked = true ↔ st.pc = .checking))

theorem Bound.step {c : Cfg} (g : c.Good) {k : Kind} {r : Ret} {sh0 : Sh} {st : St}
    (h : Bound k r sh0 st) (e : Ev) (hw : e.isWaiter = true) : Bound k r sh0 (step c k st e) := by
  rcases h with h | ⟨hpc, hp, hx, hs, hm⟩
  · left
    cases e <;> simp_all [Repe.Condvar.step, Ev.isWaiter]
  · cases e with
    | op o => simp [Ev.isWaiter] at hw
    | lock =>
      simp only [Repe.Condvar.step]
      split
      · right; exact ⟨Or.inr (Or.inr rfl), hp, hx, hs, by simp⟩
      · split
        · rename_i hpre; rcases hpc with h1 | h1 | h1 <;> simp [h1] at hpre
        · right; exact ⟨hpc, hp, hx, hs, hm⟩
    | check ex =>
      simp only [Repe.Condvar.step]
      split
      · rw [g.loopOf, g.atomicOf, g.clockOf, Bool.and_true]
        obtain ⟨s', hs', _⟩ := runBody_std_true k ex st.sh hp
        rw [hs']; left; simp [hx]
      · right; exact ⟨hpc, hp, hx, hs, hm⟩
    | wake =>
      simp only [Repe.Condvar.step]
      split
      · rename_i hpk; rcases hpc with h1 | h1 | h1 <;> simp [h1] at hpk
      · right; exact ⟨hpc, hp, hx, hs, hm⟩

theorem Bound.run {c : Cfg} (g : c.Good) {k : Kind} {r : Ret} {sh0 : Sh} (evs : List Ev) {st : St}
    (h : Bound k r sh0 st) (hw : ∀ e ∈ evs, e.isWaiter = true) : Bound k r sh0 (run c k st evs) := by
  induction evs generalizing st with
  | nil => exact h
  | cons e es ih =>
    exact ih (h.step g e (hw e (by simp))) (fun e' he' => hw e' (by simp [he']))

theorem Bound.of_noLost {k : Kind} {st : St} (h : NoLost k st) (hp : pred k st.sh = true)
    (hnr : st.pc.isReturned = false) : Bound k (expected k st.sh) st.sh st := by
  right
  refine ⟨?_, hp, rfl, rfl, h.mutex⟩
  cases hpc : st.pc with
  | start => simp
  | checking => simp
  | woken => simp
  | parked => have := h.parked hpc; simp [hp] at this
  | preparking => exact absurd hpc h.notPre
  | returned r => simp [hpc, PC.isReturned] at hnr

/-! ### timeouts -/

/-- What a return from `check` means (standard loop order). -/
theorem check_return {c : Cfg} (g : c.Good) {k : Kind} {st : St} {e : Bool} {r : Ret}
    (hpc : st.pc ≠ .returned r) (h : (step c k st (.check e)).pc = .returned r) :
    st.pc = .checking ∧
      ((r = .timeout ∧ e = true ∧ pred k st.sh = false) ∨ (r = expected k st.sh ∧ pred k st.sh = true)) := by
  simp only [Repe.Condvar.step] at h
  split at h
  · rename_i hck
    refine ⟨hck, ?_⟩
    rw [g.loopOf, g.atomicOf, g.clockOf, Bool.and_true] at h
    cases hp : pred k st.sh with
    | true =>
      obtain ⟨s', hs', _⟩ := runBody_std_true k e st.sh hp
      rw [hs'] at h
      right; exact ⟨by simpa using h.symm, rfl⟩
    | false =>
      rw [runBody_std_false k e st.sh hp] at h
      cases e with
      | false => simp at h
      | true => left; exact ⟨by simpa using h.symm, rfl, rfl⟩
  · exact absurd h hpc

/-- Only `check` makes the waiter return. -/
theorem return_only_by_check {c : Cfg} {k : Kind} {st : St} {ev : Ev} {r : Ret}
    (hpc : st.pc ≠ .returned r) (h : (step c k st ev).pc = .returned r) : ∃ e, ev = .check e := by
  cases ev with
  | check e => exact ⟨e, rfl⟩
  | lock =>
    simp only [Repe.Condvar.step] at h
    split at h
    · simp at h
    · split at h
      · simp at h
      · exact absurd h hpc
  | wake =>
    simp only [Repe.Condvar.step] at h
    split at h
    · simp at h
    · exact absurd h hpc
  | op o =>
    simp only [Repe.Condvar.step] at h
    split at h
    · exact absurd h hpc
    · simp only at h
      split at h
      · simp at h
      · exact absurd h hpc

/-- If the run ends in `returned r` and did not start there, some `check` step produced it. -/
theorem return_step {c : Cfg} (g : c.Good) {k : Kind} {r : Ret} (evs : List Ev) {st : St}
    (hpc : st.pc ≠ .returned r) (h : (run c k st evs).pc = .returned r) :
    ∃ pre e post, evs = pre ++ Ev.check e :: post ∧ (run c k st pre).pc = .checking ∧
      ((r = .timeout ∧ e = true ∧ pred k (run c k st pre).sh = false) ∨
       (r = expected k (run c k st pre).sh ∧ pred k (run c k st pre).sh = true)) := by
  induction evs generalizing st with
  | nil => exact absurd h hpc
  | cons ev es ih =>
    by_cases hs : (step c k st ev).pc = .returned r
    · obtain ⟨e, rfl⟩ := return_only_by_check hpc hs
      obtain ⟨h1, h2⟩ := check_return g hpc hs
      exact ⟨[], e, es, rfl, h1, h2⟩
    · obtain ⟨pre, e, post, h1, h2, h3⟩ := ih hs (by simpa [run] using h)
      exact ⟨ev :: pre, e, post, by simp [h1], by simpa [run] using h2, by simpa [run] using h3⟩

/-! ### any number of waiters -/

/-- One pass of a waiter through its loop body never makes another waiter's condition true (the only
thing it may change is to consume the staged resume). -/
theorem runBody_std_other {k : Kind} {e : Bool} {s s' : Sh} {pc' : PC}
    (h : runBody k e stdLoop s = some (s', pc')) (k' : Kind) (hp' : pred k' s = false) :
    pred k' s' = false := by
  cases hp : pred k s with
  | false =>
    rw [runBody_std_false k e s hp] at h
    cases h; exact hp'
  | true =>
    obtain ⟨s'', hs'', hw, hs, ha, hc, _, _, hq⟩ := runBody_std_true k e s hp
    rw [hs''] at h
    cases h
    cases k' with
    | credit len =>
      have : pred (.credit len) s' = pred (.credit len) s := by
        unfold pred inFlight; simp only [hw, hs, ha, hc]
      rw [this]; exact hp'
    | reconnect =>
      obtain ⟨h1, h2⟩ := pred_reconnect_false hp'
      have hq' : s'.pending = none := by
        rcases hq with hq | hq
        · rw [hq]; exact h2
        · exact hq
      simp [pred, hc, h1, hq']

/-- The n-waiter configuration the no-lost-wake-up proof needs: everything `Good` says, and every
notification is a `notify_all`. -/
structure Cfg.GoodN (c : Cfg) : Prop where
  good : c.Good
  all : c.notifyAll = true
  readers : c.readersAtomic = true

instance (c : Cfg) : Decidable c.GoodN :=
  if h : c.Good ∧ c.notifyAll = true ∧ c.readersAtomic = true then isTrue ⟨h.1, h.2.1, h.2.2⟩
  else isFalse fun g => h ⟨g.good, g.all, g.readers⟩

structure MNoLost (kinds : Nat → Kind) (st : MSt) : Prop where
  parked : ∀ i, st.pc i = .parked → pred (kinds i) st.sh = false
  mutex : ∀ i, st.pc i = .checking ↔ st.holder = some i
  notPre : ∀ i, st.pc i ≠ .preparking

theorem MNoLost.init (kinds : Nat → Kind) (s : Sh) : MNoLost kinds (MSt.init s) :=
  ⟨by simp [MSt.init], by simp [MSt.init], by simp [MSt.init]⟩

theorem upd_same (f : Nat → PC) (i : Nat) (v : PC) : upd f i v i = v := by simp [upd]
theorem upd_other (f : Nat → PC) {i j : Nat} (v : PC) (h : j ≠ i) : upd f i v j = f j := by simp [upd, h]

theorem MNoLost.step {c : Cfg} (g : c.GoodN) {kinds : Nat → Kind} {st : MSt} (h : MNoLost kinds st) (e : MEv) :
    MNoLost kinds (mstep c kinds st e) := by
  cases e with
  | lock i =>
    simp only [mstep]
    split
    · rename_i hc
      refine ⟨?_, ?_, ?_⟩
      · intro j hj
        try dsimp only at hj ⊢
        by_cases hji : j = i
        · subst hji; simp [upd_same] at hj
        · rw [upd_other _ _ hji] at hj; exact h.parked j hj
      · intro j
        try dsimp only
        by_cases hji : j = i
        · subst hji; simp [upd_same]
        · rw [upd_other _ _ hji]
          constructor
          · intro hck; have := (h.mutex j).mp hck; rw [hc.2] at this; cases this
          · intro hh; exfalso; apply hji; simpa using hh.symm
      · intro j
        try dsimp only
        by_cases hji : j = i
        · subst hji; simp [upd_same]
        · rw [upd_other _ _ hji]; exact h.notPre j
    · split
      · rename_i hpre; exact absurd hpre.1 (h.notPre i)
      · exact h
  | check i ex =>
    simp only [mstep]
    split
    · rename_i hck
      rw [g.good.loopOf, g.good.atomicOf, g.good.clockOf, Bool.and_true]
      cases hb : runBody (kinds i) ex stdLoop st.sh with
      | none => exact h
      | some r =>
        obtain ⟨sh', pc'⟩ := r
        simp only
        have hpc' : (if pc' = PC.parked ∧ true = false then PC.preparking else pc') = pc' := by simp
        rw [hpc']
        refine ⟨?_, ?_, ?_⟩
        · intro j hj
          try dsimp only at hj ⊢
          by_cases hji : j = i
          · subst hji
            rw [upd_same] at hj
            subst hj
            cases hp : pred (kinds j) st.sh with
            | true =>
              obtain ⟨s'', hs'', _⟩ := runBody_std_true (kinds j) ex st.sh hp
              rw [hs''] at hb; simp at hb
            | false =>
              rw [runBody_std_false (kinds j) ex st.sh hp] at hb
              cases ex <;> simp at hb
              · rw [← hb]; exact hp
          · rw [upd_other _ _ hji] at hj
            exact runBody_std_other hb (kinds j) (h.parked j hj)
        · intro j
          try dsimp only
          by_cases hji : j = i
          · subst hji
            rw [upd_same]
            constructor
            · intro hpc
              exfalso
              subst hpc
              cases hp : pred (kinds j) st.sh with
              | true =>
                obtain ⟨s'', hs'', _⟩ := runBody_std_true (kinds j) ex st.sh hp
                rw [hs''] at hb; simp at hb
              | false =>
                rw [runBody_std_false (kinds j) ex st.sh hp] at hb
                cases ex <;> simp at hb
            · intro hh; cases hh
          · rw [upd_other _ _ hji]
            constructor
            · intro hpc; have := (h.mutex j).mp hpc; rw [hck.2] at this; exfalso; apply hji; simpa using this.symm
            · intro hh; cases hh
        · intro j
          try dsimp only
          by_cases hji : j = i
          · subst hji
            rw [upd_same]
            intro hpc
            subst hpc
            cases hp : pred (kinds j) st.sh with
            | true =>
              obtain ⟨s'', hs'', _⟩ := runBody_std_true (kinds j) ex st.sh hp
              rw [hs''] at hb; simp at hb
            | false =>
              rw [runBody_std_false (kinds j) ex st.sh hp] at hb
              cases ex <;> simp at hb
          · rw [upd_other _ _ hji]; exact h.notPre j
    · exact h
  | wake i =>
    simp only [mstep]
    split
    · rename_i hpk
      refine ⟨?_, ?_, ?_⟩
      · intro j hj
        try dsimp only at hj ⊢
        by_cases hji : j = i
        · subst hji; simp [upd_same] at hj
        · rw [upd_other _ _ hji] at hj; exact h.parked j hj
      · intro j
        try dsimp only
        by_cases hji : j = i
        · subst hji
          rw [upd_same]
          constructor
          · intro hh; cases hh
          · intro hh; have := (h.mutex j).mpr hh; rw [hpk] at this; cases this
        · rw [upd_other _ _ hji]; exact h.mutex j
      · intro j
        try dsimp only
        by_cases hji : j = i
        · subst hji; simp [upd_same]
        · rw [upd_other _ _ hji]; exact h.notPre j
    · exact h
  | op o pick =>
    simp only [mstep]
    split
    · exact h
    · rename_i hl
      have hnone : st.holder = none := by
        cases hh : st.holder with
        | none => rfl
        | some x => simp [hh] at hl
      rw [g.all]
      simp only [if_true]
      cases hn : (applyOp c.tbl o st.sh).2 with
      | true =>
        simp only [if_true]
        refine ⟨?_, ?_, ?_⟩
        · intro j hj
          try dsimp only at hj ⊢
          split at hj
          · cases hj
          · rename_i hnp; exact absurd hj hnp
        · intro j
          try dsimp only
          rw [hnone]
          constructor
          · intro hh
            split at hh
            · cases hh
            · have := (h.mutex j).mp hh; rw [hnone] at this; cases this
          · intro hh; cases hh
        · intro j
          try dsimp only
          split
          · simp
          · exact h.notPre j
      | false =>
        simp only [Bool.false_eq_true, if_false]
        refine ⟨?_, h.mutex, h.notPre⟩
        intro j hj
        cases hp' : pred (kinds j) (applyOp c.tbl o st.sh).1 with
        | false => rfl
        | true =>
          have := wake_obligation_generic c.tbl g.good.tbl (kinds j) o st.sh (h.parked j hj) hp'
          rw [hn] at this; cases this

theorem MNoLost.run {c : Cfg} (g : c.GoodN) {kinds : Nat → Kind} (evs : List MEv) {st : MSt}
    (h : MNoLost kinds st) : MNoLost kinds (mrun c kinds st evs) := by
  induction evs generalizing st with
  | nil => exact h
  | cons e es ih => exact ih (h.step g e)

end Repe.Condvar
