import RepeVerif.Model.Dispatch
import RepeVerif.Lemmas.Wire
/-! Helper lemmas for the dispatch model (C03). -/
namespace Repe

theorem createErrorMessage_wf (code : Nat) (msg : Bytes) (hc : code < 2^32) (hl : 48 + msg.length < 2^64) :
    (createErrorMessage code msg).WF := by
  unfold createErrorMessage
  exact Builder.build_wf _ (by simp) hc (by simp) (by simp [BODY_UTF8]) (by simpa using hl)

theorem errorUnstamped_wf (req : Req) (code : Nat) (msg : Bytes) (hid : req.header.id < 2^64)
    (hc : code < 2^32) (hl : 48 + msg.length < 2^64) : (errorUnstamped req code msg).WF := by
  have h := createErrorMessage_wf code msg hc hl
  unfold errorUnstamped
  refine ⟨⟨h.inRange.length, h.inRange.spec, h.inRange.version, h.inRange.notify, h.inRange.reserved, hid,
    h.inRange.queryLength, h.inRange.bodyLength, h.inRange.queryFormat, h.inRange.bodyFormat, h.inRange.ec⟩,
    h.spec, h.qlen, h.blen, h.len⟩

@[simp] theorem errorUnstamped_query (req : Req) (code : Nat) (msg : Bytes) :
    (errorUnstamped req code msg).query = [] := rfl
@[simp] theorem errorUnstamped_id (req : Req) (code : Nat) (msg : Bytes) :
    (errorUnstamped req code msg).header.id = req.header.id := rfl
@[simp] theorem errorUnstamped_ec (req : Req) (code : Nat) (msg : Bytes) :
    (errorUnstamped req code msg).header.ec = code := rfl
@[simp] theorem errorUnstamped_notify (req : Req) (code : Nat) (msg : Bytes) :
    (errorUnstamped req code msg).header.notify = 0 := rfl
@[simp] theorem errorLike_id (req : Req) (code : Nat) (msg : Bytes) :
    (errorLike req code msg).header.id = req.header.id := rfl
@[simp] theorem errorLike_ec (req : Req) (code : Nat) (msg : Bytes) :
    (errorLike req code msg).header.ec = code := rfl
@[simp] theorem errorLike_query (req : Req) (code : Nat) (msg : Bytes) :
    (errorLike req code msg).query = req.query := rfl

theorem stamp_q_nil (resp : Message) : stampResponseQuery resp [] = resp := by
  simp [stampResponseQuery]

theorem stamp_resp_cons (resp : Message) (q : Bytes) (a : UInt8) (r : Bytes) (h : resp.query = a :: r) :
    stampResponseQuery resp q = resp := by
  simp [stampResponseQuery, h]

theorem stamp_stamps (resp : Message) (a : UInt8) (r : Bytes) (h : resp.query = []) :
    stampResponseQuery resp (a :: r) =
      ⟨resp.header.patchLengths (a :: r).length resp.header.bodyLength, a :: r, resp.body⟩ := by
  simp [stampResponseQuery, h]

theorem echo_resp_nil (resp : Message) (q : Bytes) (h : resp.query = []) : responseEchoQuery resp q = q := by
  simp [responseEchoQuery, h]

theorem echo_resp_cons (resp : Message) (q : Bytes) (a : UInt8) (r : Bytes) (h : resp.query = a :: r) :
    responseEchoQuery resp q = resp.query := by
  simp [responseEchoQuery, h]

/-- Owned-path error (`create_error_response_like`) and borrowed-path error
(`…_unstamped_view` + stamping at the writer) are the same message. -/
theorem errorLike_eq_stamped (req : Req) (code : Nat) (msg : Bytes) :
    stampResponseQuery (errorLike req code msg) req.query =
    stampResponseQuery (errorUnstamped req code msg) req.query := by
  cases hq : req.query with
  | nil =>
    rw [stamp_q_nil, stamp_q_nil]
    simp [errorLike, errorUnstamped, createErrorMessage, Builder.build, hq]
  | cons a r =>
    rw [stamp_resp_cons (errorLike req code msg) _ a r (by simp [hq]), stamp_stamps _ a r rfl]
    simp [errorLike, errorUnstamped, createErrorMessage, Builder.build, Header.patchLengths, hq]

theorem Message.eta (m : Message) : (⟨m.header, m.query, m.body⟩ : Message) = m := by cases m; rfl

/-- For a consistent response, the three framings build the same message. -/
theorem finalMessage_tcp_eq_ws (resp : Message) (wf : resp.WF) (q : Bytes) :
    finalMessage .tcp resp q = stampResponseQuery resp q := by
  unfold finalMessage
  cases hrq : resp.query with
  | nil =>
    rw [echo_resp_nil resp q hrq]
    cases q with
    | nil =>
      rw [stamp_q_nil]
      have := patchLengths_id resp wf
      rw [hrq] at this
      simp only [this]
      rw [← hrq]
    | cons a r =>
      rw [stamp_stamps resp a r hrq, wf.blen]
  | cons a r =>
    rw [echo_resp_cons resp q a r hrq, stamp_resp_cons resp q a r hrq]
    simp only [patchLengths_id resp wf]

theorem asyncFrameMsg_self (resp : Message) (wf : resp.WF) : asyncFrameMsg resp resp.query = resp := by
  cases resp with | mk h rq b =>
  cases h
  have h1 := wf.qlen; have h3 := wf.len; have h2 := wf.blen
  simp_all [asyncFrameMsg]

theorem finalMessage_atcp_eq_ws (resp : Message) (wf : resp.WF) (q : Bytes) :
    finalMessage .atcp resp q = stampResponseQuery resp q := by
  unfold finalMessage
  cases hrq : resp.query with
  | nil =>
    rw [echo_resp_nil resp q hrq]
    cases q with
    | nil =>
      rw [stamp_q_nil, ← hrq]; exact asyncFrameMsg_self resp wf
    | cons a r =>
      rw [stamp_stamps resp a r hrq]
      simp [asyncFrameMsg, Header.patchLengths]
  | cons a r =>
    rw [echo_resp_cons resp q a r hrq, stamp_resp_cons resp q a r hrq]
    exact asyncFrameMsg_self resp wf

theorem finalMessage_eq (t : Transport) (resp : Message) (wf : resp.WF) (q : Bytes) :
    finalMessage t resp q = stampResponseQuery resp q := by
  cases t
  · exact finalMessage_tcp_eq_ws resp wf q
  · exact finalMessage_atcp_eq_ws resp wf q
  · rfl
  · rfl

/-- What each transport writes is `to_vec` of its final message. -/
theorem wireBytes_eq_toVec (t : Transport) (resp : Message) (q : Bytes) (cap : Nat) :
    wireBytes t resp q cap = (finalMessage t resp q).toVec := by
  cases t
  · simp only [wireBytes, finalMessage, serverFrame]; exact streaming_eq_toVec _ _ _
  · simp only [wireBytes, finalMessage, Message.toVec, asyncFrameMsg]
    cases hq : responseEchoQuery resp q <;> cases hb : resp.body <;> simp
  · simp only [wireBytes, finalMessage]; exact intoWireBytes_eq_toVec _ _
  · simp only [wireBytes, finalMessage]; exact intoWireBytes_eq_toVec _ _

theorem stamp_query (resp : Message) (q : Bytes) :
    (stampResponseQuery resp q).query = if resp.query.isEmpty then q else resp.query := by
  cases hrq : resp.query with
  | nil =>
    cases q with
    | nil => rw [stamp_q_nil]; simp [hrq]
    | cons a r => rw [stamp_stamps resp a r hrq]; simp
  | cons a r => rw [stamp_resp_cons resp q a r hrq]; simp [hrq]

theorem stamp_id (resp : Message) (q : Bytes) :
    (stampResponseQuery resp q).header.id = resp.header.id := by
  unfold stampResponseQuery; split <;> simp [Header.patchLengths]

theorem stamp_ec (resp : Message) (q : Bytes) :
    (stampResponseQuery resp q).header.ec = resp.header.ec := by
  unfold stampResponseQuery; split <;> simp [Header.patchLengths]

theorem stamp_body (resp : Message) (q : Bytes) :
    (stampResponseQuery resp q).body = resp.body := by
  unfold stampResponseQuery; split <;> simp

theorem stamp_wf (resp : Message) (wf : resp.WF) (q : Bytes) (hl : 48 + q.length + resp.body.length < 2^64) :
    (stampResponseQuery resp q).WF := by
  unfold stampResponseQuery
  split
  · exact wf
  · have hr := wf.inRange
    refine ⟨⟨?_, hr.spec, hr.version, hr.notify, hr.reserved, hr.id, ?_, ?_, hr.queryFormat, hr.bodyFormat, hr.ec⟩,
      wf.spec, rfl, ?_, ?_⟩ <;> simp [Header.patchLengths, wf.blen] <;> omega

/-- The accumulator loop of a connection is `filterMap` over the requests, in arrival order. -/
theorem serveSeq_eq (c : Codes) (t : Transport) (steps : List Step) (acc : List Message) (n : Nat) :
    serveSeq c t steps acc n =
      (acc.reverse ++ steps.filterMap (fun s => (respond c t s.req s.utf8 s.found s.hview s.howned).1),
       n + (steps.map (fun s => (respond c t s.req s.utf8 s.found s.hview s.howned).2)).sum) := by
  induction steps generalizing acc n with
  | nil => simp [serveSeq]
  | cons s rest ih =>
    simp only [serveSeq]
    cases hr : respond c t s.req s.utf8 s.found s.hview s.howned with
    | mk o k =>
      cases o with
      | some m => simp [ih, hr, Nat.add_assoc]
      | none => simp [ih, hr, Nat.add_assoc]

/-! ### structure facts, decode decision, twins -/

theorem finalMessageG_spec (t : Transport) (resp : Message) (q : Bytes) :
    finalMessageG specServe t resp q = finalMessage t resp q := by
  cases t <;> simp [finalMessageG, specServe]

theorem respondG_spec (c : Codes) (t : Transport) (req : Req) (utf8 found : Bool) (hv ho : HOut) (rej : Bytes) :
    respondG specServe c t req utf8 found hv ho rej = respond c t req utf8 found hv ho rej := by
  unfold respondG respond
  simp only [finalMessageG_spec]
  cases route c req utf8 found <;> cases t <;> cases req.isNotify <;> simp [specServe]

theorem errorLike_wf (req : Req) (code : Nat) (msg : Bytes) (hid : req.header.id < 2^64)
    (hc : code < 2^32) (hl : 48 + req.query.length + msg.length < 2^64) : (errorLike req code msg).WF := by
  have h := errorUnstamped_wf req code msg hid hc (by omega)
  have hb : (errorUnstamped req code msg).body = msg := rfl
  have hbl := h.blen
  rw [hb] at hbl
  refine ⟨⟨?_, h.inRange.spec, h.inRange.version, h.inRange.notify, h.inRange.reserved, hid, ?_,
    h.inRange.bodyLength, h.inRange.queryFormat, h.inRange.bodyFormat, h.inRange.ec⟩, h.spec, rfl, h.blen, ?_⟩
  · show 48 + req.query.length + (errorUnstamped req code msg).header.bodyLength < 2^64
    rw [hbl]; exact hl
  · show req.query.length < 2^64
    omega
  · show 48 + req.query.length + (errorUnstamped req code msg).header.bodyLength = 48 + req.query.length + msg.length
    rw [hbl]

theorem builtinResponse_wf (req : Req) (bf : Nat) (body : Bytes) (hid : req.header.id < 2^64) (hbf : bf < 2^16)
    (hl : 48 + body.length < 2^64) : (builtinResponse req bf body).WF := by
  unfold builtinResponse
  refine Builder.build_wf _ hid (by simp) ?_ hbf (by simpa using hl)
  show (if req.header.queryFormat ≤ 1 then req.header.queryFormat else 0) < 2^16
  split <;> omega

/-- The decision does not depend on which twin decodes, once both read the same facts. -/
theorem decodeDecision_congr (f g : DecodeFacts) (h : f = g) (fmt : Nat) (e d : Bool) :
    decodeDecision f fmt e d = decodeDecision g fmt e d := by rw [h]

theorem decodeDecision_reject {f : DecodeFacts} {fmt : Nat} {e d : Bool} {c : Nat}
    (h : decodeDecision f fmt e d = .reject c) : c = f.rejectCode ∧ fmt ∉ f.accepts := by
  unfold decodeDecision at h
  split at h
  · cases h
  · split at h
    · split at h <;> cases h
    · cases h; exact ⟨rfl, by assumption⟩

theorem decodeDecision_fail {f : DecodeFacts} {fmt : Nat} {e d : Bool} {c : Nat} {b : Bool}
    (h : decodeDecision f fmt e d = .fail c b) : c = f.failCode ∧ b = f.failIsErr ∧ d = false := by
  unfold decodeDecision at h
  split at h
  · cases h
  · split at h
    · split at h
      · cases h
      · cases h
        refine ⟨rfl, rfl, ?_⟩
        cases d <;> simp_all
    · cases h

theorem finalMessage_ec (t : Transport) (resp : Message) (q : Bytes) :
    (finalMessage t resp q).header.ec = resp.header.ec := by
  cases t <;> simp [finalMessage, asyncFrameMsg, stamp_ec, Header.patchLengths]

theorem finalMessage_id (t : Transport) (resp : Message) (q : Bytes) :
    (finalMessage t resp q).header.id = resp.header.id := by
  cases t <;> simp [finalMessage, asyncFrameMsg, stamp_id, Header.patchLengths]

theorem finalMessage_body (t : Transport) (resp : Message) (q : Bytes) :
    (finalMessage t resp q).body = resp.body := by
  cases t <;> simp [finalMessage, asyncFrameMsg, stamp_body]

theorem finalMessage_query (t : Transport) (resp : Message) (q : Bytes) :
    (finalMessage t resp q).query = if resp.query.isEmpty then q else resp.query := by
  cases t <;> simp [finalMessage, asyncFrameMsg, stamp_query, responseEchoQuery]

/-- The message `dispatch_view` / `dispatch` turn a handler outcome into. -/
def outMsg (e : Entry) (req : Req) : HOut → Message
  | .ok m => m
  | .err c msg => errorFor e req c msg

/-- Entry point the dispatch layer itself uses on transport `t`. -/
def layerEntry : Transport → Entry
  | .wsOff => .owned
  | _ => .view

theorem respond_dispatch (c : Codes) (t : Transport) (req : Req) (utf8 found : Bool) (hv ho : HOut) (rej : Bytes)
    (hr : route c req utf8 found = .dispatch) (hn : req.isNotify = false) :
    (respond c t req utf8 found hv ho rej).1 =
      some (finalMessage t (outMsg (layerEntry t) req (match t with | .wsOff => ho | _ => hv)) req.query) := by
  unfold respond
  rw [hr]
  simp only [hn]
  cases t <;> simp only [Bool.false_eq_true, if_false, layerEntry] <;>
    first
      | (cases hv <;> rfl)
      | (cases ho <;> rfl)

theorem respond_wsOff_hview (c : Codes) (req : Req) (utf8 found : Bool) (hv hv' ho : HOut) (rej : Bytes) :
    respond c .wsOff req utf8 found hv ho rej = respond c .wsOff req utf8 found hv' ho rej := by
  unfold respond
  cases route c req utf8 found <;> rfl

/-- Error code a built-in handler's outcome carries, as a function of the decoding decision and the closure. -/
def builtinEc (f : DecodeFacts) (fmt : Nat) (bodyEmpty decodable : Bool) (cl : Closure) : Nat :=
  match decodeDecision f fmt bodyEmpty decodable with
  | .reject c => c
  | .fail c _ => c
  | .value => match cl with
    | .ok _ _ => 0
    | .err c _ => c

theorem builtin_out_ec (f : DecodeFacts) (e e' : Entry) (req : Req) (d : Bool) (cl : Closure) (txt : Bytes) :
    (outMsg e' req (builtinHandle f e req d cl txt)).header.ec =
      builtinEc f req.header.bodyFormat req.body.isEmpty d cl := by
  unfold builtinHandle builtinEc
  cases decodeDecision f req.header.bodyFormat req.body.isEmpty d with
  | reject c => cases e <;> rfl
  | fail c b => cases b <;> cases e <;> cases e' <;> rfl
  | value => cases cl <;> cases e <;> rfl

theorem builtin_out_id (f : DecodeFacts) (e e' : Entry) (req : Req) (d : Bool) (cl : Closure) (txt : Bytes) :
    (outMsg e' req (builtinHandle f e req d cl txt)).header.id = req.header.id := by
  unfold builtinHandle
  cases decodeDecision f req.header.bodyFormat req.body.isEmpty d with
  | reject c => cases e <;> rfl
  | fail c b => cases b <;> cases e <;> cases e' <;> rfl
  | value => cases cl <;> cases e <;> rfl

theorem builtin_out_query (f : DecodeFacts) (e e' : Entry) (req : Req) (d : Bool) (cl : Closure) (txt : Bytes) :
    (outMsg e' req (builtinHandle f e req d cl txt)).query = [] ∨
    (outMsg e' req (builtinHandle f e req d cl txt)).query = req.query := by
  unfold builtinHandle
  cases decodeDecision f req.header.bodyFormat req.body.isEmpty d with
  | reject c => cases e <;> simp [outMsg, errorFor]
  | fail c b => cases b <;> cases e <;> cases e' <;> simp [outMsg, errorFor]
  | value => cases cl <;> cases e <;> simp [outMsg, errorFor, builtinResponse, Builder.build]

end Repe
