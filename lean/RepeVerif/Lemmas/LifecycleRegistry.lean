import RepeVerif.Lemmas.Lifecycle
import RepeVerif.Lemmas.Peers
/-! The connect/disconnect hooks of `with_peer_registry` seen from the registry (C15 `registry_presence`).

`WebSocketServer::with_peer_registry(reg)` registers `move |peer| reg.insert(peer)` as a connect
hook and `move |id| { reg.remove(id); }` as a disconnect hook.  An embedder that keys peers off the
handshake adds `on_peer_connect_with_handshake` hooks calling `reg.alias(peer.peer_id(), key)`.
Every `PeerRegistry` method is one critical section (C18 `single_section_ops`), so what the registry
sees is an interleaving of this connection's hook events with whole calls made on behalf of other
peers.  Core Lean only. -/
namespace Repe.Lifecycle
open Repe.Peers (Key lookup lookup_put lookup_erase)

/-- What a hook event of connection `id` does to the registry when `with_peer_registry` was called
first on the builder (connect hook 0 = insert, disconnect hook 0 = remove) and connect hook `j+1`
aliases `keys[j]` (hooks beyond that do not touch the registry). -/
def regEffect (id tag : Nat) (keys : List Key) (r : Peers.State) : Ev → Peers.State
  | .connect 0 => Peers.insert r id tag
  | .connect (j + 1) =>
    match keys[j]? with
    | some k => (Peers.alias r id k).1
    | none => r
  | .disconnect 0 _ => (Peers.remove r id).1
  | _ => r

/-- What the registry sees: a hook event of this connection, or a whole call made for someone else. -/
inductive Item where
  | ev (e : Ev)
  | foreign (op : Peers.Op)

/-- Calls that are not about this connection: they neither insert/remove/alias peer `id` nor
re-point one of this connection's keys to somebody else. -/
def Foreign (id : Nat) (keys : List Key) : Peers.Op → Prop
  | .insert q _ => q ≠ id
  | .remove q => q ≠ id
  | .alias q k => q ≠ id ∧ k ∉ keys
  | _ => True

def regStep (id tag : Nat) (keys : List Key) (r : Peers.State) : Item → Peers.State
  | .ev e => regEffect id tag keys r e
  | .foreign op => (Peers.step (fun _ => .ok) r op).1

def regRun (id tag : Nat) (keys : List Key) (r : Peers.State) (items : List Item) : Peers.State :=
  items.foldl (regStep id tag keys) r

def Item.evOf : Item → Option Ev
  | .ev e => some e
  | .foreign _ => none

/-- Where the connection stands as far as the registry is concerned. -/
inductive Pres where
  | absent
  | present (ks : List Key)
  deriving DecidableEq, Repr

def presStep (keys : List Key) : Pres → Ev → Pres
  | .absent, .connect 0 => .present []
  | .present ks, .connect (j + 1) =>
    match keys[j]? with
    | some k => .present (ks ++ [k])
    | none => .present ks
  | _, .disconnect 0 _ => .absent
  | p, _ => p

def presOf (keys : List Key) (tr : List Ev) : Pres := tr.foldl (presStep keys) .absent

/-- The registry agrees with `p` about peer `id`. -/
def Agrees (id tag : Nat) (keys : List Key) (r : Peers.State) : Pres → Prop
  | .absent => lookup id r.peers = none
  | .present ks => lookup id r.peers = some tag ∧ ∀ k ∈ ks, k ∈ keys ∧ lookup k r.aliases = some id

theorem present_iff (r : Peers.State) (id : Nat) : r.present id = (lookup id r.peers).isSome := rfl

theorem agrees_ev {id tag : Nat} {keys : List Key} {r : Peers.State} (hI : Peers.Inv r) {p : Pres}
    (h : Agrees id tag keys r p) (e : Ev) :
    Agrees id tag keys (regEffect id tag keys r e) (presStep keys p e) ∧ Peers.Inv (regEffect id tag keys r e) := by
  cases e with
  | cancel => cases p <;> exact ⟨h, hI⟩
  | connect i =>
    cases i with
    | zero =>
      refine ⟨?_, Peers.inv_insert hI id tag⟩
      cases p with
      | absent => simp [regEffect, presStep, Agrees, Peers.insert, lookup_put]
      | present ks =>
        simp only [regEffect, presStep, Agrees, Peers.insert, lookup_put, if_true, true_and]
        exact h.2
    | succ j =>
      simp only [regEffect]
      cases hk : keys[j]? with
      | none => cases p <;> simp only [presStep, hk] <;> exact ⟨h, hI⟩
      | some k =>
        refine ⟨?_, Peers.inv_alias hI id k⟩
        cases p with
        | absent =>
          simp only [Agrees] at h
          have : r.present id = false := by simp [present_iff, h]
          simp only [presStep, Peers.alias_absent r id k this, Agrees]; exact h
        | present ks =>
          simp only [Agrees] at h
          have hp : r.present id = true := by simp [present_iff, h.1]
          obtain ⟨_, hpeers, hA, _⟩ := Peers.alias_present hI k hp
          simp only [presStep, hk, Agrees, hpeers, hA]
          refine ⟨h.1, ?_⟩
          intro k' hk'
          simp only [List.mem_append, List.mem_singleton] at hk'
          rcases hk' with hk' | hk'
          · refine ⟨(h.2 k' hk').1, ?_⟩
            by_cases e : k = k'
            · simp [e]
            · simp [e, (h.2 k' hk').2]
          · subst hk'
            exact ⟨List.mem_of_getElem? hk, by simp⟩
  | disconnect i b =>
    cases i with
    | zero =>
      refine ⟨?_, Peers.inv_remove hI id⟩
      obtain ⟨_, hpeers, _, _⟩ := Peers.remove_eqs hI id
      cases p <;> simp [regEffect, presStep, Agrees, hpeers, lookup_erase]
    | succ j => cases p <;> exact ⟨h, hI⟩

theorem agrees_foreign {id tag : Nat} {keys : List Key} {r : Peers.State} (hI : Peers.Inv r) {p : Pres}
    (h : Agrees id tag keys r p) (op : Peers.Op) (hf : Foreign id keys op) :
    Agrees id tag keys (Peers.step (fun _ => .ok) r op).1 p ∧ Peers.Inv (Peers.step (fun _ => .ok) r op).1 := by
  refine ⟨?_, Peers.inv_step _ hI op⟩
  cases op with
  | insert q t =>
    simp only [Foreign] at hf
    cases p <;> simp_all [Peers.step, Agrees, Peers.insert, lookup_put]
  | remove q =>
    simp only [Foreign] at hf
    obtain ⟨_, hpeers, hA, _⟩ := Peers.remove_eqs hI q
    cases p with
    | absent => simp_all [Peers.step, Agrees, lookup_erase]
    | present ks =>
      simp only [Agrees] at h
      simp only [Peers.step, Agrees, hpeers, hA, lookup_erase, hf, if_false]
      refine ⟨h.1, fun k hk => ⟨(h.2 k hk).1, ?_⟩⟩
      have : ¬ (id = q) := fun e => hf e.symm
      simp [(h.2 k hk).2, this]
  | alias q k =>
    simp only [Foreign] at hf
    by_cases hq : r.present q = true
    · obtain ⟨_, hpeers, hA, _⟩ := Peers.alias_present hI k hq
      cases p with
      | absent => simp_all [Peers.step, Agrees]
      | present ks =>
        simp only [Agrees] at h
        simp only [Peers.step, Agrees, hpeers, hA]
        refine ⟨h.1, fun k' hk' => ⟨(h.2 k' hk').1, ?_⟩⟩
        have : ¬ (k = k') := fun e => hf.2 (e ▸ (h.2 k' hk').1)
        simp [this, (h.2 k' hk').2]
    · have hq' : r.present q = false := by simpa using hq
      simp only [Peers.step, Peers.alias_absent r q k hq']
      exact h
  | get _ => exact h
  | getBy _ => exact h
  | keyFor _ => exact h
  | aliasesFor _ => exact h
  | len => exact h
  | broadcast _ _ _ => exact h

/-- Every interleaving: the registry agrees with the presence computed from the hook events alone. -/
theorem agrees_run {id tag : Nat} {keys : List Key} (items : List Item) :
    ∀ {r : Peers.State} {p : Pres}, Peers.Inv r → Agrees id tag keys r p →
    (∀ op, Item.foreign op ∈ items → Foreign id keys op) →
    Agrees id tag keys (regRun id tag keys r items) ((items.filterMap Item.evOf).foldl (presStep keys) p) ∧
    Peers.Inv (regRun id tag keys r items) := by
  induction items with
  | nil => intro r p hI h _; exact ⟨h, hI⟩
  | cons it items ih =>
    intro r p hI h hf
    cases it with
    | ev e =>
      obtain ⟨h', hI'⟩ := agrees_ev hI h e
      have := ih hI' h' (fun op hop => hf op (List.mem_cons_of_mem _ hop))
      simpa [regRun, regStep, Item.evOf] using this
    | foreign op =>
      obtain ⟨h', hI'⟩ := agrees_foreign hI h op (hf op (List.mem_cons_self ..))
      have := ih hI' h' (fun op hop => hf op (List.mem_cons_of_mem _ hop))
      have e : List.filterMap Item.evOf (Item.foreign op :: items) = List.filterMap Item.evOf items := by
        simp [List.filterMap_cons, Item.evOf]
      rw [e]
      simpa [regRun, regStep] using this

/-! ### the presence state of the expected trace shape -/

theorem presOf_connects (keys : List Key) (k : Nat) (hk : k ≤ keys.length + 1) :
    presOf keys (connects k) = if k = 0 then .absent else .present (keys.take (k - 1)) := by
  induction k with
  | zero => rfl
  | succ n ih =>
    have ih := ih (by omega)
    unfold presOf at ih ⊢
    rw [connects_succ, List.foldl_append, ih]
    cases n with
    | zero => rfl
    | succ m =>
      have hm : m < keys.length := by omega
      simp only [List.foldl_cons, List.foldl_nil, Nat.add_one_ne_zero, if_false, presStep,
        List.getElem?_eq_getElem hm, Nat.add_sub_cancel]
      rw [List.take_add_one, List.getElem?_eq_getElem hm]
      rfl

theorem presStep_disconnects (keys : List Key) (n : Nat) (p : Pres) :
    (disconnects n).foldl (presStep keys) p = if n = 0 then p else .absent := by
  induction n with
  | zero => rfl
  | succ n ih =>
    have : disconnects (n + 1) = disconnects n ++ [.disconnect n true] := by
      simp [disconnects, List.range_succ]
    rw [this, List.foldl_append, ih]
    cases n with
    | zero => cases p <;> rfl
    | succ m => simp [presStep]

/-- What the registry must say once `Agrees`: the handle is there and every key resolves to it / the
peer is gone together with everything that pointed at it. -/
theorem agrees_present {id tag : Nat} {keys : List Key} {r : Peers.State} {ks : List Key}
    (h : Agrees id tag keys r (.present ks)) :
    Peers.get r id = some ⟨id, tag⟩ ∧ ∀ k ∈ ks, Peers.getBy r k = some ⟨id, tag⟩ := by
  simp only [Agrees] at h
  refine ⟨by simp [Peers.get, h.1], fun k hk => ?_⟩
  simp [Peers.getBy, (h.2 k hk).2, Peers.get, h.1]

theorem agrees_absent {id tag : Nat} {keys : List Key} {r : Peers.State} (hI : Peers.Inv r)
    (h : Agrees id tag keys r .absent) :
    Peers.get r id = none ∧ Peers.aliasesFor r id = [] ∧ ∀ k t, Peers.getBy r k ≠ some ⟨id, t⟩ := by
  simp only [Agrees] at h
  have hp : r.present id = false := by simp [present_iff, h]
  have hno := hI.owners id hp
  refine ⟨by simp [Peers.get, h], hno, fun k t => ?_⟩
  unfold Peers.getBy
  cases hl : lookup k r.aliases with
  | none => simp
  | some q =>
    by_cases hq : q = id
    · subst hq
      have := (hI.fwd k q).1 hl
      rw [hno] at this; cases this
    · simp only [Peers.get]
      cases lookup q r.peers with
      | none => simp
      | some t' => simp [hq]

end Repe.Lifecycle
