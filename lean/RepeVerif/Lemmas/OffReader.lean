import RepeVerif.Model.OffReader
/-! Helper lemmas for the off-reader model (C16). Core Lean only. -/
namespace Repe

/-! ### `push`, `takeRun` -/

@[simp] theorem push_outbound (s : St) (n : Bool) (id ec : Nat) :
    (push s n id ec).outbound = s.outbound ++ (if n then [] else [⟨id, ec⟩]) := by
  cases n <;> simp [push]
@[simp] theorem push_cap (s : St) (n : Bool) (id ec : Nat) : (push s n id ec).cap = s.cap := by
  cases n <;> simp [push]
@[simp] theorem push_permits (s : St) (n : Bool) (id ec : Nat) : (push s n id ec).permits = s.permits := by
  cases n <;> simp [push]
@[simp] theorem push_running (s : St) (n : Bool) (id ec : Nat) : (push s n id ec).running = s.running := by
  cases n <;> simp [push]
@[simp] theorem push_busy (s : St) (n : Bool) (id ec : Nat) : (push s n id ec).readerBusy = s.readerBusy := by
  cases n <;> simp [push]
@[simp] theorem push_backlog (s : St) (n : Bool) (id ec : Nat) : (push s n id ec).backlog = s.backlog := by
  cases n <;> simp [push]
@[simp] theorem push_reports (s : St) (n : Bool) (id ec : Nat) : (push s n id ec).reports = s.reports := by
  cases n <;> simp [push]

theorem takeRun_some {id : Nat} {l : List Run} {r : Run} {rest : List Run}
    (h : takeRun id l = some (r, rest)) :
    r ∈ l ∧ r.id = id ∧ rest.length + 1 = l.length ∧ (∀ x ∈ rest, x ∈ l) := by
  induction l generalizing r rest with
  | nil => simp [takeRun] at h
  | cons a l ih =>
    unfold takeRun at h
    by_cases ha : a.id = id
    · simp only [ha, if_true, Option.some.injEq, Prod.mk.injEq] at h
      obtain ⟨h1, h2⟩ := h
      subst h1; subst h2
      exact ⟨List.mem_cons_self .., ha, rfl, fun x hx => List.mem_cons_of_mem _ hx⟩
    · simp only [ha, if_false] at h
      cases hr : takeRun id l with
      | none => simp [hr] at h
      | some p =>
        obtain ⟨x, rest'⟩ := p
        simp only [hr, Option.some.injEq, Prod.mk.injEq] at h
        obtain ⟨h1, h2⟩ := h
        subst h1; subst h2
        obtain ⟨m, i, len, sub⟩ := ih hr
        refine ⟨List.mem_cons_of_mem _ m, i, by simp [len], ?_⟩
        intro y hy
        rcases List.mem_cons.mp hy with hy | hy
        · subst hy; exact List.mem_cons_self ..
        · exact List.mem_cons_of_mem _ (sub y hy)

theorem takeRun_head (r : Run) (rest : List Run) : takeRun r.id (r :: rest) = some (r, rest) := by
  simp [takeRun]

theorem takeRun_of_mem {id : Nat} {l : List Run} (h : ∃ r ∈ l, r.id = id) :
    ∃ r rest, takeRun id l = some (r, rest) := by
  induction l with
  | nil => obtain ⟨r, hr, _⟩ := h; cases hr
  | cons a l ih =>
    by_cases ha : a.id = id
    · exact ⟨a, l, by simp [takeRun, ha]⟩
    · obtain ⟨r, hr, hid⟩ := h
      rcases List.mem_cons.mp hr with hr | hr
      · subst hr; exact absurd hid ha
      · obtain ⟨x, rest, hx⟩ := ih ⟨r, hr, hid⟩
        exact ⟨x, a :: rest, by simp [takeRun, ha, hx]⟩

theorem takeRun_none {id : Nat} {l : List Run} (h : ∀ r ∈ l, r.id ≠ id) : takeRun id l = none := by
  induction l with
  | nil => rfl
  | cons a l ih =>
    have ha : a.id ≠ id := h a (List.mem_cons_self ..)
    simp [takeRun, ha, ih (fun r hr => h r (List.mem_cons_of_mem _ hr))]

/-! ### under the specification facts the model is `stepSpec` -/

/-- The reader is not stuck and nothing is waiting to be read. -/
def Free (s : St) : Prop := s.readerBusy = none ∧ s.backlog = []

theorem finish_spec (s : St) (id : Nat) (n : Bool) (k : ExitKind) :
    finish specOffFacts s id n k =
      match k with
      | .ret => push s n id 0
      | .err c => push s n id c
      | .panic => push { s with reports := s.reports ++ [.handlerPanic id] } n id specCodes.internalError := by
  cases k <;> simp [finish, pushReply, specOffFacts]

theorem step_spec (s : St) (hf : Free s) (ev : Ev) : step specOffFacts s ev = stepSpec s ev := by
  obtain ⟨hb, _⟩ := hf
  cases ev with
  | arrive a =>
    simp only [step, hb, Option.isSome_none, Bool.false_eq_true, if_false, stepSpec, readOne]
    cases hr : a.route with
    | inline => simp
    | blocking =>
      have he : effectiveOff specOffFacts a = true := by simp [effectiveOff, hr, specOffFacts]
      simp only [he]
      cases hc : s.cap with
      | none => simp [spawn, specOffFacts, hc, hb]
      | some c =>
        by_cases hp : s.permits < c
        · simp [hp, spawn, specOffFacts]
        · simp only [hp, if_false]
          cases hn : a.notify <;> simp [specOffFacts, push, pushReply]
  | exit id k =>
    simp only [step, hb, stepSpec]
    cases ht : takeRun id s.running with
    | none => rfl
    | some p =>
      obtain ⟨r, rest⟩ := p
      simp only [finish_spec]
      cases k <;> rfl

theorem stepSpec_free (s : St) (hf : Free s) (ev : Ev) : Free (stepSpec s ev) := by
  obtain ⟨hb, hl⟩ := hf
  cases ev with
  | arrive a =>
    simp only [stepSpec]
    cases a.route with
    | inline => exact ⟨by simp [hb], by simp [hl]⟩
    | blocking =>
      cases s.cap with
      | none => exact ⟨hb, hl⟩
      | some c =>
        simp only
        split
        · exact ⟨hb, hl⟩
        · exact ⟨by simp [hb], by simp [hl]⟩
  | exit id k =>
    simp only [stepSpec]
    cases takeRun id s.running with
    | none => exact ⟨hb, hl⟩
    | some p =>
      obtain ⟨r, rest⟩ := p
      cases k <;> exact ⟨by simp [hb], by simp [hl]⟩

theorem run_spec (s : St) (hf : Free s) (evs : List Ev) :
    run specOffFacts s evs = evs.foldl stepSpec s ∧ Free (run specOffFacts s evs) := by
  induction evs generalizing s with
  | nil => exact ⟨rfl, hf⟩
  | cons ev rest ih =>
    simp only [run, List.foldl_cons]
    rw [step_spec s hf ev]
    exact ih _ (stepSpec_free s hf ev)

/-! ### the permit invariant -/

/-- Permit accounting: with a cap every running handler holds a permit, the number of permits taken is
the number of running handlers and is within the cap; without a cap nothing is taken. -/
def Inv (s : St) : Prop :=
  Free s ∧
  match s.cap with
  | none => s.permits = 0 ∧ ∀ r ∈ s.running, r.permit = false
  | some c => s.permits = s.running.length ∧ s.running.length ≤ c ∧ ∀ r ∈ s.running, r.permit = true

theorem inv_init (cap : Option Nat) : Inv (St.init cap) := by
  refine ⟨⟨rfl, rfl⟩, ?_⟩
  cases cap <;> simp [St.init]

theorem stepSpec_cap (s : St) (ev : Ev) : (stepSpec s ev).cap = s.cap := by
  cases ev with
  | arrive a =>
    simp only [stepSpec]
    cases a.route with
    | inline => simp
    | blocking =>
      cases s.cap with
      | none => rfl
      | some c => simp only; split <;> simp
  | exit id k =>
    simp only [stepSpec]
    cases takeRun id s.running with
    | none => rfl
    | some p => obtain ⟨r, rest⟩ := p; cases k <;> simp

theorem stepSpec_inv (s : St) (hi : Inv s) (ev : Ev) : Inv (stepSpec s ev) := by
  obtain ⟨hf, hc⟩ := hi
  refine ⟨stepSpec_free s hf ev, ?_⟩
  cases ev with
  | arrive a =>
    simp only [stepSpec]
    cases a.route with
    | inline => simpa using hc
    | blocking =>
      cases hcap : s.cap with
      | none =>
        rw [hcap] at hc
        skip
        refine ⟨hc.1, ?_⟩
        intro r hr
        rcases List.mem_append.mp hr with hr | hr
        · exact hc.2 r hr
        · simp at hr; subst hr; rfl
      | some c =>
        rw [hcap] at hc
        obtain ⟨h1, h2, h3⟩ := hc
        simp only
        by_cases hp : s.permits < c
        · simp only [hp, if_true]
          refine ⟨by simp [h1], by simp; omega, ?_⟩
          intro r hr
          rcases List.mem_append.mp hr with hr | hr
          · exact h3 r hr
          · simp at hr; subst hr; rfl
        · simp only [hp, if_false, push_cap, push_permits, push_running]
          exact ⟨h1, h2, h3⟩
  | exit id k =>
    simp only [stepSpec]
    cases ht : takeRun id s.running with
    | none => exact hc
    | some p =>
      obtain ⟨r, rest⟩ := p
      obtain ⟨hm, _, hlen, hsub⟩ := takeRun_some ht
      have key : match s.cap with
          | none => (if r.permit then s.permits - 1 else s.permits) = 0 ∧ ∀ x ∈ rest, x.permit = false
          | some c => (if r.permit then s.permits - 1 else s.permits) = rest.length ∧ rest.length ≤ c ∧
              ∀ x ∈ rest, x.permit = true := by
        cases hcap : s.cap with
        | none =>
          rw [hcap] at hc
          simp only [hc.2 r hm]
          exact ⟨hc.1, fun x hx => hc.2 x (hsub x hx)⟩
        | some c =>
          rw [hcap] at hc
          obtain ⟨h1, h2, h3⟩ := hc
          simp only [h3 r hm, if_true]
          exact ⟨by omega, by omega, fun x hx => h3 x (hsub x hx)⟩
      cases k <;> simpa using key

theorem foldl_inv (s : St) (hi : Inv s) (evs : List Ev) : Inv (evs.foldl stepSpec s) := by
  induction evs generalizing s with
  | nil => exact hi
  | cons ev rest ih => exact ih _ (stepSpec_inv s hi ev)

theorem foldl_cap (s : St) (evs : List Ev) : (evs.foldl stepSpec s).cap = s.cap := by
  induction evs generalizing s with
  | nil => rfl
  | cons ev rest ih => simp only [List.foldl_cons]; rw [ih, stepSpec_cap]

/-! ### exiting everything -/

theorem exit_all (s : St) (ks : Run → ExitKind) :
    ((s.running.map (fun r => Ev.exit r.id (ks r))).foldl stepSpec s).running = [] := by
  generalize hl : s.running = l
  induction l generalizing s with
  | nil => simpa using hl
  | cons r rest ih =>
    simp only [List.map_cons, List.foldl_cons]
    have h1 : (stepSpec s (.exit r.id (ks r))).running = rest := by
      simp only [stepSpec, hl, takeRun_head]
      cases ks r <;> simp
    exact ih _ h1

/-! ### independence from one handler's exit kind -/

/-- Replace the exit kind of handler `h` by `k` everywhere. -/
def rekind (h : Nat) (k : ExitKind) : Ev → Ev
  | .exit id k' => if id = h then .exit id k else .exit id k'
  | e => e

/-- Two states that agree on everything except responses (and reports) that concern request `h`. -/
def SameBut (h : Nat) (s t : St) : Prop :=
  s.cap = t.cap ∧ s.permits = t.permits ∧ s.running = t.running ∧ s.readerBusy = t.readerBusy ∧
  s.backlog = t.backlog ∧ s.outbound.filter (·.id ≠ h) = t.outbound.filter (·.id ≠ h)

theorem SameBut.rfl' (h : Nat) (s : St) : SameBut h s s := ⟨rfl, rfl, rfl, rfl, rfl, rfl⟩

theorem filter_push (h : Nat) (s t : St) (n : Bool) (id ec : Nat)
    (ho : s.outbound.filter (·.id ≠ h) = t.outbound.filter (·.id ≠ h)) :
    (push s n id ec).outbound.filter (·.id ≠ h) = (push t n id ec).outbound.filter (·.id ≠ h) := by
  simp only [push_outbound, List.filter_append, ho]

theorem filter_push_h (h : Nat) (s t : St) (n n' : Bool) (ec ec' : Nat)
    (ho : s.outbound.filter (·.id ≠ h) = t.outbound.filter (·.id ≠ h)) :
    (push s n h ec).outbound.filter (·.id ≠ h) = (push t n' h ec').outbound.filter (·.id ≠ h) := by
  simp only [push_outbound, List.filter_append, ho]
  cases n <;> cases n' <;> simp

theorem stepSpec_sameBut (h : Nat) (k : ExitKind) (s t : St) (hs : SameBut h s t) (ev : Ev) :
    SameBut h (stepSpec s ev) (stepSpec t (rekind h k ev)) := by
  obtain ⟨hc, hp, hr, hb, hl, ho⟩ := hs
  cases ev with
  | arrive a =>
    simp only [rekind, stepSpec, ← hc, ← hp, ← hr]
    cases a.route with
    | inline => exact ⟨by simp [hc], by simp [hp], by simp [hr], by simp [hb], by simp [hl], filter_push h s t _ _ _ ho⟩
    | blocking =>
      cases hcs : s.cap with
      | none => exact ⟨by simp, by simp [hp], by simp, by simp [hb], by simp [hl], by simpa using ho⟩
      | some c =>
        by_cases hlt : s.permits < c
        · simp only [hlt, if_true]
          exact ⟨by simp, by simp, by simp, by simp [hb], by simp [hl], by simpa using ho⟩
        · simp only [hlt, if_false]
          refine ⟨by simp, by simp [hp], by simp [hr], by simp [hb], by simp [hl], ?_⟩
          exact filter_push h _ _ _ _ _ (by simpa using ho)
  | exit id k' =>
    by_cases hid : id = h
    · subst hid
      simp only [rekind, if_true, stepSpec, ← hr, ← hp]
      cases takeRun id s.running with
      | none => exact ⟨hc, hp, hr, hb, hl, ho⟩
      | some p =>
        obtain ⟨r, rest⟩ := p
        cases k' <;> cases k <;>
          exact ⟨by simp [hc], by simp, by simp, by simp [hb], by simp [hl],
            filter_push_h id _ _ _ _ _ _ (by simpa using ho)⟩
    · simp only [rekind, hid, if_false, stepSpec, ← hr, ← hp]
      cases takeRun id s.running with
      | none => exact ⟨hc, hp, hr, hb, hl, ho⟩
      | some p =>
        obtain ⟨r, rest⟩ := p
        cases k' <;>
          exact ⟨by simp [hc], by simp, by simp, by simp [hb], by simp [hl],
            filter_push h _ _ _ _ _ (by simpa using ho)⟩

theorem foldl_sameBut (h : Nat) (k : ExitKind) (s t : St) (hs : SameBut h s t) (evs : List Ev) :
    SameBut h (evs.foldl stepSpec s) ((evs.map (rekind h k)).foldl stepSpec t) := by
  induction evs generalizing s t with
  | nil => exact hs
  | cons ev rest ih =>
    simp only [List.map_cons, List.foldl_cons]
    exact ih _ _ (stepSpec_sameBut h k s t hs ev)

/-! ### several connections -/

/-- What `respOf`/`exitOf`/composition statements use: the id and code of a message. -/
def respOf (m : Message) : Resp := ⟨m.header.id, m.header.ec⟩

/-- How this model's exit kinds read a handler outcome of C03's model. -/
def exitOf : HOut → ExitKind
  | .ok _ => .ret
  | .err c _ => .err c

theorem inv_outbound (t : St) (o : List Resp) : Inv { t with outbound := o } ↔ Inv t := by
  unfold Inv Free; simp

theorem modifyNth_mem {α} (l : List α) (i : Nat) (g : α → α) (x : α) (hx : x ∈ modifyNth l i g) :
    x ∈ l ∨ ∃ a ∈ l, x = g a := by
  induction l generalizing i with
  | nil => simp [modifyNth] at hx
  | cons a rest ih =>
    cases i with
    | zero =>
      simp only [modifyNth, List.mem_cons] at hx
      rcases hx with hx | hx
      · exact .inr ⟨a, List.mem_cons_self .., hx⟩
      · exact .inl (List.mem_cons_of_mem _ hx)
    | succ i =>
      simp only [modifyNth, List.mem_cons] at hx
      rcases hx with hx | hx
      · subst hx; exact .inl (List.mem_cons_self ..)
      · rcases ih i hx with h | ⟨b, hb, he⟩
        · exact .inl (List.mem_cons_of_mem _ h)
        · exact .inr ⟨b, List.mem_cons_of_mem _ hb, he⟩

theorem modifyNth_getElem?_ne {α} (l : List α) (i j : Nat) (g : α → α) (h : j ≠ i) :
    (modifyNth l i g)[j]? = l[j]? := by
  induction l generalizing i j with
  | nil => simp [modifyNth]
  | cons a rest ih =>
    cases i with
    | zero =>
      cases j with
      | zero => exact absurd rfl h
      | succ j => simp [modifyNth]
    | succ i =>
      cases j with
      | zero => simp [modifyNth]
      | succ j => simp only [modifyNth, List.getElem?_cons_succ]; exact ih i j (by omega)

theorem modifyNth_length {α} (l : List α) (i : Nat) (g : α → α) : (modifyNth l i g).length = l.length := by
  induction l generalizing i with
  | nil => rfl
  | cons a rest ih => cases i <;> simp [modifyNth, ih]

/-- A connection step under the specification facts keeps the permit invariant and the cap, open or closed. -/
theorem connStep_inv (c : Conn) (hi : Inv c.st) (e : Ev) :
    Inv (connStep specOffFacts c e).st ∧ (connStep specOffFacts c e).st.cap = c.st.cap ∧
    (connStep specOffFacts c e).closed = c.closed := by
  by_cases hc : c.closed = true
  · cases e with
    | arrive a =>
      have : connStep specOffFacts c (.arrive a) = c := by simp [connStep, hc]
      rw [this]; exact ⟨hi, rfl, rfl⟩
    | exit id k =>
      have : connStep specOffFacts c (.exit id k) =
          { c with st := { (step specOffFacts c.st (.exit id k)) with outbound := c.st.outbound } } := by
        simp [connStep, hc]
      rw [this]
      refine ⟨?_, ?_, rfl⟩
      · show Inv { (step specOffFacts c.st (.exit id k)) with outbound := c.st.outbound }
        rw [inv_outbound, step_spec c.st hi.1]; exact stepSpec_inv c.st hi _
      · show (step specOffFacts c.st (.exit id k)).cap = c.st.cap
        rw [step_spec c.st hi.1, stepSpec_cap]
  · have : connStep specOffFacts c e = { c with st := step specOffFacts c.st e } := by
      simp [connStep, hc]
    rw [this]
    refine ⟨?_, ?_, rfl⟩
    · show Inv (step specOffFacts c.st e); rw [step_spec c.st hi.1]; exact stepSpec_inv c.st hi _
    · show (step specOffFacts c.st e).cap = c.st.cap; rw [step_spec c.st hi.1, stepSpec_cap]

theorem srun_inv (cf : CapFacts) (setting : CapSetting) (evs : List SEv) (conns : List Conn)
    (h0 : ∀ c ∈ conns, Inv c.st ∧ c.st.cap = connectionCap cf setting) :
    ∀ c ∈ evs.foldl (sstep specOffFacts cf setting) conns,
      Inv c.st ∧ c.st.cap = connectionCap cf setting := by
  induction evs generalizing conns with
  | nil => exact h0
  | cons e rest ih =>
    simp only [List.foldl_cons]
    apply ih
    intro c hc
    cases e with
    | connect =>
      simp only [sstep] at hc
      rcases List.mem_append.mp hc with hc | hc
      · exact h0 c hc
      · simp at hc; subst hc; exact ⟨inv_init _, rfl⟩
    | ev i e =>
      simp only [sstep] at hc
      rcases modifyNth_mem _ _ _ _ hc with hc | ⟨a, ha, he⟩
      · exact h0 c hc
      · subst he
        obtain ⟨h1, h2, _⟩ := connStep_inv a (h0 a ha).1 e
        exact ⟨h1, by rw [h2]; exact (h0 a ha).2⟩
    | disconnect i =>
      simp only [sstep] at hc
      rcases modifyNth_mem _ _ _ _ hc with hc | ⟨a, ha, he⟩
      · exact h0 c hc
      · subst he; exact h0 a ha

end Repe
