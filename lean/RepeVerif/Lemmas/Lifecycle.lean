import RepeVerif.Model.Lifecycle
/-! Helper lemmas for the `lifecycle` model (C15): invariants of the transition system, proved
step by step and lifted to every run.  Core Lean only. -/
namespace Repe.Lifecycle

theorem connects_succ (k : Nat) : connects (k + 1) = connects k ++ [.connect k] := by
  simp [connects, List.range_succ]

@[simp] theorem connects_zero : connects 0 = [] := rfl

theorem facts_ok {F : Facts} (h : F.ok = true) :
    F.writerBeforeGuard = true ∧ F.guardBeforeHooks = true ∧ F.guardInReaderBlock = true ∧
    F.hooksBeforeReader = true ∧ F.cancelBeforeHooks = true ∧ F.abortOnDrop = true := by
  simpa [Facts.ok, and_assoc] using h

/-! ### runs -/

theorem run_append (c : Cfg) (s : St) (as bs : List Act) :
    run c s (as ++ bs) = (run c s as).bind (fun s' => run c s' bs) := by
  induction as generalizing s with
  | nil => simp [run]
  | cons a as ih =>
    simp only [List.cons_append, run]
    cases step c s a with
    | none => simp
    | some s' => simpa using ih s'

/-- Induction principle: a predicate that holds initially and is preserved by every enabled move
holds in every reachable state. -/
theorem reachable_induction {c : Cfg} {P : St → Prop} (h0 : P init)
    (hstep : ∀ s a s', P s → step c s a = some s' → P s') : ∀ s, Reachable c s → P s := by
  intro s ⟨as, hr⟩
  have gen : ∀ (as : List Act) (s0 : St), P s0 → run c s0 as = some s → P s := by
    intro as
    induction as with
    | nil => intro s0 h0 hr; simp [run] at hr; exact hr ▸ h0
    | cons a as ih =>
      intro s0 h0 hr
      simp only [run] at hr
      cases hs : step c s0 a with
      | none => simp [hs] at hr
      | some s1 => rw [hs] at hr; exact ih s1 (hstep s0 a s1 h0 hs) hr
  exact gen as init h0 hr

/-- The same from any state: a step-preserved predicate is preserved by runs. -/
theorem run_preserves {c : Cfg} {P : St → Prop} (hstep : ∀ s a s', P s → step c s a = some s' → P s')
    {s s' : St} {as : List Act} (h : P s) (hr : run c s as = some s') : P s' := by
  induction as generalizing s with
  | nil => simp [run] at hr; exact hr ▸ h
  | cons a as ih =>
    simp only [run] at hr
    cases hs : step c s a with
    | none => simp [hs] at hr
    | some s1 => rw [hs] at hr; exact ih (hstep s a s1 h hs) hr

/-! ### the drop guard -/

theorem dropGuard_armed (c : Cfg) (s : St) (h : s.guard = .armed) :
    dropGuard c s = { s with guard := .dropped, token := true, trace := s.trace ++ dropEvents c.F c.nDisc s.token } := by
  simp [dropGuard, h]

theorem dropGuard_not_armed (c : Cfg) (s : St) (h : s.guard ≠ .armed) : dropGuard c s = s := by
  unfold dropGuard
  cases hg : s.guard <;> simp_all

theorem dropEvents_good (F : Facts) (h : F.cancelBeforeHooks = true) (n : Nat) (tok : Bool) :
    dropEvents F n tok = .cancel :: disconnects n := by
  simp [dropEvents, h, disconnects]

/-! ### invariant 1: hooks -/

/-- What the phase says about the hook counter and the guard (for an accepted connection, with the
source's placement of the guard). -/
def PhaseOk (nConn : Nat) : Phase → Nat → Guard → Prop
  | .handshake, _, _ => False
  | .hooks i, k, g => k = i ∧ g = .armed
  | .inHook i, k, g => k = i + 1 ∧ g = .armed
  | .reading, k, g => k = nConn ∧ g = .armed
  | .inline, k, g => k = nConn ∧ g = .armed
  | .sendBlocked _, k, g => k = nConn ∧ g = .armed
  | .draining, k, g => k = nConn ∧ g = .dropped
  | .done, _, g => g = .dropped

/-- The hook trace has exactly the shape `connect 0 … connect (k-1)` followed, once the guard has
dropped, by `cancel, disconnect 0 … disconnect (n-1)` (each having seen the token cancelled). -/
structure HInv (c : Cfg) (s : St) : Prop where
  le : s.started ≤ c.nConn
  tok : s.guard = .dropped → s.token = true
  pre : s.accepted = false →
    s.trace = [] ∧ s.guard = .unarmed ∧ s.started = 0 ∧ (s.phase = .handshake ∨ s.phase = .done)
  shape : s.accepted = true →
    s.trace = connects s.started ++ (if s.guard = .dropped then .cancel :: disconnects c.nDisc else [])
  phase : s.accepted = true → PhaseOk c.nConn s.phase s.started s.guard

theorem hinv_init (c : Cfg) : HInv c init :=
  ⟨Nat.zero_le _, by simp [init], by simp [init], by simp [init], by simp [init]⟩

/-- `exitBlock` from a state whose guard is armed (good facts). -/
theorem hinv_exitBlock {c : Cfg} (hF : c.F.ok = true) {s : St} (h : HInv c s) (ha : s.accepted = true)
    (hk : s.started = c.nConn) (hg : s.guard = .armed) : HInv c (exitBlock c s) := by
  obtain ⟨_, _, hib, _, hcb, _⟩ := facts_ok hF
  have hshape := h.shape ha
  simp only [hg] at hshape
  unfold exitBlock
  simp only [hib, if_true, dropGuard_armed c s hg, dropEvents_good c.F hcb]
  refine ⟨h.le, by simp, by simp [ha], ?_, ?_⟩
  · intro _; simp [hshape]
  · intro _; simp [PhaseOk, hk]

/-- `teardown` (unwind / future dropped) of an accepted connection whose guard is armed or dropped. -/
theorem hinv_teardown {c : Cfg} (hF : c.F.ok = true) {s : St} (h : HInv c s) (ha : s.accepted = true)
    (hg : s.guard = .armed ∨ s.guard = .dropped) : HInv c (teardown c s) := by
  obtain ⟨_, _, _, _, hcb, _⟩ := facts_ok hF
  have hshape := h.shape ha
  unfold teardown
  rcases hg with hg | hg
  · simp only [hg] at hshape
    simp only [dropGuard_armed c s hg, dropEvents_good c.F hcb]
    refine ⟨h.le, by simp, by simp [ha], ?_, ?_⟩
    · intro _; simp [hshape]
    · intro _; simp [PhaseOk]
  · have hne : s.guard ≠ .armed := by simp [hg]
    simp only [dropGuard_not_armed c s hne]
    refine ⟨h.le, by simpa using h.tok, by simp [ha], ?_, ?_⟩
    · intro _; simpa using hshape
    · intro _; simp [PhaseOk, hg]

theorem hinv_step {c : Cfg} (hF : c.F.ok = true) (s : St) (a : Act) (s' : St)
    (h : HInv c s) (hs : step c s a = some s') : HInv c s' := by
  obtain ⟨_, hgb, hib, _, hcb, _⟩ := facts_ok hF
  cases a with
  | handshakeFail =>
    simp only [step] at hs
    split at hs <;> simp at hs
    subst hs
    rename_i hp
    refine ⟨h.le, h.tok, ?_, ?_, ?_⟩
    · intro ha; have := h.pre ha; simp [this]
    · intro ha; have := h.phase ha; simp [hp, PhaseOk] at this
    · intro ha; have := h.phase ha; simp [hp, PhaseOk] at this
  | handshakeOk =>
    simp only [step, hgb, if_true] at hs
    split at hs <;> simp at hs
    subst hs
    rename_i hp
    have hna : s.accepted = false := by
      cases ha : s.accepted with
      | false => rfl
      | true => have := h.phase ha; simp [hp, PhaseOk] at this
    obtain ⟨htr, _, hst, _⟩ := h.pre hna
    refine ⟨by simp [arm, hst], by simp [arm], by simp [arm], ?_, ?_⟩
    · intro _; simp [arm, htr, hst]
    · intro _; simp [arm, PhaseOk, hst]
  | hookStart =>
    simp only [step] at hs
    split at hs <;> try simp at hs
    rename_i i hp
    obtain ⟨hi, hs⟩ := hs
    subst hs
    have ha : s.accepted = true := by
      cases ha : s.accepted with
      | true => rfl
      | false => have := (h.pre ha).2.2.2; simp [hp] at this
    have hph := h.phase ha
    simp only [hp, PhaseOk] at hph
    have hshape := h.shape ha
    simp only [hph.2] at hshape
    refine ⟨by (show i + 1 ≤ c.nConn); omega, by simp [hph.2], by simp [ha], ?_, ?_⟩
    · intro _; simp [hph.2, connects_succ, hshape, hph.1]
    · intro _; simp [PhaseOk, hph.2]
  | hookNotify k =>
    simp only [step] at hs
    split at hs <;> simp at hs
    subst hs
    have e : ∀ f, (trySend c s f).phase = s.phase ∧ (trySend c s f).accepted = s.accepted ∧
        (trySend c s f).guard = s.guard ∧ (trySend c s f).token = s.token ∧
        (trySend c s f).started = s.started ∧ (trySend c s f).trace = s.trace := by
      intro f; unfold trySend enqueue; split <;> simp
    obtain ⟨e1, e2, e3, e4, e5, e6⟩ := e (.connNotify _ k)
    exact ⟨by rw [e5]; exact h.le, by rw [e3, e4]; exact h.tok, by rw [e2, e6, e3, e5, e1]; exact h.pre,
      by rw [e2, e6, e3, e5]; exact h.shape, by rw [e2, e1, e5, e3]; exact h.phase⟩
  | hookReturn =>
    simp only [step] at hs
    split at hs <;> simp at hs
    rename_i i hp
    subst hs
    have ha : s.accepted = true := by
      cases ha : s.accepted with
      | true => rfl
      | false => have := (h.pre ha).2.2.2; simp [hp] at this
    have hph := h.phase ha
    simp only [hp, PhaseOk] at hph
    refine ⟨h.le, h.tok, by simp [ha], by simpa using h.shape, ?_⟩
    intro _; simp [PhaseOk, hph]
  | hookPanic =>
    simp only [step] at hs
    split at hs <;> simp at hs
    rename_i i hp
    subst hs
    have ha : s.accepted = true := by
      cases ha : s.accepted with
      | true => rfl
      | false => have := (h.pre ha).2.2.2; simp [hp] at this
    have hph := h.phase ha
    simp only [hp, PhaseOk] at hph
    exact hinv_teardown hF h ha (Or.inl hph.2)
  | enterReader =>
    simp only [step, hgb, if_true] at hs
    split at hs <;> try simp at hs
    rename_i i hp
    obtain ⟨hi, hs⟩ := hs
    subst hs
    have ha : s.accepted = true := by
      cases ha : s.accepted with
      | true => rfl
      | false => have := (h.pre ha).2.2.2; simp [hp] at this
    have hph := h.phase ha
    simp only [hp, PhaseOk] at hph
    have hle := h.le
    refine ⟨h.le, h.tok, by simp [ha], by simpa using h.shape, ?_⟩
    intro _; simp only [PhaseOk]; exact ⟨by omega, hph.2⟩
  | earlyResponse id =>
    obtain ⟨_, _, _, hhr, _, _⟩ := facts_ok hF
    simp only [step, hhr, if_true] at hs
    split at hs <;> simp at hs
  | recvInline =>
    simp only [step] at hs
    split at hs <;> simp at hs
    rename_i hp
    subst hs
    refine ⟨h.le, h.tok, ?_, by simpa using h.shape, ?_⟩
    · intro ha; have := (h.pre ha).2.2.2; simp [hp] at this
    · intro ha; have := h.phase ha; simpa [hp, PhaseOk] using this
  | inlineReturn resp =>
    simp only [step] at hs
    split at hs <;> try simp at hs
    rename_i hp
    have ha : s.accepted = true := by
      cases ha : s.accepted with
      | true => rfl
      | false => have := (h.pre ha).2.2.2; simp [hp] at this
    have hph := h.phase ha
    simp only [hp, PhaseOk] at hph
    cases resp with
    | none =>
      simp at hs; subst hs
      exact ⟨h.le, h.tok, by simp [ha], by simpa using h.shape, by intro _; simpa [PhaseOk] using hph⟩
    | some id =>
      simp only at hs
      split at hs
      · simp at hs; subst hs; exact hinv_exitBlock hF h ha hph.1 hph.2
      · split at hs <;> simp at hs <;> subst hs
        · exact ⟨h.le, h.tok, by simp [enqueue, ha],
            h.shape, by intro _; simpa [PhaseOk, enqueue] using hph⟩
        · exact ⟨h.le, h.tok, by simp [ha], by simpa using h.shape, by intro _; simpa [PhaseOk] using hph⟩
  | inlinePanic =>
    simp only [step] at hs
    split at hs <;> simp at hs
    rename_i hp
    subst hs
    have ha : s.accepted = true := by
      cases ha : s.accepted with
      | true => rfl
      | false => have := (h.pre ha).2.2.2; simp [hp] at this
    have hph := h.phase ha
    simp only [hp, PhaseOk] at hph
    exact hinv_teardown hF h ha (Or.inl hph.2)
  | recvOff hh =>
    simp only [step] at hs
    split at hs <;> simp at hs
    subst hs
    exact ⟨h.le, h.tok, h.pre, h.shape, h.phase⟩
  | sendUnblocked =>
    simp only [step] at hs
    split at hs <;> try simp at hs
    rename_i f hp
    obtain ⟨_, hs⟩ := hs
    subst hs
    have ha : s.accepted = true := by
      cases ha : s.accepted with
      | true => rfl
      | false => have := (h.pre ha).2.2.2; simp [hp] at this
    have hph := h.phase ha
    simp only [hp, PhaseOk] at hph
    exact ⟨h.le, h.tok, by simp [enqueue, ha],
      h.shape, by intro _; simpa [PhaseOk, enqueue] using hph⟩
  | sendClosed =>
    simp only [step] at hs
    split at hs <;> try simp at hs
    rename_i f hp
    obtain ⟨_, hs⟩ := hs
    subst hs
    have ha : s.accepted = true := by
      cases ha : s.accepted with
      | true => rfl
      | false => have := (h.pre ha).2.2.2; simp [hp] at this
    have hph := h.phase ha
    simp only [hp, PhaseOk] at hph
    exact hinv_exitBlock hF h ha hph.1 hph.2
  | readerExit cause =>
    simp only [step] at hs
    split at hs <;> simp at hs
    rename_i hp
    subst hs
    have ha : s.accepted = true := by
      cases ha : s.accepted with
      | true => rfl
      | false => have := (h.pre ha).2.2.2; simp [hp] at this
    have hph := h.phase ha
    simp only [hp, PhaseOk] at hph
    exact hinv_exitBlock hF h ha hph.1 hph.2
  | selectCancelled =>
    simp only [step] at hs
    split at hs <;> try simp at hs
    split at hs <;> simp at hs
    all_goals
      rename_i hp
      subst hs
      have ha : s.accepted = true := by
        cases ha : s.accepted with
        | true => rfl
        | false => have := (h.pre ha).2.2.2; simp [hp] at this
      have hph := h.phase ha
      simp only [hp, PhaseOk] at hph
      exact hinv_exitBlock hF h ha hph.1 hph.2
  | writerJoined =>
    simp only [step] at hs
    split at hs <;> try simp at hs
    rename_i hp
    obtain ⟨_, hs⟩ := hs
    subst hs
    have ha : s.accepted = true := by
      cases ha : s.accepted with
      | true => rfl
      | false => have := (h.pre ha).2.2.2; simp [hp] at this
    have hph := h.phase ha
    simp only [hp, PhaseOk] at hph
    have hne : s.guard ≠ .armed := by simp [hph.2]
    unfold finish
    rw [dropGuard_not_armed c s hne]
    exact ⟨h.le, h.tok, by simp [ha], by simpa using h.shape, by intro _; simp [PhaseOk, hph.2]⟩
  | abort =>
    simp only [step] at hs
    split at hs <;> simp at hs
    all_goals
      rename_i hp
      subst hs
    · -- handshake: nothing is alive yet
      have hna : s.accepted = false := by
        cases ha : s.accepted with
        | false => rfl
        | true => have := h.phase ha; simp [hp, PhaseOk] at this
      obtain ⟨htr, hg, hst, _⟩ := h.pre hna
      have hne : s.guard ≠ .armed := by simp [hg]
      unfold teardown
      rw [dropGuard_not_armed c s hne]
      exact ⟨h.le, h.tok, by simp [htr, hg, hst], by simp [hna], by simp [hna]⟩
    all_goals
      have ha : s.accepted = true := by
        cases ha : s.accepted with
        | true => rfl
        | false => have := (h.pre ha).2.2.2; simp [hp] at this
      have hph := h.phase ha
      simp only [hp, PhaseOk] at hph
    · exact hinv_teardown hF h ha (Or.inl hph.2)
    · exact hinv_teardown hF h ha (Or.inl hph.2)
    · exact hinv_teardown hF h ha (Or.inr hph.2)
  | parentCancel =>
    simp only [step] at hs
    split at hs <;> simp at hs
    subst hs
    exact ⟨h.le, by simp, h.pre, h.shape, h.phase⟩
  | otherNotify n =>
    simp only [step] at hs
    split at hs <;> simp at hs
    subst hs
    have e : ∀ f, (trySend c s f).phase = s.phase ∧ (trySend c s f).accepted = s.accepted ∧
        (trySend c s f).guard = s.guard ∧ (trySend c s f).token = s.token ∧
        (trySend c s f).started = s.started ∧ (trySend c s f).trace = s.trace := by
      intro f; unfold trySend enqueue; split <;> simp
    obtain ⟨e1, e2, e3, e4, e5, e6⟩ := e (.otherNotify n)
    exact ⟨by rw [e5]; exact h.le, by rw [e3, e4]; exact h.tok, by rw [e2, e6, e3, e5, e1]; exact h.pre,
      by rw [e2, e6, e3, e5]; exact h.shape, by rw [e2, e1, e5, e3]; exact h.phase⟩
  | offFinish hh resp =>
    simp only [step] at hs
    split at hs <;> try simp at hs
    cases resp with
    | none => simp at hs; subst hs; exact ⟨h.le, h.tok, h.pre, h.shape, h.phase⟩
    | some id =>
      simp only at hs
      split at hs
      · simp at hs; subst hs; exact ⟨h.le, h.tok, h.pre, h.shape, h.phase⟩
      · split at hs <;> simp at hs
        subst hs
        exact ⟨h.le, h.tok, h.pre,
          h.shape, h.phase⟩
  | writerSend =>
    simp only [step] at hs
    split at hs <;> try simp at hs
    split at hs <;> simp at hs
    subst hs
    exact ⟨h.le, h.tok, h.pre, h.shape, h.phase⟩
  | writerDrop =>
    simp only [step] at hs
    split at hs <;> try simp at hs
    split at hs <;> try simp at hs
    obtain ⟨_, hs⟩ := hs
    subst hs
    exact ⟨h.le, h.tok, h.pre, h.shape, h.phase⟩
  | writerFail =>
    simp only [step] at hs
    split at hs <;> simp at hs
    subst hs
    exact ⟨h.le, h.tok, h.pre, h.shape, h.phase⟩
  | writerFinish =>
    simp only [step] at hs
    split at hs <;> simp at hs
    subst hs
    exact ⟨h.le, h.tok, h.pre, h.shape, h.phase⟩

theorem hinv_reachable {c : Cfg} (hF : c.F.ok = true) {s : St} (hr : Reachable c s) : HInv c s :=
  reachable_induction (hinv_init c) (fun s a s' h hs => hinv_step hF s a s' h hs) s hr

/-! ### invariant 2: the outbound channel is a FIFO and responses start after the connect hooks -/

/-- Phases before the `select!` over `reader_task` is entered. -/
def preReader : Phase → Bool
  | .handshake => true
  | .hooks _ => true
  | .inHook _ => true
  | _ => false

/-- "`a` before `b`" is allowed: not (a response before a connect-hook notify). -/
def NotifyFirst (a b : Frame) : Prop := ¬(a.isResponse = true ∧ b.isConnNotify = true)

structure WInv (s : St) : Prop where
  /-- what is on the wire followed by what is still queued is the accepted frames, in order, with gaps -/
  sub : (s.wire ++ s.queue).Sublist s.log
  ord : s.log.Pairwise NotifyFirst
  pre : preReader s.phase = true → (∀ f ∈ s.log, f.isResponse = false) ∧ s.handlers = []

theorem winv_init : WInv init := ⟨by simp [init], by simp [init], by simp [init]⟩

theorem winv_enqueue {s : St} (h : WInv s) (f : Frame)
    (hf : f.isConnNotify = true → ∀ a ∈ s.log, a.isResponse = false) :
    (((enqueue s f).wire ++ (enqueue s f).queue).Sublist (enqueue s f).log) ∧
    (enqueue s f).log.Pairwise NotifyFirst := by
  simp only [enqueue]
  refine ⟨?_, ?_⟩
  · rw [← List.append_assoc]; exact List.Sublist.append h.sub (List.Sublist.refl _)
  · rw [List.pairwise_append]
    refine ⟨h.ord, by simp, ?_⟩
    intro a ha b hb
    simp only [List.mem_singleton] at hb
    subst hb
    intro ⟨h1, h2⟩
    have := hf h2 a ha
    simp [h1] at this

theorem winv_trySend {c : Cfg} {s : St} (h : WInv s) (f : Frame) (hr : f.isResponse = false)
    (hf : f.isConnNotify = true → ∀ a ∈ s.log, a.isResponse = false) : WInv (trySend c s f) := by
  unfold trySend
  split
  · obtain ⟨h1, h2⟩ := winv_enqueue h f hf
    refine ⟨h1, h2, ?_⟩
    intro hp
    have := h.pre hp
    refine ⟨?_, this.2⟩
    intro a ha
    simp only [enqueue, List.mem_append, List.mem_singleton] at ha
    rcases ha with ha | ha
    · exact this.1 a ha
    · exact ha ▸ hr
  · exact h

/-- States that differ from `s` only in fields the channel invariant does not read, with a phase
that is not before the reader. -/
theorem winv_of_eq {s s' : St} (h : WInv s) (h1 : s'.wire = s.wire) (h2 : s'.queue = s.queue)
    (h3 : s'.log = s.log) (h4 : preReader s'.phase = true → preReader s.phase = true ∧ s'.handlers = s.handlers) :
    WInv s' := by
  refine ⟨by rw [h1, h2, h3]; exact h.sub, by rw [h3]; exact h.ord, ?_⟩
  intro hp
  obtain ⟨hp', hh⟩ := h4 hp
  rw [h3, hh]
  exact h.pre hp'

theorem dropGuard_chan (c : Cfg) (s : St) :
    (dropGuard c s).wire = s.wire ∧ (dropGuard c s).queue = s.queue ∧ (dropGuard c s).log = s.log ∧
    (dropGuard c s).handlers = s.handlers ∧ (dropGuard c s).phase = s.phase ∧ (dropGuard c s).writer = s.writer ∧
    (dropGuard c s).accepted = s.accepted := by
  unfold dropGuard; split <;> simp

theorem winv_exitBlock {c : Cfg} {s : St} (h : WInv s) : WInv (exitBlock c s) := by
  obtain ⟨e1, e2, e3, _⟩ := dropGuard_chan c s
  unfold exitBlock
  split
  · exact winv_of_eq h (by simpa using e1) (by simpa using e2) (by simpa using e3) (by simp [preReader])
  · exact winv_of_eq h rfl rfl rfl (by simp [preReader])

theorem winv_teardown {c : Cfg} {s : St} (h : WInv s) : WInv (teardown c s) := by
  obtain ⟨e1, e2, e3, _⟩ := dropGuard_chan c s
  unfold teardown
  exact winv_of_eq h (by simpa using e1) (by simpa using e2) (by simpa using e3) (by simp [preReader])

theorem winv_step {c : Cfg} (hR : c.F.hooksBeforeReader = true) (s : St) (a : Act) (s' : St) (h : WInv s)
    (hs : step c s a = some s') : WInv s' := by
  cases a with
  | earlyResponse id =>
    simp only [step, hR, if_true] at hs
    split at hs <;> simp at hs
  | handshakeFail =>
    simp only [step] at hs
    split at hs <;> simp at hs
    subst hs
    exact winv_of_eq h rfl rfl rfl (by simp [preReader])
  | handshakeOk =>
    simp only [step] at hs
    split at hs <;> simp at hs
    rename_i hp
    subst hs
    split
    · exact winv_of_eq h rfl rfl rfl (by simp [preReader, hp, arm])
    · exact winv_of_eq h rfl rfl rfl (by simp [preReader, hp])
  | hookStart =>
    simp only [step] at hs
    split at hs <;> try simp at hs
    rename_i i hp
    obtain ⟨_, hs⟩ := hs
    subst hs
    exact winv_of_eq h rfl rfl rfl (by simp [preReader, hp])
  | hookNotify k =>
    simp only [step] at hs
    split at hs <;> simp at hs
    rename_i i hp
    subst hs
    exact winv_trySend h _ rfl (fun _ => (h.pre (by simp [preReader, hp])).1)
  | hookReturn =>
    simp only [step] at hs
    split at hs <;> simp at hs
    rename_i i hp
    subst hs
    exact winv_of_eq h rfl rfl rfl (by simp [preReader, hp])
  | hookPanic =>
    simp only [step] at hs
    split at hs <;> simp at hs
    subst hs
    exact winv_teardown h
  | enterReader =>
    simp only [step] at hs
    split at hs <;> try simp at hs
    obtain ⟨_, hs⟩ := hs
    subst hs
    split
    · exact winv_of_eq h rfl rfl rfl (by simp [preReader])
    · exact winv_of_eq h rfl rfl rfl (by simp [preReader])
  | recvInline =>
    simp only [step] at hs
    split at hs <;> simp at hs
    subst hs
    exact winv_of_eq h rfl rfl rfl (by simp [preReader])
  | inlineReturn resp =>
    simp only [step] at hs
    split at hs <;> try simp at hs
    cases resp with
    | none => simp at hs; subst hs; exact winv_of_eq h rfl rfl rfl (by simp [preReader])
    | some id =>
      simp only at hs
      split at hs
      · simp at hs; subst hs; exact winv_exitBlock h
      · split at hs <;> simp at hs <;> subst hs
        · obtain ⟨h1, h2⟩ := winv_enqueue h (.response id) (by simp [Frame.isConnNotify])
          exact ⟨h1, h2, by simp [preReader]⟩
        · exact winv_of_eq h rfl rfl rfl (by simp [preReader])
  | inlinePanic =>
    simp only [step] at hs
    split at hs <;> simp at hs
    subst hs
    exact winv_teardown h
  | recvOff hh =>
    simp only [step] at hs
    split at hs <;> simp at hs
    rename_i hp
    subst hs
    exact winv_of_eq h rfl rfl rfl (by simp [preReader, hp])
  | sendUnblocked =>
    simp only [step] at hs
    split at hs <;> try simp at hs
    rename_i f hp
    obtain ⟨_, hs⟩ := hs
    subst hs
    obtain ⟨h1, h2⟩ := winv_enqueue h (.response f) (by simp [Frame.isConnNotify])
    exact ⟨h1, h2, by simp [preReader]⟩
  | sendClosed =>
    simp only [step] at hs
    split at hs <;> try simp at hs
    obtain ⟨_, hs⟩ := hs
    subst hs
    exact winv_exitBlock h
  | readerExit cause =>
    simp only [step] at hs
    split at hs <;> simp at hs
    subst hs
    exact winv_exitBlock h
  | selectCancelled =>
    simp only [step] at hs
    split at hs <;> try simp at hs
    split at hs <;> simp at hs
    all_goals
      subst hs
      exact winv_exitBlock h
  | writerJoined =>
    simp only [step] at hs
    split at hs <;> try simp at hs
    obtain ⟨_, hs⟩ := hs
    subst hs
    obtain ⟨e1, e2, e3, _⟩ := dropGuard_chan c s
    unfold finish
    exact winv_of_eq h (by simpa using e1) (by simpa using e2) (by simpa using e3) (by simp [preReader])
  | abort =>
    simp only [step] at hs
    split at hs <;> simp at hs
    all_goals
      subst hs
      exact winv_teardown h
  | parentCancel =>
    simp only [step] at hs
    split at hs <;> simp at hs
    subst hs
    exact winv_of_eq h rfl rfl rfl (fun hp => ⟨hp, rfl⟩)
  | otherNotify n =>
    simp only [step] at hs
    split at hs <;> simp at hs
    subst hs
    exact winv_trySend h _ rfl (by simp [Frame.isConnNotify])
  | offFinish hh resp =>
    simp only [step] at hs
    split at hs <;> try simp at hs
    rename_i hmem
    have hnp : preReader s.phase = false := by
      cases hp : preReader s.phase with
      | false => rfl
      | true => have := (h.pre hp).2; rw [this] at hmem; simp at hmem
    have base : WInv { s with handlers := s.handlers.erase hh } :=
      winv_of_eq h rfl rfl rfl (by simp [hnp])
    cases resp with
    | none => simp at hs; subst hs; exact base
    | some id =>
      simp only at hs
      split at hs
      · simp at hs; subst hs; exact base
      · split at hs <;> simp at hs
        subst hs
        obtain ⟨h1, h2⟩ := winv_enqueue base (.response id) (by simp [Frame.isConnNotify])
        exact ⟨h1, h2, by simp [enqueue, hnp]⟩
  | writerSend =>
    simp only [step] at hs
    split at hs <;> try simp at hs
    split at hs <;> simp at hs
    rename_i f q hq
    subst hs
    refine ⟨?_, h.ord, h.pre⟩
    have := h.sub
    rw [hq] at this
    simpa using this
  | writerDrop =>
    simp only [step] at hs
    split at hs <;> try simp at hs
    split at hs <;> try simp at hs
    rename_i f q hq
    obtain ⟨_, hs⟩ := hs
    subst hs
    refine ⟨?_, h.ord, h.pre⟩
    have := h.sub
    rw [hq] at this
    exact List.Sublist.trans (List.Sublist.append (List.Sublist.refl _) (List.sublist_cons_self f q)) this
  | writerFail =>
    simp only [step] at hs
    split at hs <;> simp at hs
    subst hs
    refine ⟨?_, h.ord, h.pre⟩
    exact List.Sublist.trans (by simp) h.sub
  | writerFinish =>
    simp only [step] at hs
    split at hs <;> simp at hs
    subst hs
    refine ⟨?_, h.ord, h.pre⟩
    exact List.Sublist.trans (by simp) h.sub

theorem winv_reachable {c : Cfg} (hR : c.F.hooksBeforeReader = true) {s : St} (hr : Reachable c s) : WInv s :=
  reachable_induction winv_init (fun s a s' h hs => winv_step hR s a s' h hs) s hr

/-! ### invariant 3: the writer task does not outlive the connection task; the token stays cancelled -/

theorem exitBlock_fields (c : Cfg) (s : St) :
    (exitBlock c s).phase = .draining ∧ (exitBlock c s).accepted = s.accepted ∧
    (exitBlock c s).writer = (if s.writer == .running || s.writer == .notSpawned then .signalled else s.writer) ∧
    (s.token = true → (exitBlock c s).token = true) := by
  obtain ⟨_, _, _, _, _, e6, e7⟩ := dropGuard_chan c s
  have ht : s.token = true → (dropGuard c s).token = true := by
    unfold dropGuard; split <;> simp
  unfold exitBlock
  split
  · simp only [e6, e7]; exact ⟨trivial, trivial, trivial, ht⟩
  · exact ⟨rfl, rfl, rfl, id⟩

theorem teardown_fields (c : Cfg) (s : St) :
    (teardown c s).phase = .done ∧ (teardown c s).accepted = s.accepted ∧
    (teardown c s).writer = (if s.writer == .running || s.writer == .signalled
      then (if c.F.abortOnDrop then .aborted else .signalled) else s.writer) ∧
    (s.token = true → (teardown c s).token = true) := by
  obtain ⟨_, _, _, _, _, e6, e7⟩ := dropGuard_chan c s
  have ht : s.token = true → (dropGuard c s).token = true := by
    unfold dropGuard; split <;> simp
  unfold teardown
  simp only [e6, e7]
  exact ⟨trivial, trivial, trivial, ht⟩

theorem finish_fields (c : Cfg) (s : St) :
    (finish c s).phase = .done ∧ (finish c s).accepted = s.accepted ∧ (finish c s).writer = s.writer ∧
    (s.token = true → (finish c s).token = true) := by
  obtain ⟨_, _, _, _, _, e6, e7⟩ := dropGuard_chan c s
  have ht : s.token = true → (dropGuard c s).token = true := by
    unfold dropGuard; split <;> simp
  unfold finish
  simp only [e6, e7]
  exact ⟨trivial, trivial, trivial, ht⟩

theorem trySend_fields (c : Cfg) (s : St) (f : Frame) :
    (trySend c s f).phase = s.phase ∧ (trySend c s f).accepted = s.accepted ∧
    (trySend c s f).writer = s.writer ∧ (trySend c s f).token = s.token := by
  unfold trySend enqueue; split <;> simp

/-- The writer has been spawned for every accepted connection, and once the connection task is
gone the writer is finished or aborted (needs `AbortOnDrop`). -/
structure RInv (s : St) : Prop where
  hs : s.phase = .handshake → s.accepted = false
  spawned : s.accepted = true → s.writer ≠ .notSpawned
  gone : s.accepted = true → s.phase = .done → s.writer = .finished ∨ s.writer = .aborted

theorem rinv_init : RInv init := ⟨by simp [init], by simp [init], by simp [init]⟩

theorem rinv_step {c : Cfg} (hA : c.F.abortOnDrop = true) (hW : c.F.writerBeforeGuard = true) (s : St) (a : Act) (s' : St)
    (h : RInv s) (hs : step c s a = some s') : RInv s' := by
  obtain ⟨x1, x2, x3, _⟩ := exitBlock_fields c s
  obtain ⟨t1, t2, t3, _⟩ := teardown_fields c s
  obtain ⟨f1, f2, f3, _⟩ := finish_fields c s
  have ts := trySend_fields c s
  obtain ⟨h1, h2, h3⟩ := h
  cases hw : s.writer <;>
  cases a <;> simp only [step] at hs <;> (repeat' split at hs) <;> (try (simp at hs)) <;>
    (try (obtain ⟨_, hs⟩ := hs)) <;> (try subst hs) <;>
    refine ⟨?_, ?_, ?_⟩ <;> simp_all [arm, enqueue]

theorem rinv_reachable {c : Cfg} (hA : c.F.abortOnDrop = true) (hW : c.F.writerBeforeGuard = true) {s : St}
    (hr : Reachable c s) : RInv s :=
  reachable_induction rinv_init (fun s a s' h hs => rinv_step hA hW s a s' h hs) s hr

/-- The connection token is never un-cancelled. -/
theorem token_step {c : Cfg} (s : St) (a : Act) (s' : St) (h : s.token = true) (hs : step c s a = some s') :
    s'.token = true := by
  obtain ⟨_, _, _, x4⟩ := exitBlock_fields c s
  obtain ⟨_, _, _, t4⟩ := teardown_fields c s
  obtain ⟨_, _, _, f4⟩ := finish_fields c s
  have ts := trySend_fields c s
  cases a <;> simp only [step] at hs <;> (repeat' split at hs) <;> (try (simp at hs)) <;>
    (try (obtain ⟨_, hs⟩ := hs)) <;> (try subst hs) <;> simp_all [arm, enqueue]

/-! ### counting and ordering in the expected trace shape -/

def Ev.isDisc (i : Nat) : Ev → Bool
  | .disconnect j _ => j == i
  | _ => false

def Ev.isConn (i : Nat) : Ev → Bool
  | .connect j => j == i
  | _ => false

def Ev.isDisconnect : Ev → Bool
  | .disconnect _ _ => true
  | _ => false

def Ev.isConnect : Ev → Bool
  | .connect _ => true
  | _ => false

theorem count_disc_connects (i k : Nat) : (connects k).countP (Ev.isDisc i) = 0 := by
  simp [connects, List.countP_eq_zero, Ev.isDisc]

theorem count_conn_disconnects (i n : Nat) : (disconnects n).countP (Ev.isConn i) = 0 := by
  simp [disconnects, List.countP_eq_zero, Ev.isConn]

theorem count_disc_disconnects (i n : Nat) : (disconnects n).countP (Ev.isDisc i) = if i < n then 1 else 0 := by
  induction n with
  | zero => simp [disconnects]
  | succ n ih =>
    have : disconnects (n + 1) = disconnects n ++ [.disconnect n true] := by
      simp [disconnects, List.range_succ]
    rw [this, List.countP_append, ih]
    by_cases h1 : i < n
    · have : ¬ n = i := by omega
      simp [h1, Ev.isDisc, this]; omega
    · by_cases h2 : n = i
      · subst h2; simp [Ev.isDisc]
      · have : ¬ i < n + 1 := by omega
        simp [h1, h2, Ev.isDisc, this]

theorem count_conn_connects (i k : Nat) : (connects k).countP (Ev.isConn i) = if i < k then 1 else 0 := by
  induction k with
  | zero => simp [connects]
  | succ n ih =>
    rw [connects_succ, List.countP_append, ih]
    by_cases h1 : i < n
    · have : ¬ n = i := by omega
      simp [h1, Ev.isConn, this]; omega
    · by_cases h2 : n = i
      · subst h2; simp [Ev.isConn]
      · have : ¬ i < n + 1 := by omega
        simp [h1, h2, Ev.isConn, this]

/-- In `connects k ++ cancel :: disconnects n` nothing that is a disconnect comes before a connect
or before the cancel, and every disconnect carries `true`. -/
theorem shape_order (k n : Nat) :
    ∀ pre e post, connects k ++ .cancel :: disconnects n = pre ++ e :: post → e.isDisconnect = true →
      (∀ x ∈ post, x.isConnect = false ∧ x ≠ .cancel) ∧ .cancel ∈ pre ∧ (∀ j, j < k → .connect j ∈ pre) ∧
      ∃ i, e = .disconnect i true := by
  intro pre e post heq he
  -- `e` is not in the `connects k ++ [cancel]` part
  have hsplit := List.append_eq_append_iff.mp heq
  have hc : ∀ x ∈ connects k, x.isDisconnect = false := by
    intro x hx; simp only [connects, List.mem_map] at hx; obtain ⟨j, _, rfl⟩ := hx; rfl
  have hd : ∀ x ∈ disconnects n, x.isConnect = false ∧ x ≠ .cancel ∧ ∃ i, x = .disconnect i true := by
    intro x hx; simp only [disconnects, List.mem_map] at hx; obtain ⟨j, _, rfl⟩ := hx
    exact ⟨rfl, by simp, j, rfl⟩
  have hmemc : ∀ j, j < k → Ev.connect j ∈ connects k := by
    intro j hj; simp only [connects, List.mem_map, List.mem_range]; exact ⟨j, hj, rfl⟩
  rcases hsplit with ⟨m, hpre, hrest⟩ | ⟨m, hck, hrest⟩
  · -- pre = connects k ++ m, cancel :: disconnects n = m ++ e :: post
    cases m with
    | nil =>
      simp only [List.nil_append, List.cons.injEq] at hrest
      rw [← hrest.1] at he; simp [Ev.isDisconnect] at he
    | cons x m =>
      simp only [List.cons_append, List.cons.injEq] at hrest
      obtain ⟨hx, hrest⟩ := hrest
      subst hx
      have hein : e ∈ disconnects n := by rw [hrest]; simp
      have hpost : ∀ y ∈ post, y ∈ disconnects n := by intro y hy; rw [hrest]; simp [hy]
      refine ⟨fun y hy => ⟨(hd y (hpost y hy)).1, (hd y (hpost y hy)).2.1⟩, by simp [hpre],
        fun j hj => by rw [hpre]; simp [hmemc j hj], (hd e hein).2.2⟩
  · -- connects k = pre ++ m, m ++ cancel :: … = e :: post : `e` would be a connect
    cases m with
    | nil =>
      simp only [List.nil_append, List.cons.injEq] at hrest
      rw [hrest.1] at he; simp [Ev.isDisconnect] at he
    | cons x m =>
      simp only [List.cons_append, List.cons.injEq] at hrest
      have : e ∈ connects k := by rw [hck, ← hrest.1]; simp
      have := hc e this
      simp [he] at this

/-! ### `normalize_path` -/

theorem trimSlashes_append_replicate (b : List Char) (k : Nat) (hb : b.getLast? ≠ some '/') :
    trimSlashes (b ++ List.replicate k '/') = b := by
  unfold trimSlashes
  rw [List.reverse_append, List.reverse_replicate]
  have h1 : ∀ (k : Nat) (r : List Char), (List.replicate k '/' ++ r).dropWhile (· == '/') = r.dropWhile (· == '/') := by
    intro k r; induction k with
    | zero => rfl
    | succ k ih => simp [List.replicate_succ, ih]
  rw [h1]
  have h2 : b.reverse.dropWhile (· == '/') = b.reverse := by
    cases hr : b.reverse with
    | nil => rfl
    | cons x xs =>
      have : b.getLast? = some x := by rw [← List.head?_reverse, hr]; rfl
      have hx : x ≠ '/' := fun e => hb (e ▸ this)
      simp [List.dropWhile_cons, hx]
  rw [h2, List.reverse_reverse]

theorem trimSlashes_no_trailing (p : List Char) : (trimSlashes p).getLast? ≠ some '/' := by
  unfold trimSlashes
  rw [List.getLast?_reverse]
  intro h
  have := List.head?_dropWhile_not (· == '/') p.reverse
  rw [h] at this
  simp at this

theorem trimSlashes_prefix (p : List Char) : trimSlashes p <+: p := by
  unfold trimSlashes
  have h := List.dropWhile_suffix (· == '/') (l := p.reverse)
  rw [← List.reverse_reverse (List.dropWhile (· == '/') p.reverse)] at h
  exact List.reverse_suffix.mp h

theorem trimSlashes_head (p : List Char) (x : Char) (xs : List Char) (h : trimSlashes p = x :: xs) :
    p.head? = some x := by
  obtain ⟨t, ht⟩ := trimSlashes_prefix p
  rw [h] at ht
  rw [← ht]; rfl

end Repe.Lifecycle
