import RepeVerif.Model.Fleet
import RepeVerif.Gen.Fleet
/-! Helper lemmas about the retry loop `Repe.Fleet.run` (C19). -/
namespace Repe.Fleet

/-- Io kinds that are transport-level failures (hand-written whitelist: what "transport failure"
means in the property). -/
def transportKinds : List IoKind :=
  [.timedOut, .connectionRefused, .connectionReset, .connectionAborted, .notConnected,
   .unexpectedEof, .wouldBlock, .interrupted, .brokenPipe, .hostUnreachable, .networkUnreachable,
   .networkDown]

/-- A reply from the node's application: success or an application error. -/
def Reply.isReply : Reply → Bool
  | .ok => true
  | .err .server => true
  | _ => false

/-- A policy that retries only transport failures. -/
structure Policy.TransportOnly (P : Policy) : Prop where
  kinds : ∀ k ∈ P.retryKinds, k ∈ transportKinds
  server : P.serverRetry = false
  other : P.otherRetry = false

theorem Policy.TransportOnly.of_retryable {P : Policy} (h : P.TransportOnly) {e : ErrClass}
    (hr : P.retryable e = true) : ∃ k, e = .io k ∧ k ∈ P.retryKinds ∧ k ∈ transportKinds := by
  cases e with
  | io k =>
    have hk : k ∈ P.retryKinds := by simpa [Policy.retryable] using hr
    exact ⟨k, rfl, hk, h.kinds k hk⟩
  | decode => simp [Policy.retryable, h.other] at hr
  | server => simp [Policy.retryable, h.server] at hr

/-! ### unfolding the canonical loop -/

theorem run_zero (P : Policy) (lf : LoopForm) (c : Cache) (bs : List Behaviour) :
    run P lf 0 c bs = ⟨[], c, bs⟩ := rfl

theorem run_succ_ok (P : Policy) (lf : LoopForm) (n : Nat) (c : Cache) (bs : List Behaviour)
    (h : (step P c bs).entry.reply = .ok) :
    run P lf (n+1) c bs = ⟨[(step P c bs).entry], (step P c bs).cache, (step P c bs).rest⟩ := by
  simp [run, h]

theorem run_succ_retry (P : Policy) (n : Nat) (c : Cache) (bs : List Behaviour) (e : ErrClass)
    (h : (step P c bs).entry.reply = .err e) (hr : P.retryable e = true) :
    run P .canonical (n+1) c bs =
      ⟨(step P c bs).entry :: (run P .canonical n .none (step P c bs).rest).log,
       (run P .canonical n .none (step P c bs).rest).cache,
       (run P .canonical n .none (step P c bs).rest).rest⟩ := by
  simp [run, h, hr, LoopForm.canonical]

theorem run_succ_stop (P : Policy) (n : Nat) (c : Cache) (bs : List Behaviour) (e : ErrClass)
    (h : (step P c bs).entry.reply = .err e) (hr : P.retryable e = false) :
    run P .canonical (n+1) c bs = ⟨[(step P c bs).entry], (step P c bs).cache, (step P c bs).rest⟩ := by
  simp [run, h, hr, LoopForm.canonical]

/-- Case split of one iteration of the canonical loop. -/
theorem run_succ_cases (P : Policy) (n : Nat) (c : Cache) (bs : List Behaviour) :
    (run P .canonical (n+1) c bs = ⟨[(step P c bs).entry], (step P c bs).cache, (step P c bs).rest⟩ ∧
      ((step P c bs).entry.reply = .ok ∨
        ∃ e, (step P c bs).entry.reply = .err e ∧ P.retryable e = false)) ∨
    (∃ e, (step P c bs).entry.reply = .err e ∧ P.retryable e = true ∧
      run P .canonical (n+1) c bs =
        ⟨(step P c bs).entry :: (run P .canonical n .none (step P c bs).rest).log,
         (run P .canonical n .none (step P c bs).rest).cache,
         (run P .canonical n .none (step P c bs).rest).rest⟩) := by
  cases h : (step P c bs).entry.reply with
  | ok => exact .inl ⟨run_succ_ok P _ n c bs h, .inl rfl⟩
  | err e =>
    cases hr : P.retryable e with
    | true => exact .inr ⟨e, rfl, hr, run_succ_retry P n c bs e h hr⟩
    | false => exact .inl ⟨run_succ_stop P n c bs e h hr, .inr ⟨e, rfl, hr⟩⟩

theorem call_canonical (P : Policy) (max : Nat) (c : Cache) (bs : List Behaviour) :
    call P .canonical max c bs = run P .canonical max c bs := rfl

/-! ### bounds -/

/-- Whatever the loop shape, at most `fuel` attempts are made. -/
theorem run_log_length_le (P : Policy) (lf : LoopForm) (n : Nat) (c : Cache) (bs : List Behaviour) :
    (run P lf n c bs).log.length ≤ n := by
  induction n generalizing c bs with
  | zero => simp [run]
  | succ n ih =>
    unfold run
    simp only []
    split
    · simp
    · split
      · simp only [List.length_cons]; exact Nat.succ_le_succ (ih _ _)
      · split
        · simp
        · simp only [List.length_cons]; exact Nat.succ_le_succ (ih _ _)

theorem run_log_ne_nil (P : Policy) (lf : LoopForm) (n : Nat) (c : Cache) (bs : List Behaviour) :
    (run P lf (n+1) c bs).log ≠ [] := by
  unfold run
  simp only []
  split
  · simp
  · split
    · simp
    · split <;> simp

theorem contacts_le_attempts (r : Run) : r.contacts ≤ r.attempts := by
  unfold Run.contacts Run.attempts
  exact List.length_filter_le _ _

/-! ### every attempt but the last failed with a retryable error -/

theorem run_dropLast_retryable (P : Policy) (n : Nat) (c : Cache) (bs : List Behaviour) :
    ∀ r ∈ (run P .canonical n c bs).log.dropLast, ∃ e, r.reply = .err e ∧ P.retryable e = true := by
  induction n generalizing c bs with
  | zero => simp [run]
  | succ n ih =>
    rcases run_succ_cases P n c bs with ⟨h, _⟩ | ⟨e, he, hr, h⟩
    · rw [h]; simp
    · rw [h]
      intro r hr'
      simp only [] at hr'
      cases ht : (run P .canonical n .none (step P c bs).rest).log with
      | nil => rw [ht] at hr'; simp at hr'
      | cons a l =>
        rw [ht, List.dropLast_cons_cons] at hr'
        rcases List.mem_cons.mp hr' with rfl | hm
        · exact ⟨e, he, hr⟩
        · exact ih _ _ r (by rw [ht]; exact hm)

/-- The last log entry is `ok`, a non-retryable error, or the loop ran out of fuel. -/
theorem run_last (P : Policy) (n : Nat) (c : Cache) (bs : List Behaviour) (r : Rec)
    (h : (run P .canonical n c bs).log.getLast? = some r) :
    r.reply = .ok ∨ (∃ e, r.reply = .err e ∧ P.retryable e = false) ∨
      ((run P .canonical n c bs).log.length = n ∧ ∃ e, r.reply = .err e ∧ P.retryable e = true) := by
  induction n generalizing c bs with
  | zero => simp [run] at h
  | succ n ih =>
    rcases run_succ_cases P n c bs with ⟨h', hc⟩ | ⟨e, he, hr, h'⟩
    · rw [h'] at h
      simp at h
      subst h
      rcases hc with hc | hc
      · exact .inl hc
      · exact .inr (.inl hc)
    · rw [h'] at h ⊢
      simp only [] at h ⊢
      cases ht : (run P .canonical n .none (step P c bs).rest).log with
      | nil =>
        rw [ht] at h
        simp at h
        subst h
        have hl := run_log_ne_nil P .canonical
        cases n with
        | zero => exact .inr (.inr ⟨by simp, e, he, hr⟩)
        | succ m => exact absurd ht (hl m _ _)
      | cons a l =>
        rw [ht] at h
        have h2 : (run P .canonical n .none (step P c bs).rest).log.getLast? = some r := by
          rw [ht]; simpa [List.getLast?_cons_cons] using h
        rcases ih _ _ h2 with h3 | h3 | ⟨h3, h4⟩
        · exact .inl h3
        · exact .inr (.inl h3)
        · refine .inr (.inr ⟨?_, h4⟩)
          rw [ht] at h3; simp only [List.length_cons] at h3 ⊢; omega

/-- Membership form: an entry that is not the last one sits in `dropLast`. -/
theorem mem_dropLast_or_last {α} (l : List α) (x : α) (h : x ∈ l) :
    x ∈ l.dropLast ∨ l.getLast? = some x := by
  induction l with
  | nil => cases h
  | cons a l ih =>
    cases l with
    | nil => simp at h; subst h; simp
    | cons b l' =>
      rw [List.dropLast_cons_cons, List.getLast?_cons_cons]
      rcases List.mem_cons.mp h with rfl | hm
      · exact .inl (List.mem_cons_self ..)
      · rcases ih hm with h1 | h1
        · exact .inl (List.mem_cons_of_mem _ h1)
        · exact .inr h1

/-! ### recovery -/

theorem step_healthy_ok (P : Policy) (c : Cache) (bs : List Behaviour) (hc : c ≠ .dead) (hb : healthy bs) :
    (step P c bs).entry.reply = .ok ∧ (step P c bs).cache = .live ∧ healthy (step P c bs).rest := by
  cases bs with
  | nil => cases c <;> simp_all [step, healthy]
  | cons b bs' =>
    have hb1 : b = .success := hb b (List.mem_cons_self ..)
    have hb2 : healthy bs' := fun x hx => hb x (List.mem_cons_of_mem _ hx)
    subst hb1
    cases c <;> simp_all [step, attempt]

theorem run_healthy_ok (P : Policy) (lf : LoopForm) (n : Nat) (c : Cache) (bs : List Behaviour)
    (hc : c ≠ .dead) (hb : healthy bs) :
    (run P lf (n+1) c bs).log.getLast?.map (·.reply) = some .ok ∧ (run P lf (n+1) c bs).cache = .live ∧
      (run P lf (n+1) c bs).log.length = 1 := by
  obtain ⟨h1, h2, _⟩ := step_healthy_ok P c bs hc hb
  rw [run_succ_ok P lf n c bs h1]
  simp [h1, h2]

theorem step_dead (P : Policy) (bs : List Behaviour) :
    (step P .dead bs).entry = ⟨none, .err (deadClientError P)⟩ ∧ (step P .dead bs).cache = .dead ∧
      (step P .dead bs).rest = bs := by
  simp [step]

/-! ### what the property theorems quantify over -/

/-- The two extracted tables (`Fleet`, `AsyncFleet`), each with every member of the extracted set of
error kinds a dead cached client of that fleet can yield. -/
def policies : List Policy :=
  Gen.Fleet.deadKinds.map (fun k => { Gen.Fleet.policy with deadKind := k }) ++
  Gen.Fleet.asyncDeadKinds.map (fun k => { Gen.Fleet.asyncPolicy with deadKind := k })

/-- The four extracted loops (blocking json/message, async json/message). -/
def loops : List LoopForm :=
  [Gen.Fleet.loopJson, Gen.Fleet.loopMessage, Gen.Fleet.asyncLoopJson, Gen.Fleet.asyncLoopMessage]

/-- The cache left behind by an arbitrary history of calls, each with its own `max_attempts`, its own
list of node behaviours and its own policy (in particular its own dead-client error kind). -/
def cacheAfter (lf : LoopForm) : Cache → List (Policy × Nat × List Behaviour) → Cache
  | c, [] => c
  | c, (P, max, bs) :: h => cacheAfter lf (call P lf max c bs).cache h

end Repe.Fleet
