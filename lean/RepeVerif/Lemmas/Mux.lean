import RepeVerif.Model.Mux
/-!
Helper lemmas for C04/C06: list facts about the pending map, the safety invariant `Inv` of the
client transition system and its preservation by every event.
-/
namespace Repe.Mux

/-! ### the pending map as an association list -/

theorem mem_erase {p : List (Nat × Nat)} {i : Nat} {e : Nat × Nat} :
    e ∈ erase p i ↔ e ∈ p ∧ e.1 ≠ i := by
  simp [erase, List.mem_filter]

theorem mem_ids {p : List (Nat × Nat)} {i : Nat} : i ∈ ids p ↔ ∃ c, (i, c) ∈ p := by
  simp [ids]

theorem mem_ids_of_mem {p : List (Nat × Nat)} {e : Nat × Nat} (h : e ∈ p) : e.1 ∈ ids p := by
  simp only [ids, List.mem_map]; exact ⟨e, h, rfl⟩

theorem mem_ids_erase {p : List (Nat × Nat)} {i j : Nat} : j ∈ ids (erase p i) ↔ j ∈ ids p ∧ j ≠ i := by
  simp only [mem_ids, mem_erase]
  constructor
  · rintro ⟨c, h, hne⟩; exact ⟨⟨c, h⟩, hne⟩
  · rintro ⟨⟨c, h⟩, hne⟩; exact ⟨c, h, hne⟩

theorem not_mem_ids_erase_self (p : List (Nat × Nat)) (i : Nat) : i ∉ ids (erase p i) := by
  simp [mem_ids_erase]

theorem nodup_ids_erase {p : List (Nat × Nat)} (i : Nat) (h : (ids p).Nodup) : (ids (erase p i)).Nodup := by
  induction p with
  | nil => simp [erase, ids]
  | cons e r ih =>
    simp only [ids, List.map_cons, List.nodup_cons] at h
    by_cases he : e.1 = i
    · have : erase (e :: r) i = erase r i := by simp [erase, List.filter_cons, he]
      rw [this]; exact ih h.2
    · have : erase (e :: r) i = e :: erase r i := by simp [erase, List.filter_cons, he]
      rw [this]
      simp only [ids, List.map_cons, List.nodup_cons]
      refine ⟨?_, ih h.2⟩
      intro hm
      have := (mem_ids_erase (p := r) (i := i) (j := e.1)).1 (by simpa [ids] using hm)
      exact h.1 (by simpa [ids] using this.1)

theorem erase_of_not_mem {p : List (Nat × Nat)} {i : Nat} (h : i ∉ ids p) : erase p i = p := by
  induction p with
  | nil => rfl
  | cons e r ih =>
    simp only [ids, List.map_cons, List.mem_cons, not_or] at h
    have h1 : e.1 ≠ i := fun x => h.1 x.symm
    have : erase (e :: r) i = e :: erase r i := by simp [erase, List.filter_cons, h1]
    rw [this, ih (by simpa [ids] using h.2)]

theorem lookup_some {p : List (Nat × Nat)} {i c : Nat} (h : lookup p i = some c) : (i, c) ∈ p := by
  induction p with
  | nil => simp [lookup] at h
  | cons e r ih =>
    simp only [lookup] at h
    split at h
    · rename_i he
      cases h
      have : e = (i, e.2) := by cases e; simp_all
      rw [← this]; exact List.mem_cons_self
    · exact List.mem_cons_of_mem _ (ih h)

theorem lookup_none {p : List (Nat × Nat)} {i : Nat} : lookup p i = none ↔ i ∉ ids p := by
  induction p with
  | nil => simp [lookup, ids]
  | cons e r ih =>
    simp only [lookup, ids, List.map_cons, List.mem_cons, not_or]
    split
    · rename_i he; simp [he]
    · rename_i he
      rw [ih]
      constructor
      · intro h; exact ⟨fun x => he x.symm, by simpa [ids] using h⟩
      · intro h; simpa [ids] using h.2

theorem lookup_of_mem {p : List (Nat × Nat)} {i c : Nat} (hn : (ids p).Nodup) (h : (i, c) ∈ p) :
    lookup p i = some c := by
  induction p with
  | nil => simp at h
  | cons e r ih =>
    simp only [ids, List.map_cons, List.nodup_cons] at hn
    simp only [lookup]
    rcases List.mem_cons.1 h with h | h
    · subst h; simp
    · split
      · rename_i he
        exact absurd (by simpa [ids, ← he] using mem_ids_of_mem h) hn.1
      · exact ih hn.2 h

/-! ### state accessors -/

@[simp] theorem setCall_calls_self (s : State) (c : Nat) (k : Call) : (setCall s c k).calls c = k := by
  simp [setCall]

theorem setCall_calls (s : State) (c d : Nat) (k : Call) :
    (setCall s c k).calls d = if d = c then k else s.calls d := by
  simp [setCall]

@[simp] theorem setCall_pending (s : State) (c : Nat) (k : Call) : (setCall s c k).pending = s.pending := rfl
@[simp] theorem setCall_reader (s : State) (c : Nat) (k : Call) : (setCall s c k).reader = s.reader := rfl
@[simp] theorem setCall_nextId (s : State) (c : Nat) (k : Call) : (setCall s c k).nextId = s.nextId := rfl
@[simp] theorem setCall_writerShut (s : State) (c : Nat) (k : Call) : (setCall s c k).writerShut = s.writerShut := rfl
@[simp] theorem setCall_regClosed (s : State) (c : Nat) (k : Call) : (setCall s c k).regClosed = s.regClosed := rfl
@[simp] theorem setCall_sub (s : State) (c : Nat) (k : Call) : (setCall s c k).sub = s.sub := rfl
@[simp] theorem setCall_gen (s : State) (c : Nat) (k : Call) : (setCall s c k).gen = s.gen := rfl
@[simp] theorem setCall_subQueue (s : State) (c : Nat) (k : Call) : (setCall s c k).subQueue = s.subQueue := rfl

/-- Senders the reader holds outside the pending map. -/
def heldEntries (s : State) : List (Nat × Nat) :=
  match s.reader with
  | .holding c f => [(f.id, c)]
  | .failing _ w _ => w
  | _ => []


/-- Owner facts of a sender entry `(id, caller)`. -/
def Owned (s : State) (e : Nat × Nat) : Prop :=
  (s.calls e.2).pc ≠ .idle ∧ (s.calls e.2).id = e.1 ∧ (s.calls e.2).reg = true

/-- The safety invariant (C04). -/
structure Inv (cfg : Cfg) (s : State) : Prop where
  fresh : ∀ c, (s.calls c).pc ≠ .idle → (s.calls c).id < s.nextId
  inj : ∀ c d, (s.calls c).pc ≠ .idle → (s.calls d).pc ≠ .idle → (s.calls c).id = (s.calls d).id → c = d
  idleClean : ∀ c, (s.calls c).pc = .idle → (s.calls c).reg = false ∧ (s.calls c).wrote = false
  unregClean : ∀ c, (s.calls c).reg = false → (s.calls c).chan = []
  ownP : ∀ e ∈ s.pending, Owned s e
  ownH : ∀ e ∈ heldEntries s, Owned s e
  nodupP : (ids s.pending).Nodup
  nodupH : (ids (heldEntries s)).Nodup
  disj : ∀ i, i ∈ ids s.pending → i ∉ ids (heldEntries s)
  chanLen : ∀ c, (s.calls c).chan.length ≤ 1
  chanExcl : ∀ c, (s.calls c).chan ≠ [] → (s.calls c).id ∉ ids s.pending ∧ (s.calls c).id ∉ ids (heldEntries s)
  chanId : ∀ c f, Msg.resp f ∈ (s.calls c).chan → f.id = (s.calls c).id ∧ (cfg.notifyAware = true → f.notify = false)
  holdOk : ∀ c f, s.reader = .holding c f → (cfg.notifyAware = true → f.notify = false)
  res : ∀ c f, (s.calls c).pc = .returned (.resp f) → f.id = (s.calls c).id ∧ (cfg.notifyAware = true → f.notify = false)

theorem inv_init (cfg : Cfg) : Inv cfg State.init := by
  constructor <;> simp [State.init, heldEntries, ids]

theorem inv_alloc {cfg : Cfg} {s : State} (h : Inv cfg s) (c : Nat) : Inv cfg (step cfg s (.alloc c)) := by
  simp only [step]
  split
  · rename_i hc
    constructor
    · intro d; simp only [setCall_calls]; split <;> intro hd
      · simp
      · have := h.fresh d hd; simp; omega
    · intro d e; simp only [setCall_calls]
      split <;> split <;> intro hd he hde
      · omega
      · have := h.fresh e he; simp at hde; omega
      · have := h.fresh d hd; simp at hde; omega
      · exact h.inj d e hd he hde
    · intro d; simp only [setCall_calls]; split
      · simp
      · exact h.idleClean d
    · intro d; simp only [setCall_calls]; split
      · simp
      · exact h.unregClean d
    · intro e he
      have := h.ownP e he
      simp only [Owned, setCall_calls] at *
      split
      · rename_i hx; rw [hx] at this; exact absurd hc this.1
      · exact this
    · intro e he
      have := h.ownH e (by simpa [heldEntries] using he)
      simp only [Owned, setCall_calls] at *
      split
      · rename_i hx; rw [hx] at this; exact absurd hc this.1
      · exact this
    · exact h.nodupP
    · simpa [heldEntries] using h.nodupH
    · simpa [heldEntries] using h.disj
    · intro d; simp only [setCall_calls]; split
      · simp
      · exact h.chanLen d
    · intro d; simp only [setCall_calls]; split
      · simp
      · simpa [heldEntries] using h.chanExcl d
    · intro d f; simp only [setCall_calls]; split
      · simp
      · exact h.chanId d f
    · simpa using h.holdOk
    · intro d f; simp only [setCall_calls]; split
      · simp
      · exact h.res d f
  · exact h


/-- Events that touch neither callers nor senders. -/
theorem inv_frame {cfg : Cfg} {s s' : State} (h : Inv cfg s) (hc : s'.calls = s.calls) (hp : s'.pending = s.pending)
    (hh : heldEntries s' = heldEntries s) (hn : s.nextId ≤ s'.nextId)
    (hr : ∀ c f, s'.reader = .holding c f → s.reader = .holding c f) : Inv cfg s' := by
  constructor
  · intro c hc'; rw [hc] at hc' ⊢; have := h.fresh c hc'; omega
  · rw [hc]; exact h.inj
  · rw [hc]; exact h.idleClean
  · rw [hc]; exact h.unregClean
  · rw [hp]; simpa [Owned, hc] using h.ownP
  · rw [hh]; simpa [Owned, hc] using h.ownH
  · rw [hp]; exact h.nodupP
  · rw [hh]; exact h.nodupH
  · rw [hp, hh]; exact h.disj
  · rw [hc]; exact h.chanLen
  · rw [hc, hp, hh]; exact h.chanExcl
  · rw [hc]; exact h.chanId
  · intro c f hcf; exact h.holdOk c f (hr c f hcf)
  · rw [hc]; exact h.res

/-- A caller changes only its program counter / `wrote` flag. -/
theorem inv_local {cfg : Cfg} {s : State} (h : Inv cfg s) (c : Nat) (k : Call)
    (hid : k.id = (s.calls c).id) (hreg : k.reg = (s.calls c).reg) (hchan : k.chan = (s.calls c).chan)
    (hpc : (s.calls c).pc ≠ .idle) (hpc' : k.pc ≠ .idle)
    (hres : ∀ f, k.pc = .returned (.resp f) → f.id = k.id ∧ (cfg.notifyAware = true → f.notify = false)) :
    Inv cfg (setCall s c k) := by
  constructor
  · intro d; simp only [setCall_calls]; split
    · rename_i hd; subst hd; intro _; rw [hid]; exact h.fresh _ hpc
    · exact h.fresh d
  · intro d e; simp only [setCall_calls]
    split <;> split <;> intro hd he hde
    · omega
    · rename_i h1 h2; subst h1; rw [hid] at hde; exact h.inj _ _ hpc he hde
    · rename_i h1 h2; subst h2; rw [hid] at hde; exact h.inj _ _ hd hpc hde
    · exact h.inj d e hd he hde
  · intro d; simp only [setCall_calls]; split
    · intro hk; exact absurd hk hpc'
    · exact h.idleClean d
  · intro d; simp only [setCall_calls]; split
    · rename_i hd; subst hd; rw [hreg, hchan]; exact h.unregClean _
    · exact h.unregClean d
  · intro e he
    have := h.ownP e he
    simp only [Owned, setCall_calls] at *
    split
    · rename_i hx; rw [hx] at this; exact ⟨hpc', by rw [hid]; exact this.2.1, by rw [hreg]; exact this.2.2⟩
    · exact this
  · intro e he
    have := h.ownH e (by simpa [heldEntries] using he)
    simp only [Owned, setCall_calls] at *
    split
    · rename_i hx; rw [hx] at this; exact ⟨hpc', by rw [hid]; exact this.2.1, by rw [hreg]; exact this.2.2⟩
    · exact this
  · exact h.nodupP
  · simpa [heldEntries] using h.nodupH
  · simpa [heldEntries] using h.disj
  · intro d; simp only [setCall_calls]; split
    · rename_i hd; subst hd; rw [hchan]; exact h.chanLen _
    · exact h.chanLen d
  · intro d; simp only [setCall_calls]; split
    · rename_i hd; subst hd; rw [hchan, hid]; simpa [heldEntries] using h.chanExcl _
    · simpa [heldEntries] using h.chanExcl d
  · intro d f; simp only [setCall_calls]; split
    · rename_i hd; subst hd; rw [hchan, hid]; exact h.chanId _ f
    · exact h.chanId d f
  · simpa using h.holdOk
  · intro d f; simp only [setCall_calls]; split
    · exact hres f
    · exact h.res d f


theorem inv_erase {cfg : Cfg} {s : State} (h : Inv cfg s) (i : Nat) :
    Inv cfg { s with pending := erase s.pending i } := by
  constructor
  · exact h.fresh
  · exact h.inj
  · exact h.idleClean
  · exact h.unregClean
  · intro e he; exact h.ownP e (mem_erase.1 he).1
  · exact h.ownH
  · exact nodup_ids_erase i h.nodupP
  · exact h.nodupH
  · intro j hj; exact h.disj j (mem_ids_erase.1 hj).1
  · exact h.chanLen
  · intro c hc; exact ⟨fun hm => (h.chanExcl c hc).1 (mem_ids_erase.1 hm).1, (h.chanExcl c hc).2⟩
  · exact h.chanId
  · exact h.holdOk
  · exact h.res

theorem reg_of_chan {cfg : Cfg} {s : State} (h : Inv cfg s) {c : Nat} (hc : (s.calls c).chan ≠ []) :
    (s.calls c).reg = true ∧ (s.calls c).pc ≠ .idle := by
  have hr : (s.calls c).reg = true := by
    cases hreg : (s.calls c).reg
    · exact absurd (h.unregClean c hreg) hc
    · rfl
  refine ⟨hr, fun hi => ?_⟩
  have := (h.idleClean c hi).1
  rw [hr] at this; cases this

theorem inv_register {cfg : Cfg} {s : State} (h : Inv cfg s) (c : Nat)
    (hpc : (s.calls c).pc = .active) (hreg : (s.calls c).reg = false) :
    Inv cfg (setCall { s with pending := ((s.calls c).id, c) :: erase s.pending (s.calls c).id } c
      { s.calls c with reg := true }) := by
  have hne : (s.calls c).pc ≠ .idle := by rw [hpc]; simp
  -- an owned entry never belongs to `c` (it is not registered yet)
  have hown : ∀ e, Owned s e → e.2 ≠ c := by
    intro e he hx; have := he.2.2; rw [hx, hreg] at this; cases this
  have hnotHeld : (s.calls c).id ∉ ids (heldEntries s) := by
    intro hm
    obtain ⟨d, hd⟩ := mem_ids.1 hm
    have ho := h.ownH _ hd
    have := h.inj d c ho.1 hne ho.2.1
    exact hown _ ho this
  constructor
  · intro d; simp only [setCall_calls]; split
    · rename_i hd; subst hd; intro _; exact h.fresh _ hne
    · exact h.fresh d
  · intro d e; simp only [setCall_calls]
    split <;> split <;> intro hd he hde
    · omega
    · rename_i h1 h2; subst h1; exact h.inj _ _ hne he hde
    · rename_i h1 h2; subst h2; exact h.inj _ _ hd hne hde
    · exact h.inj d e hd he hde
  · intro d; simp only [setCall_calls]; split
    · rw [hpc]; simp
    · exact h.idleClean d
  · intro d; simp only [setCall_calls]; split
    · simp
    · exact h.unregClean d
  · intro e he
    simp only [setCall_pending, List.mem_cons] at he
    rcases he with he | he
    · subst he; simp [Owned, hpc]
    · have ho := h.ownP e (mem_erase.1 he).1
      have := hown e ho
      simpa [Owned, setCall_calls, this] using ho
  · intro e he
    have ho := h.ownH e (by simpa [heldEntries] using he)
    have := hown e ho
    simpa [Owned, setCall_calls, this] using ho
  · simp only [setCall_pending, ids, List.map_cons, List.nodup_cons]
    exact ⟨by simpa [ids] using not_mem_ids_erase_self s.pending (s.calls c).id, by simpa [ids] using nodup_ids_erase _ h.nodupP⟩
  · simpa [heldEntries] using h.nodupH
  · intro i hi
    have hh : heldEntries (setCall { s with pending := ((s.calls c).id, c) :: erase s.pending (s.calls c).id } c { s.calls c with reg := true }) = heldEntries s := by
      simp [heldEntries]
    rw [hh]
    simp only [setCall_pending, ids, List.map_cons, List.mem_cons] at hi
    rcases hi with hi | hi
    · rw [hi]; exact hnotHeld
    · exact h.disj i (mem_ids_erase.1 (by simpa [ids] using hi)).1
  · intro d; simp only [setCall_calls]; split
    · rename_i hd; subst hd; exact h.chanLen _
    · exact h.chanLen d
  · intro d
    have hh : heldEntries (setCall { s with pending := ((s.calls c).id, c) :: erase s.pending (s.calls c).id } c { s.calls c with reg := true }) = heldEntries s := by
      simp [heldEntries]
    rw [hh]
    simp only [setCall_calls]; split
    · rename_i hd; subst hd; intro hch; exact absurd (h.unregClean _ hreg) hch
    · rename_i hd; intro hch
      have hx := h.chanExcl d hch
      have hrd := reg_of_chan h hch
      refine ⟨?_, hx.2⟩
      simp only [setCall_pending, ids, List.map_cons, List.mem_cons, not_or]
      refine ⟨fun heq => hd (h.inj d c hrd.2 hne heq), fun hm => hx.1 (mem_ids_erase.1 (by simpa [ids] using hm)).1⟩
  · intro d f; simp only [setCall_calls]; split
    · rename_i hd; subst hd; exact h.chanId _ f
    · exact h.chanId d f
  · simpa using h.holdOk
  · intro d f; simp only [setCall_calls]; split
    · rw [hpc]; simp
    · exact h.res d f

theorem inv_rmatch {cfg : Cfg} {s : State} (h : Inv cfg s) (f : Frame) (c : Nat)
    (hr : s.reader = .idle) (hl : lookup s.pending f.id = some c)
    (hn : cfg.notifyAware = true → f.notify = false) :
    Inv cfg { s with pending := erase s.pending f.id, reader := .holding c f } := by
  have hmem := lookup_some hl
  have hheld : heldEntries s = [] := by simp [heldEntries, hr]
  constructor
  · exact h.fresh
  · exact h.inj
  · exact h.idleClean
  · exact h.unregClean
  · intro e he; exact h.ownP e (mem_erase.1 he).1
  · intro e he
    simp only [heldEntries, List.mem_singleton] at he
    subst he; exact h.ownP _ hmem
  · exact nodup_ids_erase _ h.nodupP
  · simp [heldEntries, ids]
  · intro i hi
    simp only [heldEntries, ids, List.map_cons, List.map_nil, List.mem_singleton]
    exact (mem_ids_erase.1 hi).2
  · exact h.chanLen
  · intro d hd
    have hx := h.chanExcl d hd
    refine ⟨fun hm => hx.1 (mem_ids_erase.1 hm).1, ?_⟩
    simp only [heldEntries, ids, List.map_cons, List.map_nil, List.mem_singleton]
    intro heq; exact hx.1 (by rw [heq]; exact mem_ids_of_mem hmem)
  · exact h.chanId
  · intro c' f' hcf; simp only [Reader.holding.injEq] at hcf; rw [← hcf.2]; exact hn
  · exact h.res

/-- The reader hands the first sender it holds a message. -/
theorem inv_push {cfg : Cfg} {s : State} (h : Inv cfg s) (e : Nat × Nat) (rest : List (Nat × Nat)) (r' : Reader) (m : Msg)
    (hh : heldEntries s = e :: rest) (hr : heldEntries { s with reader := r' } = rest)
    (hnh : ∀ c f, r' ≠ .holding c f)
    (hm : ∀ f, m = .resp f → f.id = e.1 ∧ (cfg.notifyAware = true → f.notify = false)) :
    Inv cfg (push { s with reader := r' } e.2 m) := by
  have ho : Owned s e := h.ownH e (by rw [hh]; exact List.mem_cons_self)
  have hidHeld : (s.calls e.2).id ∈ ids (heldEntries s) := by
    rw [ho.2.1, hh]; simp [ids]
  have hchan : (s.calls e.2).chan = [] := by
    cases hc : (s.calls e.2).chan with
    | nil => rfl
    | cons a l => exact absurd hidHeld (h.chanExcl e.2 (by rw [hc]; simp)).2
  have hnd := h.nodupH
  rw [hh] at hnd
  simp only [ids, List.map_cons, List.nodup_cons] at hnd
  have hheld' : heldEntries (push { s with reader := r' } e.2 m) = rest := by
    simpa [push, heldEntries] using hr
  have hsub : ∀ x, x ∈ rest → x ∈ heldEntries s := by intro x hx; rw [hh]; exact List.mem_cons_of_mem _ hx
  constructor
  · intro d; simp only [push, setCall_calls]; split
    · rename_i hd; subst hd; intro _; exact h.fresh _ ho.1
    · exact h.fresh d
  · intro d d'; simp only [push, setCall_calls]
    split <;> split <;> intro h1 h2 h3
    · omega
    · rename_i a b; subst a; exact h.inj _ _ ho.1 h2 h3
    · rename_i a b; subst b; exact h.inj _ _ h1 ho.1 h3
    · exact h.inj d d' h1 h2 h3
  · intro d; simp only [push, setCall_calls]; split
    · rename_i hd; subst hd; intro hi; exact absurd hi ho.1
    · exact h.idleClean d
  · intro d; simp only [push, setCall_calls]; split
    · rename_i hd; subst hd; intro hreg; rw [ho.2.2] at hreg; cases hreg
    · exact h.unregClean d
  · intro x hx
    have := h.ownP x (by simpa [push] using hx)
    simp only [Owned, push, setCall_calls] at *
    split
    · rename_i hxe; rw [hxe] at this; exact this
    · exact this
  · intro x hx
    rw [hheld'] at hx
    have := h.ownH x (hsub x hx)
    simp only [Owned, push, setCall_calls] at *
    split
    · rename_i hxe; rw [hxe] at this; exact this
    · exact this
  · simpa [push] using h.nodupP
  · rw [hheld']; simpa [ids] using hnd.2
  · intro i hi
    rw [hheld']
    have := h.disj i (by simpa [push] using hi)
    rw [hh] at this
    intro hm'; exact this (by simp only [ids, List.map_cons, List.mem_cons]; right; simpa [ids] using hm')
  · intro d; simp only [push, setCall_calls]; split
    · rename_i hd; subst hd; simp [hchan]
    · exact h.chanLen d
  · intro d
    rw [hheld']
    simp only [push, setCall_calls, setCall_pending]; split
    · rename_i hd; subst hd; intro _
      refine ⟨fun hm' => h.disj _ hm' hidHeld, ?_⟩
      rw [ho.2.1]; simpa [ids] using hnd.1
    · intro hd
      have := h.chanExcl d hd
      refine ⟨this.1, fun hm' => this.2 ?_⟩
      rw [hh]; simp only [ids, List.map_cons, List.mem_cons]; right; simpa [ids] using hm'
  · intro d f; simp only [push, setCall_calls]; split
    · rename_i hd; subst hd
      simp only [hchan, List.nil_append, List.mem_singleton]
      intro hf; rw [ho.2.1]; exact hm f hf.symm
    · exact h.chanId d f
  · intro c f hcf; simp only [push, setCall_reader] at hcf; exact absurd hcf (hnh c f)
  · intro d f; simp only [push, setCall_calls]; split
    · rename_i hd; subst hd; exact h.res _ f
    · exact h.res d f

theorem inv_drain {cfg : Cfg} {s : State} (h : Inv cfg s) (rc : Bool) (r : List FailStep) (w : List (Nat × Nat)) (g : Nat)
    (hheld : heldEntries s = w) :
    Inv cfg { s with regClosed := rc, pending := [], reader := .failing r (w ++ s.pending) g } := by
  constructor
  · exact h.fresh
  · exact h.inj
  · exact h.idleClean
  · exact h.unregClean
  · intro e he; simp at he
  · intro e he
    simp only [heldEntries, List.mem_append] at he
    rcases he with he | he
    · exact h.ownH e (by rw [hheld]; exact he)
    · exact h.ownP e he
  · simp [ids]
  · simp only [heldEntries, ids, List.map_append]
    rw [List.nodup_append]
    refine ⟨by simpa [hheld, ids] using h.nodupH, by simpa [ids] using h.nodupP, ?_⟩
    intro a ha b hb hab
    subst hab
    exact h.disj a (by simpa [ids] using hb) (by rw [hheld]; simpa [ids] using ha)
  · intro i hi; simp [ids] at hi
  · exact h.chanLen
  · intro d hd
    have := h.chanExcl d hd
    refine ⟨by simp [ids], ?_⟩
    simp only [heldEntries, ids, List.map_append, List.mem_append, not_or]
    exact ⟨by simpa [hheld, ids] using this.2, by simpa [ids] using this.1⟩
  · exact h.chanId
  · intro c f hcf; simp at hcf
  · exact h.res


theorem canRegister_iff {cfg : Cfg} {k : Call} :
    canRegister cfg k = true ↔ k.pc = .active ∧ k.reg = false ∧ k.wrote = !cfg.regBeforeWrite := by
  simp [canRegister, Bool.and_eq_true, and_assoc]

theorem canWrite_iff {cfg : Cfg} {k : Call} :
    canWrite cfg k = true ↔ k.pc = .active ∧ k.wrote = false ∧ k.reg = cfg.regBeforeWrite := by
  simp [canWrite, Bool.and_eq_true, and_assoc]

theorem outcomeOf_resp {k : Call} {m : Msg} {f : Frame} (h : outcomeOf k m = .resp f) :
    m = .resp f ∧ f.id = k.id := by
  cases m with
  | resp f' =>
    simp only [outcomeOf] at h
    split at h
    · rename_i hid; cases h; exact ⟨rfl, hid⟩
    · cases h
  | connErr => simp [outcomeOf] at h
  | closed => simp [outcomeOf] at h

theorem inv_step {cfg : Cfg} {s : State} (h : Inv cfg s) (e : Ev) : Inv cfg (step cfg s e) := by
  cases e with
  | alloc c => exact inv_alloc h c
  | skip => exact inv_frame h rfl rfl rfl (by simp [step]) (fun _ _ hr => hr)
  | register c =>
    simp only [step]
    split
    · rename_i hc
      obtain ⟨hpc, hreg, _⟩ := canRegister_iff.1 hc
      split
      · exact inv_local h c _ rfl rfl rfl (by rw [hpc]; simp) (by simp) (by simp)
      · split
        · exact inv_local h c _ rfl rfl rfl (by rw [hpc]; simp) (by simp) (by simp)
        · exact inv_register h c hpc hreg
    · exact h
  | write c =>
    simp only [step]
    split
    · rename_i hc
      obtain ⟨hpc, _, _⟩ := canWrite_iff.1 hc
      split
      · exact inv_local h c _ rfl rfl rfl (by rw [hpc]; simp) (by simp) (by simp)
      · exact inv_local h c _ rfl rfl rfl (by rw [hpc]; simp) (by simp [hpc]) (by simp [hpc])
    · exact h
  | writeFail c =>
    simp only [step]
    split
    · rename_i hc
      obtain ⟨hpc, _, _⟩ := canWrite_iff.1 hc
      exact inv_local h c _ rfl rfl rfl (by rw [hpc]; simp) (by simp) (by simp)
    · exact h
  | recv c =>
    simp only [step]
    split
    · rename_i hc
      simp only [Bool.and_eq_true, decide_eq_true_eq] at hc
      split
      · rename_i m l hm
        refine inv_local h c _ rfl rfl rfl (by rw [hc.1.1]; simp) (by simp) ?_
        intro f hf
        simp only [PC.returned.injEq] at hf
        obtain ⟨hmf, hid⟩ := outcomeOf_resp hf
        refine ⟨hid, (h.chanId c f ?_).2⟩
        rw [hm, hmf]; exact List.mem_cons_self
      · exact h
    · exact h
  | timeout c =>
    simp only [step]
    split
    · rename_i hc
      simp only [Bool.and_eq_true, decide_eq_true_eq] at hc
      exact inv_local h c _ rfl rfl rfl (by rw [hc.1.1.1]; simp) (by simp) (by simp)
    · exact h
  | cancel c =>
    simp only [step]
    split
    · rename_i hc
      exact inv_local h c _ rfl rfl rfl (by rw [hc]; simp) (by simp) (by simp)
    · exact h
  | cleanup c =>
    simp only [step]
    split
    · rename_i o hpc
      have hres : ∀ f, PC.returned o.outcome = .returned (.resp f) → f.id = (s.calls c).id ∧ (cfg.notifyAware = true → f.notify = false) := by
        intro f hf
        cases o <;> simp [Abandon.outcome] at hf
      split
      · exact inv_local (inv_erase h _) c _ rfl rfl rfl (by simp [hpc]) (by simp) hres
      · exact inv_local h c _ rfl rfl rfl (by simp [hpc]) (by simp) hres
    · exact h
  | rmatch f =>
    simp only [step]
    split
    · rename_i hr
      split
      · split
        · exact inv_frame h rfl rfl (by simp [heldEntries, hr]) (Nat.le_refl _) (by simp)
        · exact h
      · rename_i hn
        split
        · rename_i c hl
          refine inv_rmatch h f c hr hl ?_
          intro ha
          cases hf : f.notify
          · rfl
          · simp [ha, hf] at hn
        · exact h
    · exact h
  | deliver =>
    simp only [step]
    split
    · rename_i c f hr
      exact inv_push h (f.id, c) [] .idle (.resp f) (by simp [heldEntries, hr]) (by simp [heldEntries]) (by simp)
        (by intro f' hf'; cases hf'; exact ⟨rfl, h.holdOk c f hr⟩)
    · rename_i g f hr
      exact inv_frame h rfl rfl (by simp [heldEntries, hr]) (Nat.le_refl _) (by simp)
    · exact h
  | readErr =>
    simp only [step]
    split
    · rename_i hr
      exact inv_frame h rfl rfl (by simp [heldEntries, hr]) (Nat.le_refl _) (by simp)
    · exact h
  | failStep =>
    simp only [step]
    split
    · rename_i r w g hr
      exact inv_frame h rfl rfl (by simp [heldEntries, hr]) (Nat.le_refl _) (by simp)
    · rename_i r w g hr
      exact inv_frame h rfl rfl (by simp [heldEntries, hr]) (Nat.le_refl _) (by simp)
    · rename_i r w g hr
      exact inv_drain h s.regClosed r w g (by simp [heldEntries, hr])
    · rename_i r w g hr
      exact inv_drain h true r w g (by simp [heldEntries, hr])
    · rename_i r g hr
      exact inv_frame h rfl rfl (by simp [heldEntries, hr]) (Nat.le_refl _) (by simp)
    · rename_i r e w g hr
      exact inv_push h e w _ .connErr (by simp [heldEntries, hr]) (by simp [heldEntries]) (by simp) (by simp)
    · rename_i e w g hr
      exact inv_push h e w _ .closed (by simp [heldEntries, hr]) (by simp [heldEntries]) (by simp) (by simp)
    · rename_i g hr
      exact inv_frame h rfl rfl (by simp [heldEntries, hr]) (Nat.le_refl _) (by simp)
    · exact h
  | subscribe =>
    simp only [step]
    split
    · exact inv_frame h rfl rfl rfl (Nat.le_refl _) (fun _ _ hr => hr)
    · exact h
  | unsubscribe => exact inv_frame h rfl rfl rfl (Nat.le_refl _) (fun _ _ hr => hr)

theorem inv_run {cfg : Cfg} {s : State} (h : Inv cfg s) (evs : List Ev) : Inv cfg (run cfg s evs) := by
  induction evs generalizing s with
  | nil => exact h
  | cons e r ih => exact ih (inv_step h e)


/-! ### liveness-side invariant: a registered caller that still waits has a live sender somewhere -/

def hasToken (s : State) (c : Nat) : Prop :=
  (s.calls c).id ∈ ids s.pending ∨ (s.calls c).id ∈ ids (heldEntries s)

def Live (s : State) : Prop :=
  ∀ c, (s.calls c).pc = .active → (s.calls c).reg = true → (s.calls c).chan = [] → hasToken s c

theorem live_init : Live State.init := by
  intro c h; simp [State.init] at h

theorem live_frame {s s' : State} (hl : Live s) (hc : s'.calls = s.calls) (hp : s'.pending = s.pending)
    (hh : heldEntries s' = heldEntries s) : Live s' := by
  intro c; simp only [hasToken, hc, hp, hh]; exact hl c

theorem live_local {s : State} (hl : Live s) (c : Nat) (k : Call)
    (hid : k.id = (s.calls c).id)
    (hk : k.pc = .active → k.reg = true → k.chan = [] →
      (s.calls c).pc = .active ∧ (s.calls c).reg = true ∧ (s.calls c).chan = []) :
    Live (setCall s c k) := by
  intro d
  have hh : heldEntries (setCall s c k) = heldEntries s := by simp [heldEntries]
  simp only [hasToken, hh, setCall_pending, setCall_calls]
  split
  · rename_i hd; subst hd
    intro h1 h2 h3
    obtain ⟨a, b, c'⟩ := hk h1 h2 h3
    rw [hid]; exact hl _ a b c'
  · exact hl d

theorem live_step {cfg : Cfg} {s : State} (h : Inv cfg s) (hl : Live s) (e : Ev) : Live (step cfg s e) := by
  cases e with
  | alloc c =>
    simp only [step]
    split
    · intro d
      have hh : ∀ k, heldEntries (setCall { s with nextId := s.nextId + 1 } c k) = heldEntries s := by
        intro k; simp [heldEntries]
      simp only [hasToken, hh, setCall_pending, setCall_calls]
      split
      · simp
      · exact hl d
    · exact hl
  | skip => exact live_frame hl rfl rfl rfl
  | register c =>
    simp only [step]
    split
    · rename_i hc
      obtain ⟨hpc, hreg, _⟩ := canRegister_iff.1 hc
      split
      · exact live_local hl c _ rfl (by simp)
      split
      · exact live_local hl c _ rfl (by simp)
      · intro d
        have hh : ∀ k, heldEntries (setCall { s with pending := ((s.calls c).id, c) :: erase s.pending (s.calls c).id } c k) = heldEntries s := by
          intro k; simp [heldEntries]
        simp only [hasToken, hh, setCall_pending, setCall_calls]
        split
        · intro _ _ _; left; simp [ids]
        · rename_i hd
          intro h1 h2 h3
          have hne : (s.calls d).id ≠ (s.calls c).id := fun heq =>
            hd (h.inj d c (by rw [h1]; simp) (by rw [hpc]; simp) heq)
          rcases hl d h1 h2 h3 with ht | ht
          · left
            simp only [ids, List.map_cons, List.mem_cons]; right
            simpa [ids] using mem_ids_erase.2 ⟨ht, hne⟩
          · right; exact ht
    · exact hl
  | write c =>
    simp only [step]
    split
    · split
      · exact live_local hl c _ rfl (by simp)
      · exact live_local hl c _ rfl (by intro a b c'; exact ⟨a, b, c'⟩)
    · exact hl
  | writeFail c =>
    simp only [step]
    split
    · exact live_local hl c _ rfl (by simp)
    · exact hl
  | recv c =>
    simp only [step]
    split
    · split
      · exact live_local hl c _ rfl (by simp)
      · exact hl
    · exact hl
  | timeout c =>
    simp only [step]
    split
    · exact live_local hl c _ rfl (by simp)
    · exact hl
  | cancel c =>
    simp only [step]
    split
    · exact live_local hl c _ rfl (by simp)
    · exact hl
  | cleanup c =>
    simp only [step]
    split
    · rename_i o hpc
      intro d
      have hh : ∀ p k, heldEntries (setCall { s with pending := p } c k) = heldEntries s := by
        intro p k; simp [heldEntries]
      simp only [hasToken, hh, setCall_pending, setCall_calls]
      split
      · simp
      · rename_i hd
        intro h1 h2 h3
        have hne : (s.calls d).id ≠ (s.calls c).id := fun heq =>
          hd (h.inj d c (by rw [h1]; simp) (by rw [hpc]; simp) heq)
        rcases hl d h1 h2 h3 with ht | ht
        · left
          split
          · exact mem_ids_erase.2 ⟨ht, hne⟩
          · exact ht
        · right; exact ht
    · exact hl
  | rmatch f =>
    simp only [step]
    split
    · rename_i hr
      split
      · split
        · exact live_frame hl rfl rfl (by simp [heldEntries, hr])
        · exact hl
      · split
        · rename_i c hlk
          intro d h1 h2 h3
          simp only [hasToken, heldEntries, ids, List.map_cons, List.map_nil, List.mem_singleton]
          by_cases hid : (s.calls d).id = f.id
          · right; exact hid
          · left
            rcases hl d h1 h2 h3 with ht | ht
            · simpa [ids] using mem_ids_erase.2 ⟨ht, hid⟩
            · simp [heldEntries, hr, ids] at ht
        · exact hl
    · exact hl
  | deliver =>
    simp only [step]
    split
    · rename_i c f hr
      intro d
      have hown : Owned s (f.id, c) := h.ownH _ (by simp [heldEntries, hr])
      simp only [hasToken, push, setCall_calls, setCall_pending]
      split
      · simp
      · rename_i hd
        intro h1 h2 h3
        rcases hl d h1 h2 h3 with ht | ht
        · left; exact ht
        · simp only [heldEntries, hr, ids, List.map_cons, List.map_nil, List.mem_singleton] at ht
          exact absurd (h.inj d c (by rw [h1]; simp) hown.1 (by rw [ht]; exact hown.2.1.symm)) hd
    · rename_i g f hr
      exact live_frame hl rfl rfl (by simp [heldEntries, hr])
    · exact hl
  | readErr =>
    simp only [step]
    split
    · rename_i hr; exact live_frame hl rfl rfl (by simp [heldEntries, hr])
    · exact hl
  | failStep =>
    simp only [step]
    split
    · rename_i r w g hr; exact live_frame hl rfl rfl (by simp [heldEntries, hr])
    · rename_i r w g hr; exact live_frame hl rfl rfl (by simp [heldEntries, hr])
    · rename_i r w g hr
      intro d h1 h2 h3
      right
      simp only [heldEntries, ids, List.map_append, List.mem_append]
      rcases hl d h1 h2 h3 with ht | ht
      · right; simpa [ids] using ht
      · left; simpa [heldEntries, hr, ids] using ht
    · rename_i r w g hr
      intro d h1 h2 h3
      right
      simp only [heldEntries, ids, List.map_append, List.mem_append]
      rcases hl d h1 h2 h3 with ht | ht
      · right; simpa [ids] using ht
      · left; simpa [heldEntries, hr, ids] using ht
    · rename_i r g hr; exact live_frame hl rfl rfl (by simp [heldEntries, hr])
    · rename_i r e w g hr
      intro d
      have hown : Owned s e := h.ownH _ (by simp [heldEntries, hr])
      simp only [hasToken, push, setCall_calls, setCall_pending]
      split
      · simp
      · rename_i hd
        intro h1 h2 h3
        rcases hl d h1 h2 h3 with ht | ht
        · left; exact ht
        · right
          simp only [heldEntries, hr, ids, List.map_cons, List.mem_cons] at ht
          rcases ht with ht | ht
          · exact absurd (h.inj d e.2 (by rw [h1]; simp) hown.1 (by rw [ht]; exact hown.2.1.symm)) hd
          · simpa [heldEntries, ids] using ht
    · rename_i e w g hr
      intro d
      have hown : Owned s e := h.ownH _ (by simp [heldEntries, hr])
      simp only [hasToken, push, setCall_calls, setCall_pending]
      split
      · simp
      · rename_i hd
        intro h1 h2 h3
        rcases hl d h1 h2 h3 with ht | ht
        · left; exact ht
        · right
          simp only [heldEntries, hr, ids, List.map_cons, List.mem_cons] at ht
          rcases ht with ht | ht
          · exact absurd (h.inj d e.2 (by rw [h1]; simp) hown.1 (by rw [ht]; exact hown.2.1.symm)) hd
          · simpa [heldEntries, ids] using ht
    · rename_i g hr; exact live_frame hl rfl rfl (by simp [heldEntries, hr])
    · exact hl
  | subscribe =>
    simp only [step]
    split
    · exact live_frame hl rfl rfl rfl
    · exact hl
  | unsubscribe => exact live_frame hl rfl rfl rfl

theorem inv_live_run {cfg : Cfg} {s : State} (h : Inv cfg s) (hl : Live s) (evs : List Ev) :
    Inv cfg (run cfg s evs) ∧ Live (run cfg s evs) := by
  induction evs generalizing s with
  | nil => exact ⟨h, hl⟩
  | cons e r ih => exact ih (inv_step h e) (live_step h hl e)


/-! ### misc. step facts -/

theorem nextId_step (cfg : Cfg) (s : State) (e : Ev) :
    s.nextId ≤ (step cfg s e).nextId ∧ (step cfg s e).nextId ≤ s.nextId + 1 := by
  cases e <;> simp only [step] <;> (repeat' split) <;> simp [setCall, push]

theorem nextId_run (cfg : Cfg) (s : State) (evs : List Ev) : (run cfg s evs).nextId ≤ s.nextId + evs.length := by
  induction evs generalizing s with
  | nil => simp [run]
  | cons e r ih =>
    have h1 := (nextId_step cfg s e).2
    have h2 := ih (step cfg s e)
    simp only [run, List.foldl_cons, List.length_cons] at *
    omega

/-- A call that has returned keeps its result, whatever happens afterwards. -/
theorem returned_stable (cfg : Cfg) (s : State) (e : Ev) (c : Nat) (o : Outcome)
    (h : (s.calls c).pc = .returned o) : ((step cfg s e).calls c).pc = .returned o := by
  cases e <;> simp only [step] <;> (repeat' split) <;>
    simp_all [setCall, push, canRegister, canWrite] <;> (try split) <;> simp_all

theorem returned_stable_run (cfg : Cfg) (s : State) (evs : List Ev) (c : Nat) (o : Outcome)
    (h : (s.calls c).pc = .returned o) : ((run cfg s evs).calls c).pc = .returned o := by
  induction evs generalizing s with
  | nil => exact h
  | cons e r ih => exact ih (step cfg s e) (returned_stable cfg s e c o h)

/-- The identity of a started call never changes. -/
theorem id_stable (cfg : Cfg) (s : State) (e : Ev) (c : Nat) (h : (s.calls c).pc ≠ .idle) :
    ((step cfg s e).calls c).id = (s.calls c).id ∧ ((step cfg s e).calls c).pc ≠ .idle ∧
    ((s.calls c).reg = true → ((step cfg s e).calls c).reg = true) := by
  cases e <;> simp only [step] <;> (repeat' split) <;>
    simp_all [setCall, push, canRegister, canWrite] <;> (try split) <;> simp_all

/-- Once a registered caller's entry has left the pending map it never comes back
(a second response with the same id stays unknown for ever). -/
theorem consumed_step {cfg : Cfg} {s : State} (h : Inv cfg s) (e : Ev) (c : Nat)
    (hpc : (s.calls c).pc ≠ .idle) (hreg : (s.calls c).reg = true) (hn : (s.calls c).id ∉ ids s.pending) :
    (s.calls c).id ∉ ids (step cfg s e).pending := by
  cases e with
  | register d =>
    simp only [step]
    split
    · rename_i hc
      obtain ⟨hpd, hrd, _⟩ := canRegister_iff.1 hc
      split
      · simpa using hn
      split
      · simpa using hn
      · simp only [setCall_pending, ids, List.map_cons, List.mem_cons, not_or]
        refine ⟨fun heq => ?_, fun hm => hn (mem_ids_erase.1 (by simpa [ids] using hm)).1⟩
        have := h.inj c d hpc (by rw [hpd]; simp) heq
        subst this; rw [hreg] at hrd; cases hrd
    · exact hn
  | cleanup d =>
    simp only [step]
    split
    · simp only [setCall_pending]
      split
      · exact fun hm => hn (mem_ids_erase.1 hm).1
      · exact hn
    · exact hn
  | rmatch f =>
    simp only [step]
    (repeat' split) <;> first | exact hn | exact fun hm => hn (mem_ids_erase.1 hm).1
  | failStep =>
    simp only [step]
    (repeat' split) <;> first | exact hn | simp [ids, push]
  | alloc d => simp only [step]; split <;> simpa using hn
  | skip => simpa [step] using hn
  | write d => simp only [step]; (repeat' split) <;> simpa using hn
  | writeFail d => simp only [step]; (repeat' split) <;> simpa using hn
  | recv d => simp only [step]; (repeat' split) <;> simpa using hn
  | timeout d => simp only [step]; (repeat' split) <;> simpa using hn
  | cancel d => simp only [step]; (repeat' split) <;> simpa using hn
  | deliver => simp only [step]; (repeat' split) <;> simpa [push] using hn
  | readErr => simp only [step]; (repeat' split) <;> simpa using hn
  | subscribe => simp only [step]; (repeat' split) <;> simpa using hn
  | unsubscribe => simpa [step] using hn

/-- States reachable from the initial state by some interleaving. -/
def Reachable (cfg : Cfg) (s : State) : Prop := ∃ evs, s = run cfg State.init evs

theorem Reachable.inv {cfg : Cfg} {s : State} (h : Reachable cfg s) : Inv cfg s ∧ Live s := by
  obtain ⟨evs, rfl⟩ := h
  exact inv_live_run (inv_init cfg) live_init evs

theorem Reachable.step {cfg : Cfg} {s : State} (h : Reachable cfg s) (e : Ev) : Reachable cfg (Mux.step cfg s e) := by
  obtain ⟨evs, rfl⟩ := h
  exact ⟨evs ++ [e], by simp [Mux.run]⟩

theorem Reachable.run {cfg : Cfg} {s : State} (h : Reachable cfg s) (evs : List Ev) : Reachable cfg (Mux.run cfg s evs) := by
  induction evs generalizing s with
  | nil => exact h
  | cons e r ih => exact ih (h.step e)

theorem reachable_init (cfg : Cfg) : Reachable cfg State.init := ⟨[], rfl⟩

/-- Induction principle over reachable states. -/
theorem Reachable.induction {cfg : Cfg} {P : State → Prop} (h0 : P State.init)
    (hstep : ∀ s e, Reachable cfg s → P s → P (Mux.step cfg s e)) {s : State} (h : Reachable cfg s) : P s := by
  obtain ⟨evs, rfl⟩ := h
  suffices ∀ t, Reachable cfg t → P t → P (Mux.run cfg t evs) from this _ (reachable_init cfg) h0
  induction evs with
  | nil => intro t _ ht; exact ht
  | cons e r ih => intro t hr ht; exact ih _ (hr.step e) (hstep t e hr ht)

/-- With register-before-write a written request belongs to a registered call. -/
theorem wrote_reg_step {cfg : Cfg} (hrbw : cfg.regBeforeWrite = true) (s : State) (e : Ev)
    (h : ∀ c, (s.calls c).wrote = true → (s.calls c).reg = true) (c : Nat) :
    ((step cfg s e).calls c).wrote = true → ((step cfg s e).calls c).reg = true := by
  have hc := h c
  cases e <;> simp only [step] <;> (repeat' split) <;>
    simp_all [setCall, push, canRegister, canWrite] <;> (try split) <;> simp_all

theorem wrote_reg {cfg : Cfg} (hrbw : cfg.regBeforeWrite = true) {s : State} (hs : Reachable cfg s) :
    ∀ c, (s.calls c).wrote = true → (s.calls c).reg = true :=
  Reachable.induction (P := fun s => ∀ c, (s.calls c).wrote = true → (s.calls c).reg = true)
    (by intro c; simp [State.init]) (fun s e _ ih c => wrote_reg_step hrbw s e ih c) hs

/-- What a call can return: a result is only ever produced from the caller's own channel, from its
abandon reason, or by the duplicate-id refusal. -/
theorem mismatch_step {cfg : Cfg} {s : State} (h : Inv cfg s) (e : Ev) (c : Nat)
    (hne : (s.calls c).pc ≠ .returned .idMismatch) : ((step cfg s e).calls c).pc ≠ .returned .idMismatch := by
  have hch : ∀ m l, (s.calls c).chan = m :: l → outcomeOf (s.calls c) m ≠ .idMismatch := by
    intro m l hm
    cases m with
    | resp f =>
      have := (h.chanId c f (by rw [hm]; exact List.mem_cons_self)).1
      simp [outcomeOf, this]
    | connErr => simp [outcomeOf]
    | closed => simp [outcomeOf]
  cases e with
  | recv d =>
    simp only [step]
    split
    · split
      · rename_i m l hm
        simp only [setCall_calls]
        split
        · rename_i hcd; subst hcd; simpa using hch m l hm
        · exact hne
      · exact hne
    · exact hne
  | cleanup d =>
    simp only [step]
    split
    · rename_i o _
      simp only [setCall_calls]
      split
      · cases o <;> simp [Abandon.outcome]
      · exact hne
    · exact hne
  | alloc d => simp only [step]; (repeat' split) <;> simp_all [setCall] <;> (try split) <;> simp_all
  | skip => simpa [step] using hne
  | register d => simp only [step]; (repeat' split) <;> simp_all [setCall] <;> (try split) <;> simp_all
  | write d => simp only [step]; (repeat' split) <;> simp_all [setCall] <;> (try split) <;> simp_all
  | writeFail d => simp only [step]; (repeat' split) <;> simp_all [setCall] <;> (try split) <;> simp_all
  | timeout d => simp only [step]; (repeat' split) <;> simp_all [setCall] <;> (try split) <;> simp_all
  | cancel d => simp only [step]; (repeat' split) <;> simp_all [setCall] <;> (try split) <;> simp_all
  | rmatch f => simp only [step]; (repeat' split) <;> simp_all
  | deliver => simp only [step]; (repeat' split) <;> simp_all [setCall, push] <;> (try split) <;> simp_all
  | readErr => simp only [step]; (repeat' split) <;> simp_all
  | failStep => simp only [step]; (repeat' split) <;> simp_all [setCall, push] <;> (try split) <;> simp_all
  | subscribe => simp only [step]; (repeat' split) <;> simp_all
  | unsubscribe => simpa [step] using hne

/-! ### C06: the failure path -/

/-- Writes fail or registrations are refused. -/
def guarded (s : State) : Bool := s.writerShut || s.regClosed

theorem goodOrder_nodrain {g d : Bool} {l : List FailStep}
    (h1 : FailStep.drainPending ∉ l) (h2 : FailStep.closeAndDrain ∉ l) : goodOrder g d l = d := by
  induction l generalizing g with
  | nil => rfl
  | cons a r ih =>
    simp only [List.mem_cons, not_or] at h1 h2
    cases a <;> simp only [goodOrder]
    · exact ih h1.2 h2.2
    · exact ih h1.2 h2.2
    · exact absurd rfl h1.1
    · exact ih h1.2 h2.2
    · exact absurd rfl h2.1

theorem goodOrder_mono {d : Bool} {l : List FailStep} (h : goodOrder false d l = true) : goodOrder true d l = true := by
  induction l generalizing d with
  | nil => exact h
  | cons a r ih =>
    cases a <;> simp only [goodOrder] at h ⊢
    · exact h
    · exact ih h
    · simp at h
    · exact ih h
    · exact h

theorem goodOrder_of_guard {g d : Bool} {l : List FailStep} (h : goodOrder false d l = true) : goodOrder g d l = true := by
  cases g
  · exact h
  · exact goodOrder_mono h

/-- The reader has executed its last drain (or has finished): nothing drains the map any more. -/
def PostDrain (s : State) : Prop :=
  match s.reader with
  | .failing todo _ _ => FailStep.drainPending ∉ todo ∧ FailStep.closeAndDrain ∉ todo
  | .finished _ => True
  | _ => False

/-- The connection failure has been noticed by the reader. -/
def Failed (s : State) : Prop :=
  match s.reader with
  | .failing _ _ _ => True
  | .finished _ => True
  | _ => False

/-- Invariant of the failure path (needs a good fail-all order and register-before-write). -/
structure DInv (s : State) : Prop where
  good : ∀ todo w g, s.reader = .failing todo w g →
    ∃ d, goodOrder (guarded s) d todo = true ∧ (d = true → guarded s = true)
  fin : ∀ g, s.reader = .finished g → guarded s = true
  closedEmpty : s.regClosed = true → s.pending = []
  unwritten : PostDrain s → ∀ e ∈ s.pending, (s.calls e.2).wrote = false

theorem dinv_init : DInv State.init := by
  constructor <;> simp [State.init, PostDrain]

theorem postDrain_guarded {s : State} (h : DInv s) (hp : PostDrain s) : guarded s = true := by
  unfold PostDrain at hp
  split at hp
  · rename_i todo w g hr
    obtain ⟨d, hd, hg⟩ := h.good todo w g hr
    rw [goodOrder_nodrain hp.1 hp.2] at hd
    exact hg hd
  · rename_i g hr; exact h.fin g hr
  · exact absurd hp id

theorem dinv_step {cfg : Cfg} (hgo : goodOrder false false cfg.failOrder = true) (hrbw : cfg.regBeforeWrite = true)
    {s : State} (h : DInv s) (e : Ev) : DInv (step cfg s e) := by
  -- events that leave reader, the two guards and pending alone and do not set `wrote`
  have keep : ∀ s' : State, s'.reader = s.reader → s'.writerShut = s.writerShut → s'.regClosed = s.regClosed →
      s'.pending = s.pending → (∀ c, (s'.calls c).wrote = true → (s.calls c).wrote = true) → DInv s' := by
    intro s' h1 h2 h2' h3 h4
    have hg : guarded s' = guarded s := by simp [guarded, h2, h2']
    constructor
    · rw [h1, hg]; exact h.good
    · rw [h1, hg]; exact h.fin
    · rw [h2', h3]; exact h.closedEmpty
    · intro hp e he
      have hp' : PostDrain s := by simpa [PostDrain, h1] using hp
      have := h.unwritten hp' e (by rw [← h3]; exact he)
      cases hw : (s'.calls e.2).wrote
      · rfl
      · rw [h4 e.2 hw] at this; cases this
  -- a caller-only update
  have keepCall : ∀ (c : Nat) (k : Call), (k.wrote = true → (s.calls c).wrote = true) → DInv (setCall s c k) := by
    intro c k hk
    refine keep _ rfl rfl rfl rfl ?_
    intro d; simp only [setCall_calls]; split
    · rename_i hd; subst hd; exact hk
    · exact id
  cases e with
  | alloc c =>
    simp only [step]; split
    · refine keep _ rfl rfl rfl rfl ?_
      intro d; simp only [setCall_calls]; split <;> simp
    · exact h
  | skip => exact keep _ rfl rfl rfl rfl (fun _ hw => hw)
  | register c =>
    simp only [step]; split
    · rename_i hc
      obtain ⟨hpc, hreg, hwr⟩ := canRegister_iff.1 hc
      split
      · exact keepCall c _ (by simp)
      · rename_i hclosed
        split
        · exact keepCall c _ (by simp)
        · constructor
          · simpa [guarded] using h.good
          · simpa [guarded] using h.fin
          · intro hx; exact absurd (by simpa using hx) hclosed
          · intro hp e he
            have hp' : PostDrain s := by simpa [PostDrain] using hp
            simp only [setCall_pending, List.mem_cons] at he
            simp only [setCall_calls]
            rcases he with he | he
            · subst he; simp [hwr, hrbw]
            · have := h.unwritten hp' e (mem_erase.1 he).1
              split
              · simp [hwr, hrbw]
              · exact this
    · exact h
  | write c =>
    simp only [step]; split
    · split
      · exact keepCall c _ (by simp)
      · rename_i hshut
        constructor
        · simpa [guarded] using h.good
        · simpa [guarded] using h.fin
        · simpa using h.closedEmpty
        · intro hp e he
          have hp' : PostDrain s := by simpa [PostDrain] using hp
          have hg := postDrain_guarded h hp'
          have hrc : s.regClosed = true := by
            simp only [guarded, Bool.or_eq_true] at hg
            rcases hg with hg | hg
            · exact absurd hg hshut
            · exact hg
          have := h.closedEmpty hrc
          simp only [setCall_pending] at he
          rw [this] at he; simp at he
    · exact h
  | writeFail c =>
    simp only [step]; split
    · exact keepCall c _ (by simp)
    · exact h
  | recv c =>
    simp only [step]; split
    · split
      · exact keepCall c _ (by simp)
      · exact h
    · exact h
  | timeout c =>
    simp only [step]; split
    · exact keepCall c _ (by simp)
    · exact h
  | cancel c =>
    simp only [step]; split
    · exact keepCall c _ (by simp)
    · exact h
  | cleanup c =>
    simp only [step]; split
    · constructor
      · simpa [guarded] using h.good
      · simpa [guarded] using h.fin
      · intro hx
        have := h.closedEmpty (by simpa using hx)
        simp only [setCall_pending, this]
        split <;> simp [erase]
      · intro hp e he
        have hp' : PostDrain s := by simpa [PostDrain] using hp
        have hmem : e ∈ s.pending := by
          simp only [setCall_pending] at he
          split at he
          · exact (mem_erase.1 he).1
          · exact he
        have := h.unwritten hp' e hmem
        simp only [setCall_calls]; split
        · rename_i hd; rw [hd] at this; simpa using this
        · exact this
    · exact h
  | rmatch f =>
    simp only [step]; split
    · rename_i hr
      split
      · split
        · constructor
          · intro todo w g hx; simp at hx
          · intro g hx; simp at hx
          · exact h.closedEmpty
          · intro hp; simp [PostDrain] at hp
        · exact h
      · split
        · constructor
          · intro todo w g hx; simp at hx
          · intro g hx; simp at hx
          · intro hx
            have := h.closedEmpty hx
            simp [this, erase]
          · intro hp; simp [PostDrain] at hp
        · exact h
    · exact h
  | deliver =>
    simp only [step]; split
    · constructor
      · intro todo w g hx; simp [push] at hx
      · intro g hx; simp [push] at hx
      · simpa [push] using h.closedEmpty
      · intro hp; simp [PostDrain, push] at hp
    · constructor
      · intro todo w g hx; simp at hx
      · intro g hx; simp at hx
      · exact h.closedEmpty
      · intro hp; simp [PostDrain] at hp
    · exact h
  | readErr =>
    simp only [step]; split
    · constructor
      · intro todo w g hx
        simp only [Reader.failing.injEq] at hx
        refine ⟨false, ?_, by simp⟩
        rw [← hx.1]; exact goodOrder_of_guard hgo
      · intro g hx; simp at hx
      · exact h.closedEmpty
      · intro hp
        simp only [PostDrain] at hp
        have := goodOrder_nodrain (g := false) (d := false) hp.1 hp.2
        rw [hgo] at this; cases this
    · exact h
  | failStep =>
    simp only [step]; split
    · -- shutdownWriter
      rename_i r w g hr
      obtain ⟨d, hd, hg⟩ := h.good _ _ _ hr
      constructor
      · intro todo w' g' hx
        simp only [Reader.failing.injEq] at hx
        refine ⟨d, ?_, fun _ => by simp [guarded]⟩
        rw [← hx.1]; simp only [goodOrder] at hd; simpa [guarded] using hd
      · intro g' hx; simp at hx
      · exact h.closedEmpty
      · intro hp e he
        have hp' : PostDrain s := by
          simp only [PostDrain, hr]; simp only [PostDrain] at hp; simpa using hp
        exact h.unwritten hp' e he
    · -- takeNotify
      rename_i r w g hr
      obtain ⟨d, hd, hg⟩ := h.good _ _ _ hr
      constructor
      · intro todo w' g' hx
        simp only [Reader.failing.injEq] at hx
        refine ⟨d, ?_, by simpa [guarded] using hg⟩
        rw [← hx.1]; simp only [goodOrder] at hd; simpa [guarded] using hd
      · intro g' hx; simp at hx
      · exact h.closedEmpty
      · intro hp e he
        have hp' : PostDrain s := by
          simp only [PostDrain, hr]; simp only [PostDrain] at hp; simpa using hp
        exact h.unwritten hp' e he
    · -- drainPending
      rename_i r w g hr
      obtain ⟨d, hd, hg⟩ := h.good _ _ _ hr
      simp only [goodOrder, Bool.and_eq_true] at hd
      constructor
      · intro todo w' g' hx
        simp only [Reader.failing.injEq] at hx
        refine ⟨true, ?_, fun _ => by simpa [guarded] using hd.1⟩
        rw [← hx.1]; simpa [guarded] using hd.2
      · intro g' hx; simp at hx
      · intro _; rfl
      · intro _ e he; simp at he
    · -- closeAndDrain
      rename_i r w g hr
      obtain ⟨d, hd, hg⟩ := h.good _ _ _ hr
      simp only [goodOrder] at hd
      constructor
      · intro todo w' g' hx
        simp only [Reader.failing.injEq] at hx
        refine ⟨true, ?_, fun _ => by simp [guarded]⟩
        rw [← hx.1]; simpa [guarded] using hd
      · intro g' hx; simp at hx
      · intro _; rfl
      · intro _ e he; simp at he
    · -- sendErrors, no waiter left
      rename_i r g hr
      obtain ⟨d, hd, hg⟩ := h.good _ _ _ hr
      constructor
      · intro todo w' g' hx
        simp only [Reader.failing.injEq] at hx
        refine ⟨d, ?_, by simpa [guarded] using hg⟩
        rw [← hx.1]; simp only [goodOrder] at hd; simpa [guarded] using hd
      · intro g' hx; simp at hx
      · exact h.closedEmpty
      · intro hp e he
        have hp' : PostDrain s := by
          simp only [PostDrain, hr]; simp only [PostDrain] at hp; simpa using hp
        exact h.unwritten hp' e he
    · -- sendErrors, one waiter
      rename_i r e w g hr
      obtain ⟨d, hd, hg⟩ := h.good _ _ _ hr
      constructor
      · intro todo w' g' hx
        simp only [push, setCall_reader, Reader.failing.injEq] at hx
        refine ⟨d, ?_, by simpa [guarded, push] using hg⟩
        rw [← hx.1]; simpa [guarded, push] using hd
      · intro g' hx; simp [push] at hx
      · simpa [push] using h.closedEmpty
      · intro hp x hx
        have hp' : PostDrain s := by
          simp only [PostDrain, hr]; simpa [PostDrain, push] using hp
        have := h.unwritten hp' x (by simpa [push] using hx)
        simp only [push, setCall_calls]; split
        · rename_i hd; rw [hd] at this; simpa using this
        · exact this
    · -- dropping a sender that was never sent to
      rename_i e w g hr
      obtain ⟨d, hd, hg⟩ := h.good _ _ _ hr
      constructor
      · intro todo w' g' hx
        simp only [push, setCall_reader, Reader.failing.injEq] at hx
        refine ⟨d, ?_, by simpa [guarded, push] using hg⟩
        rw [← hx.1]; simpa [guarded, push] using hd
      · intro g' hx; simp [push] at hx
      · simpa [push] using h.closedEmpty
      · intro hp x hx
        have hp' : PostDrain s := by simp [PostDrain, hr]
        have := h.unwritten hp' x (by simpa [push] using hx)
        simp only [push, setCall_calls]; split
        · rename_i hd; rw [hd] at this; simpa using this
        · exact this
    · -- finished
      rename_i g hr
      obtain ⟨d, hd, hg⟩ := h.good _ _ _ hr
      simp only [goodOrder] at hd
      constructor
      · intro todo w' g' hx; simp at hx
      · intro _ _; simpa [guarded] using hg hd
      · exact h.closedEmpty
      · intro _ e he
        exact h.unwritten (by simp [PostDrain, hr]) e he
    · exact h
  | subscribe =>
    simp only [step]; split
    · exact keep _ rfl rfl rfl rfl (fun _ hw => hw)
    · exact h
  | unsubscribe => exact keep _ rfl rfl rfl rfl (fun _ hw => hw)

theorem Reachable.dinv {cfg : Cfg} (hgo : goodOrder false false cfg.failOrder = true) (hrbw : cfg.regBeforeWrite = true)
    {s : State} (hs : Reachable cfg s) : DInv s :=
  Reachable.induction (P := DInv) dinv_init (fun _ e _ ih => dinv_step hgo hrbw ih e) hs

/-- Once failed, always failed; once past the drain, always past the drain. -/
theorem failed_step (cfg : Cfg) (s : State) (e : Ev) (h : Failed s) : Failed (step cfg s e) := by
  unfold Failed at h
  cases e <;> simp only [step] <;> (repeat' split) <;> simp_all [Failed, push]

theorem postDrain_step (cfg : Cfg) (s : State) (e : Ev) (h : PostDrain s) : PostDrain (step cfg s e) := by
  unfold PostDrain at h
  cases e <;> simp only [step] <;> (repeat' split) <;> simp_all [PostDrain, push]

/-- After the failure was noticed no caller's channel ever receives a response again. -/
theorem no_resp_after_failure (cfg : Cfg) (s : State) (e : Ev) (c : Nat) (hf : Failed s)
    (h : ∀ f, Msg.resp f ∉ (s.calls c).chan) : ∀ f, Msg.resp f ∉ ((step cfg s e).calls c).chan := by
  unfold Failed at hf
  cases e <;> simp only [step] <;> (repeat' split) <;>
    simp_all [setCall, push] <;> (try split) <;> simp_all

/-- A call can only return a response that sits at the head of its own channel. -/
theorem no_resp_return_step {cfg : Cfg} {s : State} (e : Ev) (c : Nat)
    (hnr : ∀ f, Msg.resp f ∉ (s.calls c).chan) (hpc : ∀ f, (s.calls c).pc ≠ .returned (.resp f)) :
    ∀ f, ((step cfg s e).calls c).pc ≠ .returned (.resp f) := by
  intro f
  have hne := hpc f
  have hch : ∀ m l, (s.calls c).chan = m :: l → outcomeOf (s.calls c) m ≠ .resp f := by
    intro m l hm
    cases m with
    | resp f' => exact absurd (by rw [hm]; exact List.mem_cons_self) (hnr f')
    | connErr => simp [outcomeOf]
    | closed => simp [outcomeOf]
  cases e with
  | recv d =>
    simp only [step]
    split
    · split
      · rename_i m l hm
        simp only [setCall_calls]
        split
        · rename_i hcd; subst hcd; simpa using hch m l hm
        · exact hne
      · exact hne
    · exact hne
  | cleanup d =>
    simp only [step]
    split
    · rename_i o _
      simp only [setCall_calls]
      split
      · cases o <;> simp [Abandon.outcome]
      · exact hne
    · exact hne
  | alloc d => simp only [step]; (repeat' split) <;> simp_all [setCall] <;> (try split) <;> simp_all
  | skip => simpa [step] using hne
  | register d => simp only [step]; (repeat' split) <;> simp_all [setCall] <;> (try split) <;> simp_all
  | write d => simp only [step]; (repeat' split) <;> simp_all [setCall] <;> (try split) <;> simp_all
  | writeFail d => simp only [step]; (repeat' split) <;> simp_all [setCall] <;> (try split) <;> simp_all
  | timeout d => simp only [step]; (repeat' split) <;> simp_all [setCall] <;> (try split) <;> simp_all
  | cancel d => simp only [step]; (repeat' split) <;> simp_all [setCall] <;> (try split) <;> simp_all
  | rmatch f => simp only [step]; (repeat' split) <;> simp_all
  | deliver => simp only [step]; (repeat' split) <;> simp_all [setCall, push] <;> (try split) <;> simp_all
  | readErr => simp only [step]; (repeat' split) <;> simp_all
  | failStep => simp only [step]; (repeat' split) <;> simp_all [setCall, push] <;> (try split) <;> simp_all
  | subscribe => simp only [step]; (repeat' split) <;> simp_all
  | unsubscribe => simpa [step] using hne

/-! ### which of the two guards a finished failure path leaves behind -/

/-- `regClosed` is raised only by `closeAndDrain`, and once the failure path has finished every one
of its statements has run. -/
structure CInv (cfg : Cfg) (s : State) : Prop where
  only : s.regClosed = true → FailStep.closeAndDrain ∈ cfg.failOrder
  failing : ∀ todo w g, s.reader = .failing todo w g →
    ∃ pre, cfg.failOrder = pre ++ todo ∧ (FailStep.closeAndDrain ∈ pre → s.regClosed = true)
  fin : ∀ g, s.reader = .finished g → FailStep.closeAndDrain ∈ cfg.failOrder → s.regClosed = true

theorem cinv_init (cfg : Cfg) : CInv cfg State.init := by
  constructor <;> simp [State.init]

theorem cinv_step {cfg : Cfg} {s : State} (h : CInv cfg s) (e : Ev) : CInv cfg (step cfg s e) := by
  have keep : ∀ s' : State, s'.reader = s.reader → s'.regClosed = s.regClosed → CInv cfg s' := by
    intro s' h1 h2
    exact ⟨by rw [h2]; exact h.only, by rw [h1, h2]; exact h.failing, by rw [h1, h2]; exact h.fin⟩
  cases e with
  | alloc c => simp only [step]; split <;> first | exact keep _ rfl rfl | exact h
  | skip => exact keep _ rfl rfl
  | register c => simp only [step]; (repeat' split) <;> first | exact keep _ rfl rfl | exact h
  | write c => simp only [step]; (repeat' split) <;> first | exact keep _ rfl rfl | exact h
  | writeFail c => simp only [step]; (repeat' split) <;> first | exact keep _ rfl rfl | exact h
  | recv c => simp only [step]; (repeat' split) <;> first | exact keep _ rfl rfl | exact h
  | timeout c => simp only [step]; (repeat' split) <;> first | exact keep _ rfl rfl | exact h
  | cancel c => simp only [step]; (repeat' split) <;> first | exact keep _ rfl rfl | exact h
  | cleanup c => simp only [step]; (repeat' split) <;> first | exact keep _ rfl rfl | exact h
  | subscribe => simp only [step]; (repeat' split) <;> first | exact keep _ rfl rfl | exact h
  | unsubscribe => exact keep _ rfl rfl
  | rmatch f =>
    simp only [step]; split
    · (repeat' split) <;> first
        | exact h
        | exact ⟨h.only, by intro todo w g hx; simp at hx, by intro g hx; simp at hx⟩
    · exact h
  | deliver =>
    simp only [step]; split
    · exact ⟨by simpa [push] using h.only, by intro todo w g hx; simp [push] at hx, by intro g hx; simp [push] at hx⟩
    · exact ⟨h.only, by intro todo w g hx; simp at hx, by intro g hx; simp at hx⟩
    · exact h
  | readErr =>
    simp only [step]; split
    · refine ⟨h.only, ?_, by intro g hx; simp at hx⟩
      intro todo w g hx
      simp only [Reader.failing.injEq] at hx
      exact ⟨[], by rw [← hx.1]; rfl, by simp⟩
    · exact h
  | failStep =>
    -- one statement moves from `todo` to `pre`
    have adv : ∀ (st : FailStep) (r : List FailStep) (w : List (Nat × Nat)) (g : Nat) (s' : State) (w' : List (Nat × Nat)),
        s.reader = .failing (st :: r) w g → s'.reader = .failing r w' g →
        (s'.regClosed = true ↔ (s.regClosed = true ∨ st = .closeAndDrain)) → CInv cfg s' := by
      intro st r w g s' w' hr hr' hrc
      obtain ⟨pre, hpre, hc⟩ := h.failing _ _ _ hr
      refine ⟨?_, ?_, by intro g' hx; rw [hr'] at hx; simp at hx⟩
      · intro hx
        rcases hrc.1 hx with h1 | h1
        · exact h.only h1
        · rw [hpre, h1]; simp
      · intro todo w2 g2 hx
        rw [hr'] at hx
        simp only [Reader.failing.injEq] at hx
        refine ⟨pre ++ [st], by rw [← hx.1, hpre]; simp, ?_⟩
        intro hm
        simp only [List.mem_append, List.mem_singleton] at hm
        rcases hm with hm | hm
        · exact hrc.2 (Or.inl (hc hm))
        · exact hrc.2 (Or.inr hm.symm)
    simp only [step]; split
    · rename_i r w g hr; exact adv _ r w g _ w hr rfl (by simp)
    · rename_i r w g hr; exact adv _ r w g _ w hr rfl (by simp)
    · rename_i r w g hr; exact adv _ r w g _ _ hr rfl (by simp)
    · rename_i r w g hr; exact adv _ r w g _ _ hr rfl (by simp)
    · rename_i r g hr; exact adv _ r [] g _ [] hr rfl (by simp)
    · rename_i r e w g hr
      obtain ⟨pre, hpre, hc⟩ := h.failing _ _ _ hr
      refine ⟨by simpa [push] using h.only, ?_, by intro g' hx; simp [push] at hx⟩
      intro todo w2 g2 hx
      simp only [push, setCall_reader, Reader.failing.injEq] at hx
      exact ⟨pre, by rw [← hx.1]; exact hpre, by simpa [push] using hc⟩
    · rename_i e w g hr
      obtain ⟨pre, hpre, hc⟩ := h.failing _ _ _ hr
      refine ⟨by simpa [push] using h.only, ?_, by intro g' hx; simp [push] at hx⟩
      intro todo w2 g2 hx
      simp only [push, setCall_reader, Reader.failing.injEq] at hx
      exact ⟨pre, by rw [← hx.1]; exact hpre, by simpa [push] using hc⟩
    · rename_i g hr
      obtain ⟨pre, hpre, hc⟩ := h.failing _ _ _ hr
      refine ⟨h.only, by intro todo w g' hx; simp at hx, ?_⟩
      intro _ _ hm
      exact hc (by rw [hpre] at hm; simpa using hm)
    · exact h

theorem Reachable.cinv {cfg : Cfg} {s : State} (hs : Reachable cfg s) : CInv cfg s :=
  Reachable.induction (P := CInv cfg) (cinv_init cfg) (fun _ e _ ih => cinv_step ih e) hs

/-! ### residue -/

def AllRemove (cfg : Cfg) : Prop :=
  cfg.timeoutRemoves = true ∧ cfg.cancelRemoves = true ∧ cfg.writeErrRemoves = true

/-- A call that has returned has no entry in the pending map. -/
def NoResidue (s : State) : Prop :=
  ∀ c o, (s.calls c).pc = .returned o → (s.calls c).id ∉ ids s.pending

theorem removes_all {cfg : Cfg} (h : AllRemove cfg) (a : Abandon) : removes cfg a = true := by
  cases a <;> simp [removes, h.1, h.2.1, h.2.2]

theorem noResidue_step {cfg : Cfg} (hr : AllRemove cfg) {s : State} (hI : Inv cfg s) (h : NoResidue s) (e : Ev) :
    NoResidue (step cfg s e) := by
  -- an id in the pending map belongs to a registered caller
  have owner : ∀ c, (s.calls c).pc ≠ .idle → (s.calls c).id ∈ ids s.pending → (s.calls c).reg = true := by
    intro c hc hm
    obtain ⟨d, hd⟩ := mem_ids.1 hm
    have ho := hI.ownP _ hd
    have := hI.inj d c ho.1 hc ho.2.1
    subst this; exact ho.2.2
  intro c o
  cases e with
  | alloc d =>
    simp only [step]; split
    · simp only [setCall_calls, setCall_pending]; split
      · simp
      · exact h c o
    · exact h c o
  | skip => exact h c o
  | register d =>
    simp only [step]; split
    · rename_i hc
      obtain ⟨hpc, hreg, _⟩ := canRegister_iff.1 hc
      split
      · simp only [setCall_calls, setCall_pending]; split
        · rename_i hd; subst hd
          intro _ hm
          have := owner c (by rw [hpc]; simp) hm
          rw [hreg] at this; cases this
        · exact h c o
      split
      · simp only [setCall_calls, setCall_pending]; split
        · rename_i hd; subst hd
          intro _ hm
          have := owner c (by rw [hpc]; simp) hm
          rw [hreg] at this; cases this
        · exact h c o
      · simp only [setCall_calls, setCall_pending]; split
        · rename_i hd; subst hd; simp [hpc]
        · rename_i hd
          intro hret
          simp only [ids, List.map_cons, List.mem_cons, not_or]
          refine ⟨fun heq => hd (hI.inj c d (by rw [hret]; simp) (by rw [hpc]; simp) heq), fun hm => ?_⟩
          exact h c o hret (mem_ids_erase.1 (by simpa [ids] using hm)).1
    · exact h c o
  | write d =>
    simp only [step]; split
    · split <;> (simp only [setCall_calls, setCall_pending]; split)
      · simp
      · exact h c o
      · rename_i hc _ hd; subst hd
        have := (canWrite_iff.1 hc).1
        simp [this]
      · exact h c o
    · exact h c o
  | writeFail d =>
    simp only [step]; split
    · simp only [setCall_calls, setCall_pending]; split
      · simp
      · exact h c o
    · exact h c o
  | recv d =>
    simp only [step]; split
    · split
      · rename_i m l hm
        simp only [setCall_calls, setCall_pending]; split
        · rename_i hd; subst hd
          intro _
          exact (hI.chanExcl c (by rw [hm]; simp)).1
        · exact h c o
      · exact h c o
    · exact h c o
  | timeout d =>
    simp only [step]; split
    · simp only [setCall_calls, setCall_pending]; split
      · simp
      · exact h c o
    · exact h c o
  | cancel d =>
    simp only [step]; split
    · simp only [setCall_calls, setCall_pending]; split
      · simp
      · exact h c o
    · exact h c o
  | cleanup d =>
    simp only [step]; split
    · rename_i a hpc
      simp only [setCall_calls, setCall_pending, removes_all hr, Bool.true_and]; split
      · rename_i hd; subst hd
        intro _
        split
        · exact not_mem_ids_erase_self _ _
        · rename_i hreg
          intro hm
          exact hreg (owner c (by rw [hpc]; simp) hm)
      · intro hret
        split
        · exact fun hm => h c o hret (mem_ids_erase.1 hm).1
        · exact h c o hret
    · exact h c o
  | rmatch f =>
    simp only [step]; (repeat' split) <;> first | exact h c o | exact fun hret hm => h c o hret (mem_ids_erase.1 hm).1
  | deliver =>
    simp only [step]; split
    · simp only [push, setCall_calls, setCall_pending]; split
      · simpa using h _ o
      · exact h c o
    · exact h c o
    · exact h c o
  | readErr => simp only [step]; split <;> exact h c o
  | failStep =>
    simp only [step]; split
    · exact h c o
    · exact h c o
    · intro _; simp [ids]
    · intro _; simp [ids]
    · exact h c o
    · simp only [push, setCall_calls, setCall_pending]; split
      · simpa using h _ o
      · exact h c o
    · simp only [push, setCall_calls, setCall_pending]; split
      · simpa using h _ o
      · exact h c o
    · exact h c o
    · exact h c o
  | subscribe => simp only [step]; split <;> exact h c o
  | unsubscribe => exact h c o

theorem Reachable.noResidue {cfg : Cfg} (hr : AllRemove cfg) {s : State} (hs : Reachable cfg s) : NoResidue s :=
  Reachable.induction (P := NoResidue) (by intro c o; simp [State.init])
    (fun _ e hreach ih => noResidue_step hr hreach.inv.1 ih e) hs

/-! ### subscriber -/

/-- Subscriptions made before the failure was noticed (generation `< g0`) are closed once
`takeNotify` ran. -/
structure SInv (s : State) : Prop where
  lt : ∀ g, s.sub = some g → g < s.gen
  failing : ∀ todo w g0, s.reader = .failing todo w g0 →
    g0 ≤ s.gen ∧ (FailStep.takeNotify ∈ todo ∨ ∀ g, s.sub = some g → g0 ≤ g)
  fin : ∀ g0, s.reader = .finished g0 → g0 ≤ s.gen ∧ ∀ g, s.sub = some g → g0 ≤ g

theorem sinv_init : SInv State.init := by
  constructor <;> simp [State.init]

theorem sinv_step {cfg : Cfg} (ht : FailStep.takeNotify ∈ cfg.failOrder) {s : State} (h : SInv s) (e : Ev) :
    SInv (step cfg s e) := by
  have keep : ∀ s' : State, s'.reader = s.reader → s'.sub = s.sub → s'.gen = s.gen → SInv s' := by
    intro s' h1 h2 h3
    constructor
    · rw [h2, h3]; exact h.lt
    · rw [h1, h2, h3]; exact h.failing
    · rw [h1, h2, h3]; exact h.fin
  cases e with
  | alloc c => simp only [step]; split <;> first | exact keep _ rfl rfl rfl | exact h
  | skip => exact keep _ rfl rfl rfl
  | register c => simp only [step]; (repeat' split) <;> first | exact keep _ rfl rfl rfl | exact h
  | write c => simp only [step]; (repeat' split) <;> first | exact keep _ rfl rfl rfl | exact h
  | writeFail c => simp only [step]; (repeat' split) <;> first | exact keep _ rfl rfl rfl | exact h
  | recv c => simp only [step]; (repeat' split) <;> first | exact keep _ rfl rfl rfl | exact h
  | timeout c => simp only [step]; (repeat' split) <;> first | exact keep _ rfl rfl rfl | exact h
  | cancel c => simp only [step]; (repeat' split) <;> first | exact keep _ rfl rfl rfl | exact h
  | cleanup c => simp only [step]; (repeat' split) <;> first | exact keep _ rfl rfl rfl | exact h
  | rmatch f =>
    simp only [step]; split
    · rename_i hr
      (repeat' split) <;> first
        | exact h
        | (constructor
           · exact h.lt
           · intro todo w g0 hx; simp at hx
           · intro g0 hx; simp at hx)
    · exact h
  | deliver =>
    simp only [step]; split
    · constructor
      · simpa [push] using h.lt
      · intro todo w g0 hx; simp [push] at hx
      · intro g0 hx; simp [push] at hx
    · constructor
      · exact h.lt
      · intro todo w g0 hx; simp at hx
      · intro g0 hx; simp at hx
    · exact h
  | readErr =>
    simp only [step]; split
    · constructor
      · exact h.lt
      · intro todo w g0 hx
        simp only [Reader.failing.injEq] at hx
        rw [← hx.1, ← hx.2.2]
        exact ⟨Nat.le_refl _, Or.inl ht⟩
      · intro g0 hx; simp at hx
    · exact h
  | failStep =>
    simp only [step]; split
    · rename_i r w g hr
      have := h.failing _ _ _ hr
      constructor
      · exact h.lt
      · intro todo w' g0 hx
        simp only [Reader.failing.injEq] at hx
        rw [← hx.1, ← hx.2.2]
        exact ⟨this.1, this.2.imp (fun hm => by simpa using hm) id⟩
      · intro g0 hx; simp at hx
    · rename_i r w g hr
      have := h.failing _ _ _ hr
      constructor
      · intro g hx; simp at hx
      · intro todo w' g0 hx
        simp only [Reader.failing.injEq] at hx
        rw [← hx.2.2]
        exact ⟨this.1, Or.inr (by intro g hx; simp at hx)⟩
      · intro g0 hx; simp at hx
    · rename_i r w g hr
      have := h.failing _ _ _ hr
      constructor
      · exact h.lt
      · intro todo w' g0 hx
        simp only [Reader.failing.injEq] at hx
        rw [← hx.1, ← hx.2.2]
        exact ⟨this.1, this.2.imp (fun hm => by simpa using hm) id⟩
      · intro g0 hx; simp at hx
    · rename_i r w g hr
      have := h.failing _ _ _ hr
      constructor
      · exact h.lt
      · intro todo w' g0 hx
        simp only [Reader.failing.injEq] at hx
        rw [← hx.1, ← hx.2.2]
        exact ⟨this.1, this.2.imp (fun hm => by simpa using hm) id⟩
      · intro g0 hx; simp at hx
    · rename_i r g hr
      have := h.failing _ _ _ hr
      constructor
      · exact h.lt
      · intro todo w' g0 hx
        simp only [Reader.failing.injEq] at hx
        rw [← hx.1, ← hx.2.2]
        exact ⟨this.1, this.2.imp (fun hm => by simpa using hm) id⟩
      · intro g0 hx; simp at hx
    · rename_i r e w g hr
      have := h.failing _ _ _ hr
      constructor
      · simpa [push] using h.lt
      · intro todo w' g0 hx
        simp only [push, setCall_reader, Reader.failing.injEq] at hx
        simp only [push, setCall_gen, setCall_sub]
        rw [← hx.1, ← hx.2.2]; exact this
      · intro g0 hx; simp [push] at hx
    · rename_i e w g hr
      have := h.failing _ _ _ hr
      constructor
      · simpa [push] using h.lt
      · intro todo w' g0 hx
        simp only [push, setCall_reader, Reader.failing.injEq] at hx
        simp only [push, setCall_gen, setCall_sub]
        rw [← hx.1, ← hx.2.2]; exact this
      · intro g0 hx; simp [push] at hx
    · rename_i g hr
      have := h.failing _ _ _ hr
      constructor
      · exact h.lt
      · intro todo w' g0 hx; simp at hx
      · intro g0 hx
        simp only [Reader.finished.injEq] at hx
        rw [← hx]
        exact ⟨this.1, this.2.resolve_left (by simp)⟩
    · exact h
  | subscribe =>
    simp only [step]; split
    · constructor
      · intro g hx; simp only [Option.some.injEq] at hx; subst hx; simp
      · intro todo w g0 hx
        have := h.failing _ _ _ hx
        refine ⟨by simp only; omega, this.2.imp id (fun _ g hg => ?_)⟩
        simp only [Option.some.injEq] at hg; omega
      · intro g0 hx
        have := h.fin _ hx
        refine ⟨by simp only; omega, fun g hg => ?_⟩
        simp only [Option.some.injEq] at hg; omega
    · exact h
  | unsubscribe =>
    constructor
    · intro g hx; simp [step] at hx
    · intro todo w g0 hx
      have := h.failing _ _ _ (by simpa [step] using hx)
      exact ⟨by simpa [step] using this.1, Or.inr (by intro g hg; simp [step] at hg)⟩
    · intro g0 hx
      have := h.fin _ (by simpa [step] using hx)
      exact ⟨by simpa [step] using this.1, by intro g hg; simp [step] at hg⟩

theorem Reachable.sinv {cfg : Cfg} (ht : FailStep.takeNotify ∈ cfg.failOrder) {s : State} (hs : Reachable cfg s) : SInv s :=
  Reachable.induction (P := SInv) sinv_init (fun _ e _ ih => sinv_step ht ih e) hs

/-! ### batch -/

theorem mem_enumFrom {α} {l : List α} {n i : Nat} {a : α} (h : (i, a) ∈ enumFrom n l) :
    n ≤ i ∧ l[i - n]? = some a := by
  induction l generalizing n with
  | nil => simp [enumFrom] at h
  | cons x r ih =>
    simp only [enumFrom, List.mem_cons, Prod.mk.injEq] at h
    rcases h with ⟨h1, h2⟩ | h
    · subst h1; subst h2; simp
    · obtain ⟨hle, hget⟩ := ih h
      refine ⟨by omega, ?_⟩
      have : i - n = (i - (n + 1)) + 1 := by omega
      rw [this]; simpa using hget

/-- Invariant of the batch work queue. -/
structure BInv {ρ σ : Type} (reqs : List ρ) (b : Batch ρ σ) : Prop where
  queue : ∀ (i : Nat) q, (i, q) ∈ b.queue → reqs[i]? = some q
  cur : ∀ w (i : Nat) q, b.cur w = some (i, q) → reqs[i]? = some q
  out : ∀ (i : Nat) r, b.out[i]? = some (some r) → ∃ q, reqs[i]? = some q ∧ (q, r) ∈ b.log
  len : b.out.length = reqs.length

theorem binv_start {ρ σ : Type} (reqs : List ρ) : BInv reqs (Batch.start (σ := σ) reqs) := by
  constructor
  · intro i q h
    have := mem_enumFrom (by simpa [Batch.start] using h)
    simpa using this.2
  · intro w i q h; simp [Batch.start] at h
  · intro i r h
    simp only [Batch.start, List.getElem?_map] at h
    cases hq : reqs[i]? <;> simp [hq] at h
  · simp [Batch.start]

theorem binv_step {ρ σ : Type} {reqs : List ρ} {b : Batch ρ σ} (h : BInv reqs b) (e : BEv σ) : BInv reqs (bstep b e) := by
  cases e with
  | pop w =>
    simp only [bstep]
    split
    · rename_i e q hc hq
      constructor
      · intro i x hx; exact h.queue i x (by rw [hq]; exact List.mem_cons_of_mem _ hx)
      · intro w' i x
        simp only
        split
        · intro hx; cases hx; exact h.queue _ _ (by rw [hq]; exact List.mem_cons_self)
        · exact h.cur w' i x
      · exact h.out
      · exact h.len
    · exact h
  | finish w r =>
    simp only [bstep]
    split
    · rename_i i q hc
      have hq := h.cur w i q hc
      constructor
      · exact h.queue
      · intro w' i' x
        simp only
        split
        · simp
        · exact h.cur w' i' x
      · intro j r' hj
        simp only [List.getElem?_set] at hj
        split at hj
        · rename_i hij
          split at hj
          · simp only [Option.some.injEq] at hj
            subst hij; subst hj
            exact ⟨q, hq, List.mem_cons_self⟩
          · cases hj
        · obtain ⟨q', h1, h2⟩ := h.out j r' hj
          exact ⟨q', h1, List.mem_cons_of_mem _ h2⟩
      · simpa using h.len
    · exact h

theorem binv_run {ρ σ : Type} {reqs : List ρ} {b : Batch ρ σ} (h : BInv reqs b) (evs : List (BEv σ)) : BInv reqs (brun b evs) := by
  induction evs generalizing b with
  | nil => exact h
  | cons e r ih => exact ih (binv_step h e)

end Repe.Mux
