import RepeVerif.Model.Transfer
/-!
Helper lemmas about the `TransferControl` model (C11, C13). Generic in the extracted `Facts`; the
property files instantiate them with `Gen.transferFacts` and discharge the side conditions on the
facts by `decide`.
-/
namespace Repe.Transfer

/-! ### histories -/

theorem run_append (f : Facts) (m : OvMode) (s : State) (a b : List Op) :
    run f m s (a ++ b) = run f m (run f m s a) b := by
  induction a generalizing s with
  | nil => rfl
  | cons op a ih => simp [run, ih]

/-- An invariant of every step is an invariant of every history. -/
theorem run_inv {f : Facts} {m : OvMode} (P : State → Prop)
    (hstep : ∀ s op, P s → P (step f m s op).1) : ∀ ops s, P s → P (run f m s ops) := by
  intro ops
  induction ops with
  | nil => intro s h; exact h
  | cons op ops ih => intro s h; exact ih _ (hstep s op h)

theorem step_poisoned {f : Facts} {m : OvMode} {s : State} (op : Op) (h : s.poisoned = true) :
    step f m s op = (s, .panic) := by
  simp [step, h]

/-! ### the credit predicate -/

/-- The sum the code forms is exact: always for a checked add, for a saturating add unless the window is
`u64::MAX`, and for an unchecked add only while `in_flight + len` stays below 2^64. -/
def AddExact (f : Facts) (window infl len : Nat) : Prop :=
  f.creditAdd = .checked ∨ (f.creditAdd = .saturating ∧ window + 1 < U64) ∨ infl + len < U64

theorem creditFits_sound {f : Facts} {m : OvMode} {infl len w : Nat}
    (hx : AddExact f w infl len) (h : creditFits f m infl len w = .ok true) :
    infl = 0 ∨ infl + len ≤ w := by
  unfold creditFits at h
  split at h
  · rename_i hz
    simp at hz
    exact Or.inl hz.2
  · unfold addU64 at h
    by_cases hlt : infl + len < U64
    · simp only [hlt, if_true] at h
      right
      by_cases hle : f.creditLe = true
      · simp [hle] at h; exact h
      · simp [hle] at h; omega
    · simp only [hlt, if_false] at h
      rcases hx with hc | ⟨hs, hw⟩ | hb
      · simp [hc] at h
      · simp only [hs] at h
        by_cases hle : f.creditLe = true
        · simp [hle] at h; omega
        · simp [hle] at h; omega
      · exact absurd hb hlt

theorem creditFits_total {f : Facts} {m : OvMode} {infl len w : Nat}
    (h : f.creditAdd ≠ .unchecked ∨ infl + len < U64) :
    ∃ b, creditFits f m infl len w = .ok b := by
  unfold creditFits
  split
  · exact ⟨true, rfl⟩
  · unfold addU64
    by_cases hlt : infl + len < U64
    · simp only [hlt, if_true]; exact ⟨_, rfl⟩
    · simp only [hlt, if_false]
      rcases h with h | h
      · cases hf : f.creditAdd with
        | unchecked => exact absurd hf h
        | checked => exact ⟨false, rfl⟩
        | saturating => exact ⟨_, rfl⟩
      · exact absurd h hlt

/-- With the zero clause and `<=`, an exact sum grants exactly when the chunk fits. -/
theorem creditFits_complete {f : Facts} {m : OvMode} {infl len w : Nat}
    (hz : f.creditZero = true) (hle : f.creditLe = true) (hw : w < U64)
    (h : infl = 0 ∨ infl + len ≤ w) : creditFits f m infl len w = .ok true := by
  unfold creditFits
  by_cases h0 : infl = 0
  · simp [hz, h0]
  · have hfit : infl + len ≤ w := by rcases h with h | h; exact absurd h h0; exact h
    have hlt : infl + len < U64 := by omega
    simp [hz, h0, addU64, hlt, hle, hfit]

/-! ### small facts about the guards -/

theorem ackAdvances_ge {f : Facts} {capped acked : Nat} (h : ackAdvances f capped acked = true) : capped ≥ acked := by
  unfold ackAdvances at h
  split at h <;> simp at h <;> omega

theorem ackCapped_le_sent {f : Facts} (hcap : f.ackCap = true) (off sent : Nat) : ackCapped f off sent ≤ sent := by
  simp [ackCapped, hcap]; omega

theorem ackCapped_le_off (f : Facts) (off sent : Nat) : ackCapped f off sent ≤ off := by
  unfold ackCapped; split <;> omega

theorem resumeBumps_gt {f : Facts} {off acked sent : Nat} (h : resumeBumps f off acked sent = true) : off > acked := by
  simp [resumeBumps] at h; exact h.1

theorem resumeBumps_le {f : Facts} (hcap : f.resumeCap = true) {off acked sent : Nat}
    (h : resumeBumps f off acked sent = true) : off ≤ sent := by
  simp [resumeBumps, hcap] at h; exact h.2

theorem resumeBumps_iff {f : Facts} (hcap : f.resumeCap = true) (off acked sent : Nat) :
    resumeBumps f off acked sent = true ↔ (off > acked ∧ off ≤ sent) := by
  simp [resumeBumps, hcap]

theorem evict_cons (f : Facts) (cap : Nat) (c : Chunk) (cs : List Chunk) (held : Nat) :
    evict f cap (c :: cs) held =
      if evictGuard f held cap (cs.length + 1) then evict f cap cs (held - c.wireLen) else (c :: cs, held) := by
  simp [evict]

theorem evictGuard_false {f : Facts} {held cap len : Nat} (h : ¬ evictGuard f held cap len = true) :
    len ≤ 1 ∨ held ≤ cap := by
  unfold evictGuard at h
  by_cases hgt : f.evictHeldGt = true <;> by_cases hk : f.evictKeepOne = true <;> simp [hgt, hk] at h <;> omega

theorem evictGuard_keep {f : Facts} (hk : f.evictKeepOne = true) {held cap len : Nat}
    (h : evictGuard f held cap len = true) : len > 1 := by
  unfold evictGuard at h
  simp [hk] at h
  exact h.2

/-! ### C11: accounting invariants -/

theorem step_acked_le_sent {f : Facts} {m : OvMode} (hcap : f.ackCap = true) (hres : f.resumeCap = true) (s : State) (op : Op)
    (h : s.acked ≤ s.sent) : (step f m s op).1.acked ≤ (step f m s op).1.sent := by
  unfold step
  by_cases hp : s.poisoned = true
  · simp [hp, h]
  · simp only [hp, if_false, Bool.false_eq_true]
    cases op with
    | recordSent off =>
      simp only
      split
      · rename_i hgt; simp; omega
      · exact h
    | recordAck file off =>
      simp only
      split
      · split
        · simp; exact ackCapped_le_sent hcap _ _
        · exact h
      · exact h
    | cancel r => simp only; repeat' split
                  all_goals exact h
    | advance n => simp
    | requestResume p file off =>
      simp only
      split
      · exact h
      · split
        · exact h
        · split
          · split
            · rename_i hb; simp; exact resumeBumps_le hres hb
            · exact h
          · exact h
          · simp [poison]; exact h
    | waitCredit len =>
      simp only
      split
      · exact h
      · split <;> first | exact h | (simp [poison]; exact h)
    | waitReconnect =>
      simp only
      repeat' split
      all_goals exact h
    | pushReplay off dlen last body =>
      simp only
      split
      · exact h
      · simp [poison]; exact h
    | replayFrom off => exact h
    | setPeer p => exact h

/-- `sent − acked` never grows except through `record_sent`. -/
theorem step_inFlight_le {f : Facts} {m : OvMode} (s : State) (op : Op)
    (hop : ∀ off, op ≠ .recordSent off) : inFlight (step f m s op).1 ≤ inFlight s := by
  unfold step inFlight
  by_cases hp : s.poisoned = true
  · simp [hp]
  · simp only [hp, if_false, Bool.false_eq_true]
    cases op with
    | recordSent off => exact absurd rfl (hop off)
    | recordAck file off =>
      simp only
      split
      · split
        · rename_i hc
          have := ackAdvances_ge hc
          simp; omega
        · exact Nat.le_refl _
      · exact Nat.le_refl _
    | cancel r => simp only; repeat' split
                  all_goals exact Nat.le_refl _
    | advance n => simp
    | requestResume p file off =>
      simp only
      split
      · exact Nat.le_refl _
      · split
        · exact Nat.le_refl _
        · split
          · split
            · rename_i hb; have := resumeBumps_gt hb; simp; omega
            · exact Nat.le_refl _
          · exact Nat.le_refl _
          · simp [poison]
    | waitCredit len =>
      simp only
      split
      · exact Nat.le_refl _
      · split <;> first | exact Nat.le_refl _ | simp [poison]
    | waitReconnect =>
      simp only
      repeat' split
      all_goals exact Nat.le_refl _
    | pushReplay off dlen last body =>
      simp only
      split
      · exact Nat.le_refl _
      · simp [poison]
    | replayFrom off => exact Nat.le_refl _
    | setPeer p => exact Nat.le_refl _

/-- The window never changes. -/
theorem step_window {f : Facts} {m : OvMode} (s : State) (op : Op) : (step f m s op).1.window = s.window := by
  unfold step
  by_cases hp : s.poisoned = true
  · simp [hp]
  · simp only [hp, if_false, Bool.false_eq_true]
    cases op <;> simp only [poison] <;> repeat' split
    all_goals rfl

theorem ack_inert {f : Facts} {m : OvMode} (hft : f.ackFileTest = true) (s : State) (file off : Nat)
    (h : file ≠ s.file ∨ off ≤ s.acked) : (step f m s (.recordAck file off)).1 = s := by
  unfold step
  by_cases hp : s.poisoned = true
  · simp [hp]
  · simp only [hp, if_false, Bool.false_eq_true, hft]
    split
    · rename_i hfile
      simp at hfile
      have hoff : off ≤ s.acked := by rcases h with h | h; exact absurd hfile h; exact h
      split
      · rename_i hc
        have h1 := ackAdvances_ge hc
        have h2 := ackCapped_le_off f off s.sent
        have hcap : ackCapped f off s.sent = s.acked := by omega
        rw [hcap]
        have hpf : s.poisoned = false := by simp [hp]
        cases s; simp_all
      · rfl
    · rfl

/-! ### C11: the credit wait -/

theorem waitCredit_ok {f : Facts} {m : OvMode} {s : State} {len : Nat}
    (hx : AddExact f s.window (inFlight s) len)
    (h : (step f m s (.waitCredit len)).2 = .creditOk) :
    s.poisoned = false ∧ s.cancelled = none ∧ (inFlight s = 0 ∨ inFlight s + len ≤ s.window) := by
  unfold step at h
  by_cases hp : s.poisoned = true
  · simp [hp] at h
  · simp only [hp, if_false, Bool.false_eq_true] at h
    refine ⟨by simp [hp], ?_⟩
    cases hc : s.cancelled with
    | some r => simp [hc] at h
    | none =>
      refine ⟨rfl, ?_⟩
      simp only [hc] at h
      cases hf : creditFits f m (inFlight s) len s.window with
      | ok b =>
        cases b with
        | true => exact creditFits_sound hx hf
        | false => simp [hf] at h
      | err e => simp [hf, poison] at h
      | panic => simp [hf, poison] at h
      | abort => simp [hf, poison] at h

theorem waitCredit_no_panic {f : Facts} {m : OvMode} {s : State} {len : Nat}
    (hform : f.creditAdd ≠ .unchecked ∨ inFlight s + len < U64) (hp : s.poisoned = false) :
    (step f m s (.waitCredit len)).1 = s ∧ (step f m s (.waitCredit len)).2 ≠ .panic := by
  unfold step
  simp only [hp, if_false, Bool.false_eq_true]
  cases hc : s.cancelled with
  | some r => simp
  | none =>
    obtain ⟨b, hb⟩ := creditFits_total (m := m) (w := s.window) hform
    simp only [hb]
    cases b <;> simp

/-- Granted exactly when nothing is in flight or the chunk fits (current forms: zero clause, `<=`). -/
theorem waitCredit_iff {f : Facts} {m : OvMode} {s : State} {len : Nat}
    (hz : f.creditZero = true) (hle : f.creditLe = true) (hx : AddExact f s.window (inFlight s) len)
    (hw : s.window < U64) (hp : s.poisoned = false) (hc : s.cancelled = none) :
    (step f m s (.waitCredit len)).2 = .creditOk ↔ (inFlight s = 0 ∨ inFlight s + len ≤ s.window) := by
  constructor
  · intro h; exact (waitCredit_ok hx h).2.2
  · intro h
    unfold step
    simp only [hp, if_false, Bool.false_eq_true, hc, creditFits_complete (m := m) hz hle hw h]

/-! ### C11: the documented producer loop (ghost state: the credit the producer currently holds) -/

/-- The credit sum is exact for every chunk length (window fixed). -/
def CreditExact (f : Facts) (window : Nat) : Prop :=
  f.creditAdd = .checked ∨ (f.creditAdd = .saturating ∧ window + 1 < U64)

theorem CreditExact.addExact {f : Facts} {w : Nat} (h : CreditExact f w) (infl len : Nat) : AddExact f w infl len := by
  rcases h with h | h
  · exact Or.inl h
  · exact Or.inr (Or.inl h)

structure Ghost where
  /-- credit granted for a chunk of this length and not yet used by `record_sent` -/
  grant : Option Nat := none
  /-- length of the last chunk recorded as sent -/
  lastLen : Nat := 0

/-- The producer side of the documented loop: `record_sent(sent + len)` only with a granted credit for
`len`; `advance_to_file` only between chunks. Inbound handlers (acks, resumes, cancel, …) are unconstrained. -/
def allowedB (s : State) (g : Ghost) : Op → Bool
  | .recordSent x =>
    match g.grant with
    | some len => decide (x = s.sent + len)
    | none => false
  | .advance _ => g.grant.isNone
  | _ => true

def Allowed (s : State) (g : Ghost) (op : Op) : Prop := allowedB s g op = true

def ghostStep (g : Ghost) (op : Op) (r : Ret) : Ghost :=
  match op with
  | .waitCredit len => { g with grant := if r = .creditOk then some len else none }
  | .recordSent _ =>
    match g.grant with
    | some len => { grant := none, lastLen := len }
    | none => g
  | _ => g

def followsB (f : Facts) (m : OvMode) : State → Ghost → List Op → Bool
  | _, _, [] => true
  | s, g, op :: ops => allowedB s g op && followsB f m (step f m s op).1 (ghostStep g op (step f m s op).2) ops

/-- the history follows the documented loop (decidable: a `Bool` computation) -/
def Follows (f : Facts) (m : OvMode) (s : State) (g : Ghost) (ops : List Op) : Prop := followsB f m s g ops = true

instance (f : Facts) (m : OvMode) (s : State) (g : Ghost) (ops : List Op) : Decidable (Follows f m s g ops) :=
  inferInstanceAs (Decidable (_ = true))

theorem follows_cons {f : Facts} {m : OvMode} {s : State} {g : Ghost} {op : Op} {ops : List Op} :
    Follows f m s g (op :: ops) ↔
      Allowed s g op ∧ Follows f m (step f m s op).1 (ghostStep g op (step f m s op).2) ops := by
  simp [Follows, followsB, Allowed]

def runGhost (f : Facts) (m : OvMode) : State → Ghost → List Op → Ghost
  | _, g, [] => g
  | s, g, op :: ops => runGhost f m (step f m s op).1 (ghostStep g op (step f m s op).2) ops

def LoopInv (s : State) (g : Ghost) : Prop :=
  match g.grant with
  | none => inFlight s ≤ max s.window g.lastLen
  | some len => inFlight s = 0 ∨ inFlight s + len ≤ s.window

theorem LoopInv.bound {s : State} {g : Ghost} (h : LoopInv s g) : inFlight s ≤ max s.window g.lastLen := by
  unfold LoopInv at h
  split at h
  · exact h
  · omega

/-- `LoopInv` only gets easier when less is in flight. -/
theorem LoopInv.mono {s s' : State} {g : Ghost} (h : LoopInv s g)
    (hi : inFlight s' ≤ inFlight s) (hw : s'.window = s.window) : LoopInv s' g := by
  unfold LoopInv at *
  split <;> simp_all <;> omega

theorem loop_step {f : Facts} {m : OvMode} {s : State} {g : Ghost} (op : Op)
    (hx : CreditExact f s.window) (hinv : LoopInv s g) (hal : Allowed s g op) :
    LoopInv (step f m s op).1 (ghostStep g op (step f m s op).2) := by
  cases op with
  | waitCredit len =>
    have hi := step_inFlight_le (f := f) (m := m) s (.waitCredit len) (by intro off h; cases h)
    have hw := step_window (f := f) (m := m) s (.waitCredit len)
    by_cases hr : (step f m s (.waitCredit len)).2 = .creditOk
    · have := (waitCredit_ok (hx.addExact _ _) hr).2.2
      simp only [ghostStep, hr, if_true, LoopInv]
      rw [hw]; omega
    · have hb := hinv.bound
      simp only [ghostStep, hr, if_false, LoopInv]
      rw [hw]; omega
  | recordSent x =>
    obtain ⟨len, hg, hxe⟩ : ∃ len, g.grant = some len ∧ x = s.sent + len := by
      simp only [Allowed, allowedB] at hal
      cases hg : g.grant with
      | none => simp [hg] at hal
      | some len => exact ⟨len, rfl, by simpa [hg] using hal⟩
    have hinv' : inFlight s = 0 ∨ inFlight s + len ≤ s.window := by
      simpa [LoopInv, hg] using hinv
    have hw := step_window (f := f) (m := m) s (.recordSent x)
    have hi : inFlight (step f m s (.recordSent x)).1 ≤ inFlight s + len := by
      unfold step inFlight
      by_cases hp : s.poisoned = true
      · simp [hp]
      · simp only [hp, if_false, Bool.false_eq_true]
        split <;> simp <;> omega
    simp only [ghostStep, hg, LoopInv]
    rw [hw]; omega
  | recordAck file off =>
    exact hinv.mono (step_inFlight_le s _ (by intro o h; cases h)) (step_window s _)
  | cancel r => exact hinv.mono (step_inFlight_le s _ (by intro o h; cases h)) (step_window s _)
  | advance n => exact hinv.mono (step_inFlight_le s _ (by intro o h; cases h)) (step_window s _)
  | requestResume p file off =>
    exact hinv.mono (step_inFlight_le s _ (by intro o h; cases h)) (step_window s _)
  | waitReconnect => exact hinv.mono (step_inFlight_le s _ (by intro o h; cases h)) (step_window s _)
  | pushReplay off dlen last body =>
    exact hinv.mono (step_inFlight_le s _ (by intro o h; cases h)) (step_window s _)
  | replayFrom off => exact hinv.mono (step_inFlight_le s _ (by intro o h; cases h)) (step_window s _)
  | setPeer p => exact hinv.mono (step_inFlight_le s _ (by intro o h; cases h)) (step_window s _)

theorem loop_run {f : Facts} {m : OvMode} (ops : List Op) (s : State) (g : Ghost)
    (hx : CreditExact f s.window) (hinv : LoopInv s g) (hf : Follows f m s g ops) :
    LoopInv (run f m s ops) (runGhost f m s g ops) ∧ (run f m s ops).window = s.window := by
  induction ops generalizing s g with
  | nil => exact ⟨hinv, rfl⟩
  | cons op ops ih =>
    have hf' := follows_cons.mp hf
    have hw := step_window (f := f) (m := m) s op
    have := ih (step f m s op).1 (ghostStep g op (step f m s op).2) (by rw [hw]; exact hx)
      (loop_step op hx hinv hf'.1) hf'.2
    exact ⟨this.1, by rw [← hw]; exact this.2⟩

theorem Follows.prefix {f : Facts} {m : OvMode} (a b : List Op) (s : State) (g : Ghost)
    (h : Follows f m s g (a ++ b)) : Follows f m s g a := by
  induction a generalizing s g with
  | nil => rfl
  | cons op a ih =>
    have h' := follows_cons.mp (by simpa using h)
    exact follows_cons.mpr ⟨h'.1, ih _ _ h'.2⟩

/-! ### C11: cancellation -/

theorem step_cancel_sticky {f : Facts} {m : OvMode} (hk : f.advanceKeepsCancel = true) (hw : f.cancelFirstWins = true)
    (s : State) (op : Op) (r : Nat)
    (h : s.cancelled = some r) : (step f m s op).1.cancelled = some r := by
  unfold step
  by_cases hp : s.poisoned = true
  · simp [hp, h]
  · simp only [hp, if_false, Bool.false_eq_true]
    cases op <;> simp only [h, hk, hw, poison] <;> repeat' split
    all_goals first | exact h | simp_all

theorem cancelled_waits {f : Facts} {m : OvMode} (hcf : f.reconnCancelFirst = true) (s : State) (r : Nat)
    (hp : s.poisoned = false) (h : s.cancelled = some r) :
    (∀ len, step f m s (.waitCredit len) = (s, .creditCancelled r)) ∧
    step f m s .waitReconnect = (s, .reconnCancelled r) ∧
    (∀ p file off, step f m s (.requestResume p file off) = (s, .resumeCancelled)) := by
  refine ⟨?_, ?_, ?_⟩ <;> intros <;> simp [step, hp, h, hcf]

/-! ### the ring -/

def sumWire : List Chunk → Nat
  | [] => 0
  | c :: cs => c.wireLen + sumWire cs

theorem sumWire_append (a b : List Chunk) : sumWire (a ++ b) = sumWire a + sumWire b := by
  induction a with
  | nil => simp [sumWire]
  | cons c a ih => simp [sumWire, ih]; omega

/-- Successive chunks abut in the logical-offset domain. -/
def Contig : List Chunk → Prop
  | [] => True
  | [_] => True
  | a :: b :: r => b.offset = a.offset + a.dataLen ∧ Contig (b :: r)

instance Contig.dec : (l : List Chunk) → Decidable (Contig l)
  | [] => isTrue trivial
  | [_] => isTrue trivial
  | a :: b :: r => by
    unfold Contig
    exact @instDecidableAnd _ _ _ (Contig.dec (b :: r))

theorem Contig.tail {a : Chunk} {l : List Chunk} (h : Contig (a :: l)) : Contig l := by
  cases l with
  | nil => trivial
  | cons b r => exact h.2

theorem Contig.suffix {pre l : List Chunk} (h : Contig (pre ++ l)) : Contig l := by
  induction pre with
  | nil => exact h
  | cons a pre ih => exact ih (Contig.tail h)

theorem Contig.snoc {l : List Chunk} {c : Chunk} (h : Contig l)
    (hab : ∀ p, l.getLast? = some p → c.offset = p.offset + p.dataLen) : Contig (l ++ [c]) := by
  induction l with
  | nil => trivial
  | cons a l ih =>
    cases l with
    | nil => exact ⟨hab a rfl, trivial⟩
    | cons b r =>
      refine ⟨h.1, ?_⟩
      apply ih h.2
      intro p hp
      apply hab
      simpa [List.getLast?_cons_cons] using hp

/-- offsets are non-decreasing along a contiguous run -/
theorem Contig.head_le {a : Chunk} {l : List Chunk} (h : Contig (a :: l)) : ∀ c ∈ l, a.offset ≤ c.offset := by
  induction l generalizing a with
  | nil => intro c hc; cases hc
  | cons b r ih =>
    intro c hc
    have hb : a.offset ≤ b.offset := by have := h.1; omega
    rcases List.mem_cons.mp hc with rfl | hc
    · exact hb
    · exact Nat.le_trans hb (ih h.2 c hc)

theorem Contig.le_last {l : List Chunk} (h : Contig l) : ∀ p, l.getLast? = some p → ∀ c ∈ l, c.offset ≤ p.offset := by
  induction l with
  | nil => intro p hp; cases hp
  | cons a l ih =>
    intro p hp c hc
    cases l with
    | nil =>
      simp at hp hc; subst hp; subst hc; exact Nat.le_refl _
    | cons b r =>
      have hp' : (b :: r).getLast? = some p := by simpa [List.getLast?_cons_cons] using hp
      rcases List.mem_cons.mp hc with rfl | hc
      · have hpm : p ∈ b :: r := List.mem_of_getLast? hp'
        exact Contig.head_le h p hpm
      · exact ih h.2 p hp' c hc

/-- Eviction drops a prefix: what remains is a suffix of what was there. -/
theorem evict_suffix (f : Facts) (cap : Nat) (cs : List Chunk) (held : Nat) :
    ∃ pre, cs = pre ++ (evict f cap cs held).1 := by
  induction cs generalizing held with
  | nil => exact ⟨[], rfl⟩
  | cons c cs ih =>
    rw [evict_cons]
    by_cases hg : evictGuard f held cap (cs.length + 1) = true
    · simp only [hg, if_true]
      obtain ⟨pre, hpre⟩ := ih (held - c.wireLen)
      exact ⟨c :: pre, by rw [List.cons_append, ← hpre]⟩
    · simp only [hg, if_false, Bool.false_eq_true]
      exact ⟨[], rfl⟩

/-- The byte count stays the sum of the retained wire lengths, and the loop stops only when at most
one chunk is left or the budget is met. -/
theorem evict_bound (f : Facts) (cap : Nat) (cs : List Chunk) (held : Nat) (h : held = sumWire cs) :
    (evict f cap cs held).2 = sumWire (evict f cap cs held).1 ∧
    ((evict f cap cs held).1.length ≤ 1 ∨ (evict f cap cs held).2 ≤ cap) := by
  induction cs generalizing held with
  | nil => simp [evict, h, sumWire]
  | cons c cs ih =>
    rw [evict_cons]
    by_cases hg : evictGuard f held cap (cs.length + 1) = true
    · simp only [hg, if_true]
      exact ih (held - c.wireLen) (by simp [sumWire] at h; omega)
    · simp only [hg, if_false, Bool.false_eq_true]
      refine ⟨h, ?_⟩
      rcases evictGuard_false hg with h1 | h1
      · left; simpa using h1
      · right; exact h1

/-- With the `len() > 1` guard the newest chunk is never evicted. -/
theorem evict_keeps_last (f : Facts) (hk : f.evictKeepOne = true) (cap : Nat) (cs : List Chunk) (held : Nat) :
    (evict f cap cs held).1.getLast? = cs.getLast? := by
  induction cs generalizing held with
  | nil => rfl
  | cons c cs ih =>
    rw [evict_cons]
    by_cases hg : evictGuard f held cap (cs.length + 1) = true
    · simp only [hg, if_true]
      have hlen := evictGuard_keep hk hg
      rw [ih]
      cases cs with
      | nil => simp at hlen
      | cons b r => simp [List.getLast?_cons_cons]
    · simp only [hg, if_false, Bool.false_eq_true]

theorem satAdd_exact {a b : Nat} (h : a + b < U64) : satAdd a b = a + b := by simp [satAdd, h]

theorem satAdd_le (a b : Nat) : satAdd a b ≤ a + b := by
  unfold satAdd; split <;> omega

/-! ### `covers` and `replay_from` -/

/-- The offsets at which a resume may land: zero on an empty ring, a retained chunk boundary, or the
trailing edge (end of the newest chunk). -/
def Boundary (chunks : List Chunk) (off : Nat) : Prop :=
  (chunks = [] ∧ off = 0) ∨ (∃ c ∈ chunks, c.offset = off) ∨
  (∃ c, chunks.getLast? = some c ∧ off = c.offset + c.dataLen)

theorem covers_spec (f : Facts) (m : OvMode) (chunks : List Chunk) (off : Nat)
    (hedge : ∀ c, chunks.getLast? = some c → c.offset + c.dataLen < U64) :
    (covers f m chunks off = .ok true ∧ Boundary chunks off) ∨
    (covers f m chunks off = .ok false ∧ ¬ Boundary chunks off) := by
  unfold covers Boundary
  cases hl : chunks.getLast? with
  | none =>
    have hnil : chunks = [] := by simpa using hl
    subst hnil
    by_cases h0 : off = 0
    · left; simp [h0]
    · right; simp [h0]
  | some c =>
    have hne : chunks ≠ [] := by intro h; simp [h] at hl
    simp only
    by_cases hany : (chunks.any fun c => c.offset == off) = true
    · left
      simp only [hany, if_true, true_and]
      right; left
      simpa using hany
    · simp only [hany, if_false, Bool.false_eq_true]
      have hlt := hedge c hl
      have hno : ¬ ∃ c ∈ chunks, c.offset = off := by simpa using hany
      unfold addU64
      simp only [hlt, if_true]
      by_cases he : c.offset + c.dataLen = off
      · left
        refine ⟨by simp [he], ?_⟩
        right; right; exact ⟨c, rfl, he.symm⟩
      · right
        refine ⟨by simp [he], ?_⟩
        rintro (⟨h, _⟩ | h | ⟨c', hc', h⟩)
        · exact hne h
        · exact hno h
        · simp at hc'; subst hc'; exact he h.symm

/-- On a contiguous ring the chunks at or after `off` are a suffix, everything before lies below `off`. -/
theorem replayFrom_suffix {l : List Chunk} (h : Contig l) (off : Nat) :
    ∃ pre, l = pre ++ replayFrom l off ∧ ∀ c ∈ pre, c.offset < off := by
  induction l with
  | nil => exact ⟨[], rfl, by simp⟩
  | cons a l ih =>
    by_cases ha : a.offset ≥ off
    · refine ⟨[], ?_, by simp⟩
      have hall : ∀ c ∈ a :: l, decide (c.offset ≥ off) = true := by
        intro c hc
        rcases List.mem_cons.mp hc with rfl | hc
        · simpa using ha
        · have := Contig.head_le h c hc
          simp; omega
      simp [replayFrom, List.filter_eq_self.mpr hall]
    · obtain ⟨pre, hpre, hlt⟩ := ih (Contig.tail h)
      refine ⟨a :: pre, ?_, ?_⟩
      · have : replayFrom (a :: l) off = replayFrom l off := by
          simp [replayFrom, ha]
        rw [this, List.cons_append, ← hpre]
      · intro c hc
        rcases List.mem_cons.mp hc with rfl | hc
        · omega
        · exact hlt c hc

theorem replayFrom_mem {l : List Chunk} {off : Nat} {c : Chunk} :
    c ∈ replayFrom l off ↔ c ∈ l ∧ c.offset ≥ off := by
  simp [replayFrom, List.mem_filter]

/-- The replay tail of an accepted offset: a contiguous suffix of the ring that starts exactly at the
offset, and is empty only when the offset is the trailing edge (or the ring is empty). -/
theorem replay_tail {l : List Chunk} (hc : Contig l) {off : Nat} (hb : Boundary l off) :
    (∃ pre, l = pre ++ replayFrom l off ∧ ∀ c ∈ pre, c.offset < off) ∧
    Contig (replayFrom l off) ∧
    (∀ h, (replayFrom l off).head? = some h → h.offset = off) ∧
    (replayFrom l off ≠ [] → (replayFrom l off).getLast? = l.getLast?) ∧
    (replayFrom l off = [] → (l = [] ∧ off = 0) ∨ ∃ c, l.getLast? = some c ∧ off = c.offset + c.dataLen) := by
  obtain ⟨pre, hpre, hlt⟩ := replayFrom_suffix hc off
  have hcr : Contig (replayFrom l off) := by
    have := hc; rw [hpre] at this; exact Contig.suffix this
  refine ⟨⟨pre, hpre, hlt⟩, hcr, ?_, ?_, ?_⟩
  · intro h hh
    have hmem : h ∈ replayFrom l off := List.mem_of_head? hh
    have hge : h.offset ≥ off := (replayFrom_mem.mp hmem).2
    rcases hb with ⟨hnil, _⟩ | ⟨c, hcm, hco⟩ | ⟨p, hp, hoff⟩
    · subst hnil; simp [replayFrom] at hmem
    · -- the chunk at `off` is in the tail, at or after its head
      have hcr' : c ∈ replayFrom l off := replayFrom_mem.mpr ⟨hcm, by omega⟩
      cases hrl : replayFrom l off with
      | nil => simp [hrl] at hmem
      | cons x xs =>
        rw [hrl] at hh hcr hcr'
        simp at hh; subst hh
        rcases List.mem_cons.mp hcr' with rfl | hx
        · exact hco
        · have := Contig.head_le hcr c hx; omega
    · have := Contig.le_last hc p hp h (replayFrom_mem.mp hmem).1
      -- h.offset ≤ p.offset ≤ edge = off ≤ h.offset
      omega
  · intro hne
    have hl : (pre ++ replayFrom l off).getLast? = (replayFrom l off).getLast? := by
      simp only [List.getLast?_append]
      cases hb : (replayFrom l off).getLast? with
      | none => simp at hb; exact absurd hb hne
      | some x => simp
    rw [← hl, ← hpre]
  · intro hnil
    rcases hb with h | ⟨c, hcm, hco⟩ | h
    · exact Or.inl h
    · have : c ∈ replayFrom l off := replayFrom_mem.mpr ⟨hcm, by omega⟩
      simp [hnil] at this
    · exact Or.inr h

/-! ### the idle watchdog only ever cancels -/

/-- `cancel` changes nothing but an empty cancel slot. -/
theorem step_cancel_eq {f : Facts} {m : OvMode} (hw : f.cancelFirstWins = true) (s : State) (r : Nat) :
    (step f m s (.cancel r)).1 = if s.poisoned = false ∧ s.cancelled = none then { s with cancelled := some r } else s := by
  unfold step
  by_cases hp : s.poisoned = true
  · simp [hp]
  · have hpf : s.poisoned = false := by simpa using hp
    cases hc : s.cancelled <;> simp [hpf, hc, hw]

/-- Whatever the watchdog saw and whatever the clock says, a visit leaves every field alone except that it
may fill an empty cancel slot with the idle reason. -/
theorem watchdog_visit_effect {f : Facts} {m : OvMode} (hw : f.cancelFirstWins = true) (s : State) (saw idle : Bool) :
    run f m s (watchdogVisit saw idle) = s ∨
    (s.cancelled = none ∧ run f m s (watchdogVisit saw idle) = { s with cancelled := some idleReason }) := by
  unfold watchdogVisit
  cases saw <;> cases idle <;> simp [run]
  rw [step_cancel_eq hw]
  by_cases h : s.poisoned = false ∧ s.cancelled = none
  · simp [h]
  · simp [h]

/-! ### the release profile never panics -/

theorem addU64_wraps_ok (form : SumForm) (a b : Nat) : ∃ r, addU64 form .wraps a b = .ok r := by
  unfold addU64
  split
  · exact ⟨_, rfl⟩
  · cases form <;> exact ⟨_, rfl⟩

theorem creditFits_wraps_total (f : Facts) (infl len w : Nat) : ∃ b, creditFits f .wraps infl len w = .ok b := by
  unfold creditFits
  split
  · exact ⟨_, rfl⟩
  · obtain ⟨r, hr⟩ := addU64_wraps_ok f.creditAdd infl len
    rw [hr]
    cases r <;> exact ⟨_, rfl⟩

theorem covers_wraps_total (f : Facts) (chunks : List Chunk) (off : Nat) : ∃ b, covers f .wraps chunks off = .ok b := by
  unfold covers
  cases chunks.getLast? with
  | none => exact ⟨_, rfl⟩
  | some c =>
    simp only
    by_cases hany : (chunks.any fun c => c.offset == off) = true
    · simp only [hany, if_true]; exact ⟨_, rfl⟩
    · simp only [hany, if_false, Bool.false_eq_true]
      obtain ⟨r, hr⟩ := addU64_wraps_ok f.edgeAdd c.offset c.dataLen
      rw [hr]
      cases r <;> exact ⟨_, rfl⟩

set_option linter.unusedSimpArgs false in
theorem step_wraps_not_poisoned (f : Facts) (s : State) (op : Op) (hp : s.poisoned = false) :
    (step f .wraps s op).1.poisoned = false := by
  unfold step
  simp only [hp, if_false, Bool.false_eq_true]
  cases op with
  | waitCredit len =>
    simp only
    cases s.cancelled with
    | some r => exact hp
    | none =>
      obtain ⟨b, hb⟩ := creditFits_wraps_total f (inFlight s) len s.window
      simp only [hb]
      cases b <;> exact hp
  | requestResume p file off =>
    simp only
    cases s.cancelled with
    | some r => exact hp
    | none =>
      simp only
      split
      · exact hp
      · obtain ⟨b, hb⟩ := covers_wraps_total f s.chunks off
        simp only [hb]
        cases b
        · exact hp
        · simp only; split <;> simp [hp]
  | pushReplay off dlen last body => simp [pushAssertOk]
  | recordSent off => simp only; split <;> simp [hp]
  | recordAck file off =>
    simp only
    repeat' split
    all_goals simp [hp]
  | cancel r => simp only; repeat' split
                all_goals first | exact hp | simp [hp]
  | advance n => simp [hp]
  | waitReconnect =>
    simp only
    repeat' split
    all_goals simp [hp]
  | replayFrom off => exact hp
  | setPeer p => simp [hp]

/-! ### C13: ring invariants along histories -/

def isPushOrAdvance : Op → Bool
  | .pushReplay _ _ _ _ => true
  | .advance _ => true
  | _ => false

/-- Only `push_replay` and `advance_to_file` touch the ring. -/
theorem step_chunks_other {f : Facts} {m : OvMode} (s : State) (op : Op) (h : isPushOrAdvance op = false) :
    (step f m s op).1.chunks = s.chunks ∧ (step f m s op).1.bytesHeld = s.bytesHeld := by
  unfold step
  by_cases hp : s.poisoned = true
  · simp [hp]
  · simp only [hp, if_false, Bool.false_eq_true]
    cases op <;> simp [isPushOrAdvance] at h <;> simp only [poison] <;> repeat' split
    all_goals first | exact ⟨rfl, rfl⟩ | simp

theorem run_chunks_stable {f : Facts} {m : OvMode} (ops : List Op) (s : State)
    (h : ∀ op ∈ ops, isPushOrAdvance op = false) : (run f m s ops).chunks = s.chunks := by
  induction ops generalizing s with
  | nil => rfl
  | cons op ops ih =>
    simp only [run]
    rw [ih _ (fun o ho => h o (List.mem_cons_of_mem _ ho))]
    exact (step_chunks_other s op (h op List.mem_cons_self)).1

theorem step_capacity {f : Facts} {m : OvMode} (s : State) (op : Op) : (step f m s op).1.capacity = s.capacity := by
  unfold step
  by_cases hp : s.poisoned = true
  · simp [hp]
  · simp only [hp, if_false, Bool.false_eq_true]
    cases op <;> simp only [poison] <;> repeat' split
    all_goals rfl

/-- What a successful push does to the ring. -/
theorem step_push {f : Facts} {m : OvMode} (s : State) (off dlen : Nat) (last : Bool) (body : Bytes)
    (hp : s.poisoned = false) (ha : pushAssertOk m s.chunks off = true) :
    step f m s (.pushReplay off dlen last body) =
      ({ s with chunks := (evict f s.capacity (s.chunks ++ [⟨off, dlen, last, body⟩]) (satAdd s.bytesHeld body.length)).1,
                bytesHeld := (evict f s.capacity (s.chunks ++ [⟨off, dlen, last, body⟩]) (satAdd s.bytesHeld body.length)).2 },
       .unit) := by
  simp [step, hp, ha]

theorem step_push_refused {f : Facts} {m : OvMode} (s : State) (off dlen : Nat) (last : Bool) (body : Bytes)
    (h : s.poisoned = true ∨ pushAssertOk m s.chunks off = false) :
    (step f m s (.pushReplay off dlen last body)).1.chunks = s.chunks ∧
    (step f m s (.pushReplay off dlen last body)).1.bytesHeld = s.bytesHeld ∧
    (step f m s (.pushReplay off dlen last body)).2 = .panic := by
  by_cases hp : s.poisoned = true
  · simp [step, hp]
  · rcases h with h | h
    · exact absurd h hp
    · simp [step, hp, h, poison]

/-- Ghost: the chunks pushed (by calls that returned) since the last `advance_to_file`. -/
def logStep (_f : Facts) (m : OvMode) (s : State) (log : List Chunk) (op : Op) : List Chunk :=
  match op with
  | .pushReplay off d l b => if s.poisoned = false ∧ pushAssertOk m s.chunks off = true then log ++ [⟨off, d, l, b⟩] else log
  | .advance _ => if s.poisoned then log else []
  | _ => log

def runLog (f : Facts) (m : OvMode) : State → List Chunk → List Op → List Chunk
  | _, log, [] => log
  | s, log, op :: ops => runLog f m (step f m s op).1 (logStep f m s log op) ops

theorem suffix_step {f : Facts} {m : OvMode} (s : State) (log : List Chunk) (op : Op)
    (h : ∃ pre, log = pre ++ s.chunks) : ∃ pre, logStep f m s log op = pre ++ (step f m s op).1.chunks := by
  obtain ⟨pre, hpre⟩ := h
  cases op with
  | pushReplay off d l b =>
    by_cases hok : s.poisoned = false ∧ pushAssertOk m s.chunks off = true
    · rw [step_push s off d l b hok.1 hok.2]
      simp only [logStep, hok, and_self, if_true]
      obtain ⟨pre2, hpre2⟩ := evict_suffix f s.capacity (s.chunks ++ [⟨off, d, l, b⟩]) (satAdd s.bytesHeld b.length)
      refine ⟨pre ++ pre2, ?_⟩
      rw [hpre]
      simp only [List.append_assoc]
      exact congrArg (pre ++ ·) hpre2
    · have hr := step_push_refused (f := f) (m := m) s off d l b (by
        by_cases hp : s.poisoned = true
        · exact Or.inl hp
        · right
          have hpf : s.poisoned = false := by simpa using hp
          simpa [hpf] using hok)
      simp only [logStep, hok, if_false]
      exact ⟨pre, by rw [hr.1]; exact hpre⟩
  | advance n =>
    by_cases hp : s.poisoned = true
    · simp [logStep, step, hp]; exact ⟨pre, hpre⟩
    · simp [logStep, step, hp]
  | recordSent off => exact ⟨pre, by rw [(step_chunks_other s _ rfl).1]; exact hpre⟩
  | recordAck file off => exact ⟨pre, by rw [(step_chunks_other s _ rfl).1]; exact hpre⟩
  | cancel r => exact ⟨pre, by rw [(step_chunks_other s _ rfl).1]; exact hpre⟩
  | requestResume p file off => exact ⟨pre, by rw [(step_chunks_other s _ rfl).1]; exact hpre⟩
  | waitCredit len => exact ⟨pre, by rw [(step_chunks_other s _ rfl).1]; exact hpre⟩
  | waitReconnect => exact ⟨pre, by rw [(step_chunks_other s _ rfl).1]; exact hpre⟩
  | replayFrom off => exact ⟨pre, by rw [(step_chunks_other s _ rfl).1]; exact hpre⟩
  | setPeer p => exact ⟨pre, by rw [(step_chunks_other s _ rfl).1]; exact hpre⟩

theorem suffix_run {f : Facts} {m : OvMode} (ops : List Op) (s : State) (log : List Chunk)
    (h : ∃ pre, log = pre ++ s.chunks) : ∃ pre, runLog f m s log ops = pre ++ (run f m s ops).chunks := by
  induction ops generalizing s log with
  | nil => exact h
  | cons op ops ih => exact ih _ _ (suffix_step s log op h)

/-- the pushes abut: each new chunk starts where the newest retained chunk ends (the contract the
code's `debug_assert!` states) -/
def abutsB (s : State) : Op → Bool
  | .pushReplay off _ _ _ =>
    match s.chunks.getLast? with
    | none => true
    | some c => decide (off = c.offset + c.dataLen)
  | _ => true

def abutsAllB (f : Facts) (m : OvMode) : State → List Op → Bool
  | _, [] => true
  | s, op :: ops => abutsB s op && abutsAllB f m (step f m s op).1 ops

theorem contig_step {f : Facts} {m : OvMode} (s : State) (op : Op) (h : Contig s.chunks)
    (hab : abutsB s op = true ∨ m = .checks) : Contig (step f m s op).1.chunks := by
  cases op with
  | pushReplay off d l b =>
    by_cases hok : s.poisoned = false ∧ pushAssertOk m s.chunks off = true
    · rw [step_push s off d l b hok.1 hok.2]
      simp only
      obtain ⟨pre2, hpre2⟩ := evict_suffix f s.capacity (s.chunks ++ [⟨off, d, l, b⟩]) (satAdd s.bytesHeld b.length)
      have hc : Contig (s.chunks ++ [⟨off, d, l, b⟩]) := by
        apply Contig.snoc h
        intro p hp
        rcases hab with hab | hm
        · simpa [abutsB, hp] using hab
        · have := hok.2
          simp [pushAssertOk, hm, hp] at this
          exact this.2
      rw [hpre2] at hc
      exact Contig.suffix hc
    · have hr := step_push_refused (f := f) (m := m) s off d l b (by
        by_cases hp : s.poisoned = true
        · exact Or.inl hp
        · right
          have hpf : s.poisoned = false := by simpa using hp
          simpa [hpf] using hok)
      rw [hr.1]; exact h
  | advance n =>
    by_cases hp : s.poisoned = true
    · simp [step, hp]; exact h
    · simp [step, hp, Contig]
  | recordSent off => rw [(step_chunks_other s _ rfl).1]; exact h
  | recordAck file off => rw [(step_chunks_other s _ rfl).1]; exact h
  | cancel r => rw [(step_chunks_other s _ rfl).1]; exact h
  | requestResume p file off => rw [(step_chunks_other s _ rfl).1]; exact h
  | waitCredit len => rw [(step_chunks_other s _ rfl).1]; exact h
  | waitReconnect => rw [(step_chunks_other s _ rfl).1]; exact h
  | replayFrom off => rw [(step_chunks_other s _ rfl).1]; exact h
  | setPeer p => rw [(step_chunks_other s _ rfl).1]; exact h

theorem contig_run {f : Facts} {m : OvMode} (ops : List Op) (s : State) (h : Contig s.chunks)
    (hab : abutsAllB f m s ops = true ∨ m = .checks) : Contig (run f m s ops).chunks := by
  induction ops generalizing s with
  | nil => exact h
  | cons op ops ih =>
    rcases hab with hab | hm
    · simp only [abutsAllB, Bool.and_eq_true] at hab
      exact ih _ (contig_step s op h (Or.inl hab.1)) (Or.inl hab.2)
    · exact ih _ (contig_step s op h (Or.inr hm)) (Or.inr hm)

/-- `bytes_held` is the wire size of what is retained, and more than one chunk is retained only within budget. -/
def RingInv (s : State) : Prop :=
  s.bytesHeld = sumWire s.chunks ∧ (s.chunks.length ≤ 1 ∨ s.bytesHeld ≤ s.capacity)

def pushWire : Op → Nat
  | .pushReplay _ _ _ b => b.length
  | _ => 0

/-- total wire bytes pushed by a history -/
def wireOf : List Op → Nat
  | [] => 0
  | op :: ops => pushWire op + wireOf ops

theorem evict_held_le (f : Facts) (cap : Nat) (cs : List Chunk) (held : Nat) : (evict f cap cs held).2 ≤ held := by
  induction cs generalizing held with
  | nil => simp [evict]
  | cons c cs ih =>
    rw [evict_cons]
    split
    · exact Nat.le_trans (ih _) (Nat.sub_le _ _)
    · exact Nat.le_refl _

theorem ringInv_step {f : Facts} {m : OvMode} (s : State) (op : Op) (h : RingInv s)
    (hw : s.bytesHeld + pushWire op < U64) :
    RingInv (step f m s op).1 ∧ (step f m s op).1.bytesHeld ≤ s.bytesHeld + pushWire op := by
  cases op with
  | pushReplay off d l b =>
    by_cases hok : s.poisoned = false ∧ pushAssertOk m s.chunks off = true
    · rw [step_push s off d l b hok.1 hok.2]
      simp only [pushWire] at hw
      have hsat : satAdd s.bytesHeld b.length = s.bytesHeld + b.length := satAdd_exact hw
      have hsum : satAdd s.bytesHeld b.length = sumWire (s.chunks ++ [⟨off, d, l, b⟩]) := by
        rw [hsat, sumWire_append, h.1]; simp [sumWire, Chunk.wireLen]
      have hb := evict_bound f s.capacity (s.chunks ++ [⟨off, d, l, b⟩]) _ hsum
      refine ⟨⟨hb.1, hb.2⟩, ?_⟩
      simp only [pushWire]
      rw [← hsat]
      exact evict_held_le _ _ _ _
    · have hr := step_push_refused (f := f) (m := m) s off d l b (by
        by_cases hp : s.poisoned = true
        · exact Or.inl hp
        · right
          have hpf : s.poisoned = false := by simpa using hp
          simpa [hpf] using hok)
      refine ⟨⟨by rw [hr.2.1, hr.1]; exact h.1, ?_⟩, by rw [hr.2.1]; omega⟩
      rw [hr.1, hr.2.1, step_capacity]; exact h.2
  | advance n =>
    by_cases hp : s.poisoned = true
    · rw [step_poisoned _ hp]; exact ⟨h, by simp [pushWire]⟩
    · simp [step, hp, RingInv, sumWire]
  | recordSent off =>
    have hc := step_chunks_other (f := f) (m := m) s (.recordSent off) rfl
    exact ⟨⟨by rw [hc.1, hc.2]; exact h.1, by rw [hc.1, hc.2, step_capacity]; exact h.2⟩, by rw [hc.2]; simp [pushWire]⟩
  | recordAck file off =>
    have hc := step_chunks_other (f := f) (m := m) s (.recordAck file off) rfl
    exact ⟨⟨by rw [hc.1, hc.2]; exact h.1, by rw [hc.1, hc.2, step_capacity]; exact h.2⟩, by rw [hc.2]; simp [pushWire]⟩
  | cancel r =>
    have hc := step_chunks_other (f := f) (m := m) s (.cancel r) rfl
    exact ⟨⟨by rw [hc.1, hc.2]; exact h.1, by rw [hc.1, hc.2, step_capacity]; exact h.2⟩, by rw [hc.2]; simp [pushWire]⟩
  | requestResume p file off =>
    have hc := step_chunks_other (f := f) (m := m) s (.requestResume p file off) rfl
    exact ⟨⟨by rw [hc.1, hc.2]; exact h.1, by rw [hc.1, hc.2, step_capacity]; exact h.2⟩, by rw [hc.2]; simp [pushWire]⟩
  | waitCredit len =>
    have hc := step_chunks_other (f := f) (m := m) s (.waitCredit len) rfl
    exact ⟨⟨by rw [hc.1, hc.2]; exact h.1, by rw [hc.1, hc.2, step_capacity]; exact h.2⟩, by rw [hc.2]; simp [pushWire]⟩
  | waitReconnect =>
    have hc := step_chunks_other (f := f) (m := m) s .waitReconnect rfl
    exact ⟨⟨by rw [hc.1, hc.2]; exact h.1, by rw [hc.1, hc.2, step_capacity]; exact h.2⟩, by rw [hc.2]; simp [pushWire]⟩
  | replayFrom off =>
    have hc := step_chunks_other (f := f) (m := m) s (.replayFrom off) rfl
    exact ⟨⟨by rw [hc.1, hc.2]; exact h.1, by rw [hc.1, hc.2, step_capacity]; exact h.2⟩, by rw [hc.2]; simp [pushWire]⟩
  | setPeer p =>
    have hc := step_chunks_other (f := f) (m := m) s (.setPeer p) rfl
    exact ⟨⟨by rw [hc.1, hc.2]; exact h.1, by rw [hc.1, hc.2, step_capacity]; exact h.2⟩, by rw [hc.2]; simp [pushWire]⟩

theorem ringInv_run {f : Facts} {m : OvMode} (ops : List Op) (s : State) (h : RingInv s)
    (hw : s.bytesHeld + wireOf ops < U64) : RingInv (run f m s ops) := by
  induction ops generalizing s with
  | nil => exact h
  | cons op ops ih =>
    simp only [wireOf] at hw
    have hs := ringInv_step (f := f) (m := m) s op h (by omega)
    exact ih _ hs.1 (by have := hs.2; omega)

/-- A push that returns leaves its chunk as the newest entry of the ring. -/
theorem push_keeps_newest {f : Facts} {m : OvMode} (hk : f.evictKeepOne = true) (s : State)
    (off dlen : Nat) (last : Bool) (body : Bytes) (hp : s.poisoned = false) (ha : pushAssertOk m s.chunks off = true) :
    (step f m s (.pushReplay off dlen last body)).1.chunks.getLast? = some ⟨off, dlen, last, body⟩ := by
  rw [step_push s off dlen last body hp ha]
  simp only
  rw [evict_keeps_last f hk]
  simp

/-! ### C13: resume, reconnect, advance -/

theorem step_replayFrom {f : Facts} {m : OvMode} (s : State) (off : Nat) (hp : s.poisoned = false) :
    step f m s (.replayFrom off) = (s, .chunks (replayFrom s.chunks off)) := by
  simp [step, hp]

theorem resume_accept_iff {f : Facts} {m : OvMode} (s : State) (p file off : Nat) (hp : s.poisoned = false)
    (hedge : ∀ c, s.chunks.getLast? = some c → c.offset + c.dataLen < U64) :
    (step f m s (.requestResume p file off)).2 = .resumeOk off ↔
      (s.cancelled = none ∧ file = s.file ∧ Boundary s.chunks off) := by
  unfold step
  simp only [hp, if_false, Bool.false_eq_true]
  cases hc : s.cancelled with
  | some r => simp
  | none =>
    simp only
    by_cases hf : file = s.file
    · simp only [hf, bne_self_eq_false, if_false, Bool.false_eq_true, true_and]
      rcases covers_spec f m s.chunks off hedge with ⟨hcov, hb⟩ | ⟨hcov, hb⟩
      · simp only [hcov]; simp [hb]
      · simp only [hcov]; simp [hb]
    · have : (file != s.file) = true := by simpa using hf
      simp [this, hf]

/-- What an accepted resume changes: the peer slot, the pending resume, and (only within `acked < off ≤ sent`)
the acknowledged offset. -/
theorem resume_effect {f : Facts} {m : OvMode} (hcap : f.resumeCap = true) (s : State) (p file off : Nat)
    (h : (step f m s (.requestResume p file off)).2 = .resumeOk off) :
    (step f m s (.requestResume p file off)).1 =
      { s with peer := some p, pending := some off,
               acked := if off > s.acked ∧ off ≤ s.sent then off else s.acked } := by
  unfold step at h ⊢
  by_cases hp : s.poisoned = true
  · simp [hp] at h
  · simp only [hp, if_false, Bool.false_eq_true] at h ⊢
    cases hc : s.cancelled with
    | some r => simp [hc] at h
    | none =>
      simp only [hc] at h ⊢
      by_cases hf : (file != s.file) = true
      · simp [hf] at h
      · simp only [hf, if_false, Bool.false_eq_true] at h ⊢
        cases hcov : covers f m s.chunks off with
        | ok b =>
          cases b with
          | true =>
            simp only
            by_cases hb : resumeBumps f off s.acked s.sent = true
            · have := (resumeBumps_iff hcap off s.acked s.sent).mp hb
              simp [hb, this]
            · have : ¬ (off > s.acked ∧ off ≤ s.sent) := fun h' => hb ((resumeBumps_iff hcap _ _ _).mpr h')
              simp [hb, this]
          | false => simp [hcov] at h
        | err e => simp [hcov, poison] at h
        | panic => simp [hcov, poison] at h
        | abort => simp [hcov, poison] at h

/-! ### concurrent callers -/

/-- `Merge ts m`: `m` is an interleaving of the thread programs `ts` (each thread's calls in program order). -/
inductive Merge : List (List Op) → List Op → Prop where
  | done (ts : List (List Op)) : (∀ t ∈ ts, t = []) → Merge ts []
  | pick (ts : List (List Op)) (i : Nat) (op : Op) (rest m : List Op) :
      ts[i]? = some (op :: rest) → Merge (ts.set i rest) m → Merge ts (op :: m)

/-- The methods whose bodies must be one critical section for "every interleaving of calls is a
sequential history" to describe the code. -/
def lockedMethods : List String :=
  ["set_peer", "peer", "push_replay", "replay_chunks_from", "request_resume", "wait_for_reconnect",
   "wait_for_credit", "record_sent", "record_ack", "cancel", "is_cancelled", "cancel_reason",
   "advance_to_file", "offsets"]

/-- every listed method takes the mutex, and every method that takes it does so exactly once -/
def singleSection (lockCalls : List (String × Nat)) : Bool :=
  lockCalls.all (fun e => e.2 == 1) && lockedMethods.all (fun m => lockCalls.any (fun e => e.1 == m))

/-! ### cancel reasons are opaque values

The model never inspects a reason: renaming the reasons of a history (by any function — in particular one that
sends the empty string's token to any other token, or two strings to the same token) renames the stored reason
and the reasons the waits report, and changes nothing else. -/

def renameS (ρ : Nat → Nat) (s : State) : State := { s with cancelled := s.cancelled.map ρ }
def renameOp (ρ : Nat → Nat) : Op → Op
  | .cancel r => .cancel (ρ r)
  | op => op
def renameRet (ρ : Nat → Nat) : Ret → Ret
  | .creditCancelled r => .creditCancelled (ρ r)
  | .reconnCancelled r => .reconnCancelled (ρ r)
  | x => x

theorem step_rename (f : Facts) (m : OvMode) (ρ : Nat → Nat) (s : State) (op : Op) :
    step f m (renameS ρ s) (renameOp ρ op) = (renameS ρ (step f m s op).1, renameRet ρ (step f m s op).2) := by
  obtain ⟨w, cap, sent, acked, file, cancelled, chunks, held, peer, pending, poisoned⟩ := s
  cases poisoned
  · cases op with
    | recordSent off => by_cases h : off > sent <;> simp [step, renameS, renameOp, renameRet, h]
    | recordAck fi off =>
      by_cases h1 : (!f.ackFileTest || fi == file) = true <;>
        by_cases h2 : ackAdvances f (ackCapped f off sent) acked = true <;>
        simp [step, renameS, renameOp, renameRet, h1, h2]
    | cancel r => cases cancelled <;> cases hw : f.cancelFirstWins <;> simp [step, renameS, renameOp, renameRet, hw]
    | advance n => cases cancelled <;> cases hw : f.advanceKeepsCancel <;> simp [step, renameS, renameOp, renameRet, hw]
    | requestResume p fi off =>
      cases cancelled with
      | some r => simp [step, renameS, renameOp, renameRet]
      | none =>
        by_cases hf : fi = file
        · cases hc : covers f m chunks off with
          | ok b =>
            cases b
            · simp [step, renameS, renameOp, renameRet, hf, hc]
            · by_cases hb : resumeBumps f off acked sent = true <;>
                simp [step, renameS, renameOp, renameRet, hf, hc, hb]
          | err e => simp [step, renameS, renameOp, renameRet, hf, hc, poison]
          | panic => simp [step, renameS, renameOp, renameRet, hf, hc, poison]
          | abort => simp [step, renameS, renameOp, renameRet, hf, hc, poison]
        · simp [step, renameS, renameOp, renameRet, hf]
    | waitCredit len =>
      cases cancelled with
      | some r => simp [step, renameS, renameOp, renameRet]
      | none =>
        cases hc : creditFits f m (sent - acked) len w with
        | ok b => cases b <;> simp [step, renameS, renameOp, renameRet, inFlight, hc]
        | err e => simp [step, renameS, renameOp, renameRet, inFlight, hc, poison]
        | panic => simp [step, renameS, renameOp, renameRet, inFlight, hc, poison]
        | abort => simp [step, renameS, renameOp, renameRet, inFlight, hc, poison]
    | waitReconnect =>
      cases cancelled <;> cases pending <;> cases hw : f.reconnCancelFirst <;>
        simp [step, renameS, renameOp, renameRet, hw]
    | pushReplay off dlen last body =>
      by_cases ha : pushAssertOk m chunks off = true <;>
        simp [step, renameS, renameOp, renameRet, ha, poison]
    | replayFrom off => simp [step, renameS, renameOp, renameRet]
    | setPeer p => simp [step, renameS, renameOp, renameRet]
  · simp [step, renameS, renameRet]

theorem run_rename (f : Facts) (m : OvMode) (ρ : Nat → Nat) (s : State) (ops : List Op) :
    run f m (renameS ρ s) (ops.map (renameOp ρ)) = renameS ρ (run f m s ops) := by
  induction ops generalizing s with
  | nil => rfl
  | cons op ops ih =>
    simp only [List.map, run]
    rw [step_rename]
    exact ih _

end Repe.Transfer
