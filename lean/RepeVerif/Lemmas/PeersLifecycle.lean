import RepeVerif.Lemmas.Peers
import RepeVerif.Lemmas.LifecycleRegistry
/-! Glue between the connection-lifecycle model (C15, `Lemmas/LifecycleRegistry.lean`) and the registry
model (C18): lifecycle items as registry calls. -/
namespace Repe.Peers

open Repe.Lifecycle in
/-- What a lifecycle item does to the registry, as registry calls. -/
def opsOfItem (id tag : Nat) (keys : List Key) : Item → List Op
  | .ev (.connect 0) => [Op.insert id tag]
  | .ev (.connect (j + 1)) =>
    match keys[j]? with
    | some k => [Op.alias id k]
    | none => []
  | .ev (.disconnect 0 _) => [Op.remove id]
  | .ev _ => []
  | .foreign op => [op]

end Repe.Peers
