import RepeVerif.Model.Beve
import RepeVerif.Lemmas.Wire
/-! Helper lemmas for the bulk numeric model (C08). Core Lean only. -/
namespace Repe.Beve
open Repe

theorem u8_toNat_ofNat (x : Nat) (h : x < 256) : (UInt8.ofNat x).toNat = x := by
  simp [UInt8.toNat_ofNat']
  omega

/-! ### SIZE -/

theorem writeSize_length (n : Nat) : (writeSize n).length = sizeLen n := by
  unfold writeSize sizeLen
  split
  · rfl
  · split
    · simp
    · split <;> simp

theorem readSize_writeSize (n : Nat) (hn : n < 2^62) (rest : Bytes) :
    readSize (writeSize n ++ rest) = .ok (n, rest) := by
  unfold writeSize
  split
  · rename_i h
    have hb : (UInt8.ofNat (n * 4)).toNat = n * 4 := u8_toNat_ofNat _ (by omega)
    simp only [List.cons_append, List.nil_append, readSize, hb]
    have : n * 4 % 4 = 0 := by omega
    simp [this, sizeExtra, fromLe]
  · split
    · rename_i h1 h2
      have hb : (UInt8.ofNat (n % 64 * 4 + 1)).toNat = n % 64 * 4 + 1 := u8_toNat_ofNat _ (by omega)
      simp only [List.cons_append, readSize, hb]
      have : (n % 64 * 4 + 1) % 4 = 1 := by omega
      simp only [this, sizeExtra]
      rw [List.take_left' (leBytes_length 1 _), List.drop_left' (leBytes_length 1 _),
        fromLe_leBytes 1 _ (by omega)]
      simp
      omega
    · split
      · rename_i h1 h2 h3
        have hb : (UInt8.ofNat (n % 64 * 4 + 2)).toNat = n % 64 * 4 + 2 := u8_toNat_ofNat _ (by omega)
        simp only [List.cons_append, readSize, hb]
        have : (n % 64 * 4 + 2) % 4 = 2 := by omega
        simp only [this, sizeExtra]
        rw [List.take_left' (leBytes_length 3 _), List.drop_left' (leBytes_length 3 _),
          fromLe_leBytes 3 _ (by omega)]
        have e : (n % 64 * 4 + 2) / 4 + 64 * (n / 64) = n := by omega
        simp [e]
      · rename_i h1 h2 h3
        have hb : (UInt8.ofNat (n % 64 * 4 + 3)).toNat = n % 64 * 4 + 3 := u8_toNat_ofNat _ (by omega)
        simp only [List.cons_append, readSize, hb]
        have : (n % 64 * 4 + 3) % 4 = 3 := by omega
        simp only [this, sizeExtra]
        rw [List.take_left' (leBytes_length 7 _), List.drop_left' (leBytes_length 7 _),
          fromLe_leBytes 7 _ (by omega)]
        have e : (n % 64 * 4 + 3) / 4 + 64 * (n / 64) = n := by omega
        simp [e]

/-! ### element blocks -/

/-- Every block has the element width. -/
def Blocks (w : Nat) (xs : List Bytes) : Prop := ∀ x ∈ xs, x.length = w

instance (w : Nat) (xs : List Bytes) : Decidable (Blocks w xs) := by unfold Blocks; exact inferInstance

deriving instance DecidableEq for Except

theorem Blocks.flatten_length {w : Nat} {xs : List Bytes} (h : Blocks w xs) :
    xs.flatten.length = xs.length * w := by
  induction xs with
  | nil => simp
  | cons x xs ih =>
    have hx : x.length = w := h x (by simp)
    have ht : Blocks w xs := fun y hy => h y (by simp [hy])
    simp [ih ht, hx, Nat.succ_mul]
    omega

theorem chunks_flatten {w : Nat} {xs : List Bytes} (h : Blocks w xs) (rest : Bytes) :
    chunks w xs.length (xs.flatten ++ rest) = xs := by
  induction xs with
  | nil => simp [chunks]
  | cons x xs ih =>
    have hx : x.length = w := h x (by simp)
    have ht : Blocks w xs := fun y hy => h y (by simp [hy])
    simp only [List.length_cons, chunks, List.flatten_cons, List.append_assoc]
    rw [List.take_left' hx, List.drop_left' hx, ih ht]

theorem chunks_length (w n : Nat) (bs : Bytes) : (chunks w n bs).length = n := by
  induction n generalizing bs with
  | zero => simp [chunks]
  | succ n ih => simp [chunks, ih]

theorem chunks_blocks (w n : Nat) (bs : Bytes) (h : n * w ≤ bs.length) : Blocks w (chunks w n bs) := by
  induction n generalizing bs with
  | zero => intro x hx; simp [chunks] at hx
  | succ n ih =>
    intro x hx
    simp only [chunks, List.mem_cons] at hx
    rw [Nat.succ_mul] at h
    rcases hx with rfl | hx
    · simp [List.length_take]; omega
    · exact ih (bs.drop w) (by simp [List.length_drop]; omega) x hx

/-! ### regular typed array -/

theorem ElemTy.Valid.bounds {t : ElemTy} (h : t.Valid) : t.code ≤ 4 ∧ t.cls ≤ 2 := by
  unfold ElemTy.Valid at h; omega

theorem ElemTy.width_pos (t : ElemTy) : 0 < t.width := by
  unfold ElemTy.width; split
  · omega
  · exact Nat.two_pow_pos _

theorem ElemTy.Valid.width_le {t : ElemTy} (h : t.Valid) : t.width ≤ 16 := by
  have ⟨hc, _⟩ := h.bounds
  unfold ElemTy.width; split
  · omega
  · calc 2 ^ t.code ≤ 2 ^ 4 := Nat.pow_le_pow_right (by omega) hc
      _ = 16 := by decide

theorem typedHeader_toNat {t : ElemTy} (hv : t.Valid) :
    (typedHeader t).toNat = t.code * 32 + t.cls * 8 + 4 := by
  have ⟨_, _⟩ := hv.bounds
  exact u8_toNat_ofNat _ (by omega)

theorem ElemTy.ext' {t t' : ElemTy} (h1 : t.cls = t'.cls) (h2 : t.code = t'.code) : t = t' := by
  cases t; cases t'; simp_all

theorem checkNumericHeader_typedHeader {t t' : ElemTy} (hv' : t'.Valid) :
    checkNumericHeader t (typedHeader t') = if t = t' then .ok () else .error .mismatch := by
  have ⟨_, _⟩ := hv'.bounds
  unfold checkNumericHeader
  rw [typedHeader_toNat hv']
  have h1 : (t'.code * 32 + t'.cls * 8 + 4) % 8 = 4 := by omega
  have h2 : (t'.code * 32 + t'.cls * 8 + 4) / 8 % 4 = t'.cls := by omega
  have h3 : (t'.code * 32 + t'.cls * 8 + 4) / 32 = t'.code := by omega
  rw [h1, h2, h3]
  by_cases h : t = t'
  · subst h; simp
  · have : t'.cls ≠ t.cls ∨ t'.code ≠ t.code := by
      by_cases hc : t'.cls = t.cls
      · right; intro hk; exact h (ElemTy.ext' hc.symm hk.symm)
      · left; exact hc
    simp [h, this]

theorem takePayload_ok (w n : Nat) (payload rest : Bytes) (hp : payload.length = n * w)
    (hsz : n * w < 2^64) : takePayload w n (payload ++ rest) = .ok payload := by
  unfold takePayload
  rw [if_neg (by omega), if_neg (by simp; omega), ← hp, List.take_left]

theorem readTypedRaw_encode {t t' : ElemTy} (hv' : t'.Valid) (n : Nat) (payload rest : Bytes)
    (hn : n < 2^62) (hp : payload.length = n * t'.width) (hsz : n * t'.width < 2^64) :
    readTypedRaw t (encodeTypedRaw t' n payload ++ rest) =
      if t = t' then .ok (n, payload) else .error .mismatch := by
  simp only [encodeTypedRaw, List.cons_append, readTypedRaw, checkNumericHeader_typedHeader hv']
  by_cases h : t = t'
  · subst h
    simp [readSize_writeSize n hn, bind, Except.bind, pure, Except.pure,
      takePayload_ok _ _ _ _ hp hsz]
  · simp [h, bind, Except.bind]

theorem encodeTypedRaw_length (t : ElemTy) (n : Nat) (payload : Bytes) :
    (encodeTypedRaw t n payload).length = 1 + sizeLen n + payload.length := by
  simp [encodeTypedRaw, writeSize_length]; omega

/-! ### complex array -/

theorem readComplexRaw_encode {t t' : ElemTy} (hv' : t'.Valid) (n : Nat) (payload rest : Bytes)
    (hn : n < 2^62) (hp : payload.length = n * (2 * t'.width)) (hsz : n * (2 * t'.width) < 2^64) :
    readComplexRaw t (encodeComplexRaw t' n payload ++ rest) =
      if t = t' then .ok (n, payload) else .error .mismatch := by
  have ⟨_, _⟩ := hv'.bounds
  have hb : (UInt8.ofNat (t'.code * 32 + t'.cls * 8 + 1)).toNat = t'.code * 32 + t'.cls * 8 + 1 :=
    u8_toNat_ofNat _ (by omega)
  have h0 : (0x1E : UInt8).toNat = 30 := by decide
  simp only [encodeComplexRaw, complexHeader, List.cons_append, List.nil_append, readComplexRaw, h0, hb]
  have h1 : (t'.code * 32 + t'.cls * 8 + 1) % 2 = 1 := by omega
  have h2 : (t'.code * 32 + t'.cls * 8 + 1) / 8 % 4 = t'.cls := by omega
  have h3 : (t'.code * 32 + t'.cls * 8 + 1) / 32 % 8 = t'.code := by omega
  rw [h1, h2, h3]
  by_cases h : t = t'
  · subst h
    simp [readSize_writeSize n hn, bind, Except.bind, pure, Except.pure,
      takePayload_ok _ _ _ _ hp hsz]
  · have : t'.cls ≠ t.cls ∨ t'.code ≠ t.code := by
      by_cases hc : t'.cls = t.cls
      · right; intro hk; exact h (ElemTy.ext' hc.symm hk.symm)
      · left; exact hc
    simp [h, this]

theorem encodeComplexRaw_length (t : ElemTy) (n : Nat) (payload : Bytes) :
    (encodeComplexRaw t n payload).length = 2 + sizeLen n + payload.length := by
  simp [encodeComplexRaw, complexHeader, writeSize_length]; omega

/-! ### aligned array -/

theorem paddingFor_lt (plo a : Nat) (ha : 0 < a) : paddingFor plo a < a := Nat.mod_lt _ ha

theorem paddingFor_spec (plo a : Nat) (ha : 0 < a) : (plo + 1 + paddingFor plo a) % a = 0 := by
  unfold paddingFor
  have hr : (plo + 1) % a < a := Nat.mod_lt _ ha
  have hd := Nat.div_add_mod (plo + 1) a
  by_cases h0 : (plo + 1) % a = 0
  · simp [h0]
  · have e1 : (a - (plo + 1) % a) % a = a - (plo + 1) % a := Nat.mod_eq_of_lt (by omega)
    rw [e1]
    have e2 : plo + 1 + (a - (plo + 1) % a) = a * ((plo + 1) / a + 1) := by
      rw [Nat.mul_add, Nat.mul_one]; omega
    rw [e2, Nat.mul_mod_right]

/-- The padding count the aligned encoder writes. -/
def alignedPad (t : ElemTy) (n base : Nat) : Nat := paddingFor (base + (2 + sizeLen n)) t.align

/-- Offset of `DATA` from the first byte of an aligned array written for `base`. -/
def alignedDataOffset (t : ElemTy) (n base : Nat) : Nat := 2 + sizeLen n + 1 + alignedPad t n base

theorem alignedPad_lt {t : ElemTy} (hv : t.Valid) (n base : Nat) : alignedPad t n base < 17 := by
  have := paddingFor_lt (base + (2 + sizeLen n)) t.align t.width_pos
  have := hv.width_le
  unfold alignedPad; unfold ElemTy.align at *; omega

/-- The payload of an aligned array written for frame offset `base` starts at a multiple of the
element alignment, for every base and every element count. -/
theorem alignedDataOffset_aligned (t : ElemTy) (n base : Nat) :
    (base + alignedDataOffset t n base) % t.align = 0 := by
  have := paddingFor_spec (base + (2 + sizeLen n)) t.align t.width_pos
  unfold alignedDataOffset alignedPad
  rw [← this]; congr 1; omega

theorem encodeAlignedRaw_eq (t : ElemTy) (n : Nat) (payload : Bytes) (base : Nat) :
    encodeAlignedRaw t n payload base =
      alignedMarker :: typedHeader t :: (writeSize n ++ UInt8.ofNat (alignedPad t n base) ::
        (List.replicate (alignedPad t n base) 0 ++ payload)) := by
  simp [encodeAlignedRaw, alignedPad, writeSize_length]

theorem encodeAlignedRaw_length (t : ElemTy) (n : Nat) (payload : Bytes) (base : Nat) :
    (encodeAlignedRaw t n payload base).length = alignedDataOffset t n base + payload.length := by
  rw [encodeAlignedRaw_eq]
  simp [alignedDataOffset, writeSize_length]; omega

theorem parseAligned_encode {t t' : ElemTy} (hv' : t'.Valid) (n : Nat) (payload rest : Bytes) (base : Nat)
    (hn : n < 2^62) (hp : payload.length = n * t'.width) (hsz : n * t'.width < 2^64) :
    parseAligned t (encodeAlignedRaw t' n payload base ++ rest) =
      if t = t' then .ok ⟨n, alignedDataOffset t' n base, payload⟩ else .error .mismatch := by
  have hlen := encodeAlignedRaw_length t' n payload base
  rw [encodeAlignedRaw_eq] at hlen ⊢
  have hm : alignedMarker.toNat = 92 := by decide
  have hpad : (UInt8.ofNat (alignedPad t' n base)).toNat = alignedPad t' n base :=
    u8_toNat_ofNat _ (by have := alignedPad_lt hv' n base; omega)
  simp only [List.cons_append, parseAligned, hm, checkNumericHeader_typedHeader hv']
  by_cases h : t = t'
  · subst h
    simp only [List.append_assoc, List.cons_append, Nat.reduceMod, Nat.reduceDiv, ne_eq,
      not_true_eq_false, or_self, if_false, if_true, bind, Except.bind, readSize_writeSize n hn, hpad]
    have hl : ¬ (List.replicate (alignedPad t n base) (0 : UInt8) ++ (payload ++ rest)).length <
        alignedPad t n base := by simp
    rw [if_neg hl]
    have hd : (List.replicate (alignedPad t n base) (0 : UInt8) ++ (payload ++ rest)).drop
        (alignedPad t n base) = payload ++ rest := List.drop_left' (by simp)
    rw [hd, takePayload_ok _ _ _ _ hp hsz]
    simp only [pure, Except.pure, List.length_cons, List.length_append, List.length_replicate,
      writeSize_length] at hlen ⊢
    congr 2
    simp only [alignedDataOffset] at hlen ⊢
    omega
  · simp [h, bind, Except.bind]

theorem encodeAlignedRaw_drop (t : ElemTy) (n : Nat) (payload : Bytes) (base : Nat) :
    (encodeAlignedRaw t n payload base).drop (alignedDataOffset t n base) = payload := by
  rw [encodeAlignedRaw_eq]
  have e : alignedMarker :: typedHeader t :: (writeSize n ++ UInt8.ofNat (alignedPad t n base) ::
        (List.replicate (alignedPad t n base) 0 ++ payload)) =
      (alignedMarker :: typedHeader t :: (writeSize n ++ UInt8.ofNat (alignedPad t n base) ::
        List.replicate (alignedPad t n base) 0)) ++ payload := by simp
  rw [e]
  exact List.drop_left' (by simp [alignedDataOffset, writeSize_length]; omega)

/-! ### element-level statements -/

/-- A vector the theorems speak about: a `BeveTypedSlice` element type, blocks of the stated width,
fewer than 2^62 elements (what BEVE's SIZE can hold — sharp, see `size_62_bits_sharp`) and a payload
that fits `usize` (true of every Rust slice: at most `isize::MAX` bytes). -/
structure Vec (t : ElemTy) (w : Nat) (xs : List Bytes) : Prop where
  valid : t.Valid
  blocks : Blocks w xs
  count : xs.length < 2^62
  bytes : xs.length * w < 2^64

theorem Vec.len_lt {t w xs} (v : Vec t w xs) (_hw : 0 < w) : xs.length < 2^62 := v.count

theorem readTyped_encode {t t' : ElemTy} {xs : List Bytes} (v : Vec t' t'.width xs) (rest : Bytes) :
    readTyped t (encodeTyped t' xs ++ rest) = if t = t' then .ok xs else .error .mismatch := by
  have hn := v.len_lt t'.width_pos
  have := v.bytes
  unfold readTyped encodeTyped
  rw [readTypedRaw_encode v.valid _ _ _ hn v.blocks.flatten_length (by omega)]
  by_cases h : t = t'
  · subst h
    have := chunks_flatten v.blocks []
    simp only [List.append_nil] at this
    simp [Except.map, this]
  · simp [h, Except.map]

theorem readComplex_encode {t t' : ElemTy} {xs : List Bytes} (v : Vec t' (2 * t'.width) xs) (rest : Bytes) :
    readComplex t (encodeComplex t' xs ++ rest) = if t = t' then .ok xs else .error .mismatch := by
  have hn := v.len_lt (by have := t'.width_pos; omega)
  have := v.bytes
  unfold readComplex encodeComplex
  rw [readComplexRaw_encode v.valid _ _ _ hn v.blocks.flatten_length (by omega)]
  by_cases h : t = t'
  · subst h
    have := chunks_flatten v.blocks []
    simp only [List.append_nil] at this
    simp [Except.map, this]
  · simp [h, Except.map]

theorem parseAligned_encode' {t t' : ElemTy} {xs : List Bytes} (v : Vec t' t'.width xs) (base : Nat) (rest : Bytes) :
    parseAligned t (encodeAligned t' xs base ++ rest) =
      if t = t' then .ok ⟨xs.length, alignedDataOffset t' xs.length base, xs.flatten⟩ else .error .mismatch := by
  have hn := v.len_lt t'.width_pos
  have := v.bytes
  exact parseAligned_encode v.valid _ _ _ _ hn v.blocks.flatten_length (by omega)

theorem readAligned_encode {t t' : ElemTy} {xs : List Bytes} (v : Vec t' t'.width xs) (base : Nat) (rest : Bytes) :
    readAligned t (encodeAligned t' xs base ++ rest) = if t = t' then .ok xs else .error .mismatch := by
  unfold readAligned
  rw [parseAligned_encode' v]
  by_cases h : t = t'
  · subst h
    have := chunks_flatten v.blocks []
    simp only [List.append_nil] at this
    simp [Except.map, this]
  · simp [h, Except.map]

theorem readAlignedRef_encode {t t' : ElemTy} {xs : List Bytes} (v : Vec t' t'.width xs) (base addr : Nat) (rest : Bytes) :
    readAlignedRef t addr (encodeAligned t' xs base ++ rest) =
      if t = t' then
        (if (addr + alignedDataOffset t' xs.length base) % t'.align = 0 then .ok xs else .error .unsupported)
      else .error .mismatch := by
  unfold readAlignedRef
  rw [parseAligned_encode' v]
  by_cases h : t = t'
  · subst h
    have := chunks_flatten v.blocks []
    simp only [List.append_nil] at this
    by_cases ha : (addr + alignedDataOffset t xs.length base) % t.align = 0
    · simp [bind, Except.bind, pure, Except.pure, ha, this]
    · simp [bind, Except.bind, ha]
  · simp [h, bind, Except.bind]

/-! ### the base offset as a linear form in the query length -/

/-- Constant part and query-length multiplicity of a `base_offset` sum. -/
def baseCoeffs : List BaseTerm → Nat × Nat
  | [] => (0, 0)
  | .header :: r => ((baseCoeffs r).1 + 48, (baseCoeffs r).2)
  | .query :: r => ((baseCoeffs r).1, (baseCoeffs r).2 + 1)
  | .const n :: r => ((baseCoeffs r).1 + n, (baseCoeffs r).2)

theorem baseOffset_linear (terms : List BaseTerm) (q : Nat) :
    baseOffset terms q = (baseCoeffs terms).1 + (baseCoeffs terms).2 * q := by
  induction terms with
  | nil => simp [baseOffset, baseCoeffs]
  | cons a r ih =>
    unfold baseOffset at ih ⊢
    cases a <;> simp only [List.map_cons, List.sum_cons, baseCoeffs, ih, Nat.add_mul, Nat.one_mul] <;> omega

/-- If the sum is `≡ 48 + q (mod 16)` coefficient-wise, it is so for every query length. -/
theorem baseOffset_congr (terms : List BaseTerm) (hc : (baseCoeffs terms).1 % 16 = 0)
    (hk : (baseCoeffs terms).2 % 16 = 1) (q : Nat) : baseOffset terms q % 16 = (48 + q) % 16 := by
  rw [baseOffset_linear, Nat.add_mod, Nat.mul_mod, hc, hk]
  simp [Nat.add_mod]

theorem ElemTy.Valid.align_dvd {t : ElemTy} (h : t.Valid) : t.align ∣ 16 := by
  have ⟨hc, _⟩ := h.bounds
  unfold ElemTy.align ElemTy.width
  split
  · exact ⟨8, by decide⟩
  · refine ⟨2 ^ (4 - t.code), ?_⟩
    rw [← Nat.pow_add, show t.code + (4 - t.code) = 4 by omega]

/-- A payload aligned relative to `base` is aligned relative to any offset congruent to `base` mod 16. -/
theorem aligned_of_congr {t : ElemTy} (hv : t.Valid) (base pos off : Nat) (hb : base % 16 = pos % 16)
    (h : (base + off) % t.align = 0) : (pos + off) % t.align = 0 := by
  have hd := hv.align_dvd
  have e1 : base % t.align = pos % t.align := by
    rw [← Nat.mod_mod_of_dvd base hd, ← Nat.mod_mod_of_dvd pos hd, hb]
  rw [Nat.add_mod, ← e1, ← Nat.add_mod]; exact h

/-! ### first bytes: the marker dispatch and the empty generic array -/

theorem typedHeader_ne_marker {t : ElemTy} (hv : t.Valid) : typedHeader t ≠ alignedMarker := by
  intro h
  have h1 := typedHeader_toNat hv
  have ⟨_, _⟩ := hv.bounds
  rw [h] at h1
  have : alignedMarker.toNat = 92 := by decide
  omega

theorem encodeTypedRaw_ne_emptyGeneric {t : ElemTy} (hv : t.Valid) (n : Nat) (p : Bytes) :
    encodeTypedRaw t n p ≠ emptyGenericArray := by
  intro h
  have h1 := typedHeader_toNat hv
  have ⟨_, _⟩ := hv.bounds
  simp only [encodeTypedRaw, emptyGenericArray, List.cons.injEq] at h
  rw [h.1] at h1
  have : (0x05 : UInt8).toNat = 5 := by decide
  omega

theorem encodeComplexRaw_ne_emptyGeneric (t : ElemTy) (n : Nat) (p : Bytes) :
    encodeComplexRaw t n p ≠ emptyGenericArray := by
  intro h
  simp only [encodeComplexRaw, complexHeader, emptyGenericArray, List.cons_append, List.cons.injEq] at h
  exact absurd h.1 (by decide)

theorem encodeTyped_ne_emptyGeneric {t : ElemTy} (hv : t.Valid) (xs : List Bytes) :
    encodeTyped t xs ≠ emptyGenericArray := encodeTypedRaw_ne_emptyGeneric hv _ _

theorem encodeComplex_ne_emptyGeneric (t : ElemTy) (xs : List Bytes) :
    encodeComplex t xs ≠ emptyGenericArray := encodeComplexRaw_ne_emptyGeneric _ _ _

theorem encodeAlignedRaw_ne_emptyGeneric (t : ElemTy) (n : Nat) (p : Bytes) (base : Nat) :
    encodeAlignedRaw t n p base ≠ emptyGenericArray := by
  intro h
  simp only [encodeAlignedRaw, emptyGenericArray, List.cons.injEq] at h
  exact absurd h.1 (by decide)

end Repe.Beve
