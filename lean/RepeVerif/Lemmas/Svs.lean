import RepeVerif.Model.Svs
/-! Helper lemmas for C09 (core Lean only). -/
namespace Repe.Svs

/-! ### sink -/

/-- facts the sink theorems need -/
structure Facts.SinkOk (F : Facts) : Prop where
  full : F.sinkFull = .ge
  flush : F.flushEmits = false
  rem : F.flushRemainingSkipsEmpty = true

/-- Sink invariant: the carry is shorter than a chunk and every pushed chunk is exactly a chunk. -/
def Sink.Good (c : Nat) (s : Sink) : Prop := s.buf.length < c ∧ ∀ ch ∈ s.out, ch.length = c

def Sink.bytes (s : Sink) : Bytes := s.out.flatten ++ s.buf

theorem Sink.good_init {c : Nat} (hc : 1 ≤ c) : Sink.Good c {} := by
  constructor
  · show ([] : Bytes).length < c
    simp only [List.length_nil]; omega
  · intro ch h; simp at h

theorem writeLoop_spec (F : Facts) (hF : F.sinkFull = .ge) (c : Nat) :
    ∀ (fuel : Nat) (s : Sink) (data : Bytes), Sink.Good c s → data.length ≤ fuel →
      ∃ s', writeLoop F c fuel s data = some s' ∧ Sink.Good c s' ∧ s'.bytes = s.bytes ++ data ∧
        ∃ new, s'.out = s.out ++ new := by
  intro fuel
  induction fuel with
  | zero =>
    intro s data hg hl
    cases data with
    | nil => exact ⟨s, by simp [writeLoop], hg, by simp, [], by simp⟩
    | cons d ds => simp at hl
  | succ fuel ih =>
    intro s data hg hl
    cases data with
    | nil => exact ⟨s, by simp [writeLoop], hg, by simp, [], by simp⟩
    | cons d ds =>
      obtain ⟨hb, ho⟩ := hg
      simp only [writeLoop, hF, Cmp.test]
      -- abbreviations
      have htake1 : 1 ≤ min (c - s.buf.length) (d :: ds).length := by
        simp only [List.length_cons]; omega
      have hlen : (s.buf ++ (d :: ds).take (min (c - s.buf.length) (d :: ds).length)).length
          = s.buf.length + min (c - s.buf.length) (d :: ds).length := by
        simp [List.length_take]
      have hdrop : ((d :: ds).drop (min (c - s.buf.length) (d :: ds).length)).length ≤ fuel := by
        simp only [List.length_drop, List.length_cons] at *; omega
      by_cases hfull : c ≤ (s.buf ++ (d :: ds).take (min (c - s.buf.length) (d :: ds).length)).length
      · simp only [hfull, decide_true, if_true]
        have hgood : Sink.Good c (Sink.sendChunk
            { s with buf := s.buf ++ (d :: ds).take (min (c - s.buf.length) (d :: ds).length) }) := by
          constructor
          · simp only [Sink.sendChunk, List.length_nil]; omega
          · intro ch hch
            simp only [Sink.sendChunk, List.mem_append, List.mem_singleton] at hch
            rcases hch with h | h
            · exact ho ch h
            · subst h; rw [hlen] at hfull ⊢; omega
        obtain ⟨s', h1, h2, h3, new, h4⟩ := ih _ _ hgood hdrop
        refine ⟨s', h1, h2, ?_, (s.buf ++ (d :: ds).take (min (c - s.buf.length) (d :: ds).length)) :: new, ?_⟩
        · rw [h3]
          simp only [Sink.bytes, Sink.sendChunk, List.flatten_append, List.flatten_cons, List.flatten_nil,
            List.append_nil, List.append_assoc]
          rw [List.take_append_drop]
        · rw [h4]; simp [Sink.sendChunk]
      · simp only [hfull, decide_false, Bool.false_eq_true, if_false]
        have hgood : Sink.Good c
            { s with buf := s.buf ++ (d :: ds).take (min (c - s.buf.length) (d :: ds).length) } := by
          constructor
          · simp only; omega
          · exact ho
        obtain ⟨s', h1, h2, h3, new, h4⟩ := ih _ _ hgood hdrop
        refine ⟨s', h1, h2, ?_, new, h4⟩
        rw [h3]
        simp only [Sink.bytes, List.append_assoc]
        rw [List.take_append_drop]

theorem Sink.write_spec (F : Facts) (hF : F.sinkFull = .ge) (c : Nat) (s : Sink) (data : Bytes)
    (hg : Sink.Good c s) :
    ∃ s', s.write F c data = some s' ∧ Sink.Good c s' ∧ s'.bytes = s.bytes ++ data ∧
      ∃ new, s'.out = s.out ++ new :=
  writeLoop_spec F hF c _ s data hg (Nat.le_succ _)

theorem Sink.run_spec (F : Facts) (hF : F.SinkOk) (c : Nat) :
    ∀ (evs : List Ev) (s : Sink), Sink.Good c s →
      ∃ s', Sink.run F c s evs = some s' ∧ Sink.Good c s' ∧ s'.bytes = s.bytes ++ evBytes evs := by
  intro evs
  induction evs with
  | nil => intro s hg; exact ⟨s, rfl, hg, by simp [evBytes]⟩
  | cons e es ih =>
    intro s hg
    cases e with
    | write b =>
      obtain ⟨s1, h1, h2, h3, _⟩ := Sink.write_spec F hF.full c s b hg
      obtain ⟨s2, k1, k2, k3⟩ := ih s1 h2
      refine ⟨s2, ?_, k2, ?_⟩
      · simp [Sink.run, Sink.ev, h1, k1]
      · rw [k3, h3]; simp [evBytes]
    | flush =>
      obtain ⟨s2, k1, k2, k3⟩ := ih s hg
      refine ⟨s2, ?_, k2, ?_⟩
      · simp [Sink.run, Sink.ev, hF.flush, k1]
      · rw [k3]; simp [evBytes]

/-- The chunk list `flush_remaining` leaves behind: the full chunks, then the non-empty carry. -/
theorem Sink.flushRemaining_out (F : Facts) (hF : F.SinkOk) (s : Sink) :
    (s.flushRemaining F).out = s.out ++ (if s.buf = [] then [] else [s.buf]) := by
  unfold Sink.flushRemaining
  rw [hF.rem]
  cases h : s.buf with
  | nil => simp
  | cons a r => simp [Sink.sendChunk, h]

/-! ### arithmetic of chunk lengths -/

theorem full_count {c n k t : Nat} (h : k * c + t = n) (ht : t < c) : k = n / c ∧ t = n % c := by
  have hc : 0 < c := by omega
  subst h
  constructor
  · rw [Nat.mul_comm, Nat.mul_add_div hc, Nat.div_eq_of_lt ht]; simp
  · rw [Nat.mul_comm, Nat.mul_add_mod, Nat.mod_eq_of_lt ht]

theorem flatten_length_full {c : Nat} : ∀ (l : List Bytes), (∀ ch ∈ l, ch.length = c) →
    l.flatten.length = l.length * c := by
  intro l
  induction l with
  | nil => simp
  | cons a r ih =>
    intro h
    simp only [List.flatten_cons, List.length_append, List.length_cons]
    rw [ih (fun ch hch => h ch (List.mem_cons_of_mem _ hch)), h a (List.mem_cons_self ..)]
    rw [Nat.add_mul]; omega

/-- Two decompositions of the same bytes into full chunks plus a short tail are equal. -/
theorem full_unique {c : Nat} : ∀ (l1 l2 : List Bytes) (t1 t2 : Bytes),
    (∀ ch ∈ l1, ch.length = c) → (∀ ch ∈ l2, ch.length = c) → t1.length < c → t2.length < c →
    l1.flatten ++ t1 = l2.flatten ++ t2 → l1 = l2 ∧ t1 = t2 := by
  intro l1
  induction l1 with
  | nil =>
    intro l2 t1 t2 _ h2 ht1 _ heq
    cases l2 with
    | nil => simpa using heq
    | cons b r =>
      exfalso
      have := congrArg List.length heq
      simp only [List.flatten_nil, List.nil_append, List.flatten_cons, List.length_append] at this
      have hb := h2 b (List.mem_cons_self ..)
      omega
  | cons a r ih =>
    intro l2 t1 t2 h1 h2 ht1 ht2 heq
    cases l2 with
    | nil =>
      exfalso
      have := congrArg List.length heq
      simp only [List.flatten_nil, List.nil_append, List.flatten_cons, List.length_append] at this
      have ha := h1 a (List.mem_cons_self ..)
      omega
    | cons b r2 =>
      have ha := h1 a (List.mem_cons_self ..)
      have hb := h2 b (List.mem_cons_self ..)
      simp only [List.flatten_cons, List.append_assoc] at heq
      obtain ⟨hab, hrest⟩ := List.append_inj heq (by omega)
      obtain ⟨hr, ht⟩ := ih r2 t1 t2 (fun ch hch => h1 ch (List.mem_cons_of_mem _ hch))
        (fun ch hch => h2 ch (List.mem_cons_of_mem _ hch)) ht1 ht2 hrest
      exact ⟨by rw [hab, hr], ht⟩

/-! ### consumer automaton -/

theorem feedRun_stopped (l : List Msg) : feedRun .stopped l = [] := by
  cases l <;> rfl

theorem feedRun_nil {st : PState} (h : st ≠ .stopped) :
    feedRun st [] = (feed st (.fail vanished)).2.toList := by
  cases st <;> first | rfl | exact absurd rfl h

theorem feedRun_cons {st : PState} (h : st ≠ .stopped) (m : Msg) (r : List Msg) :
    feedRun st (m :: r) = (feed st m).2.toList ++ feedRun (feed st m).1 r := by
  cases st <;> first | rfl | exact absurd rfl h

theorem feed_fail_stops {st : PState} (e : String) : (feed st (.fail e)).1 = .stopped := by
  cases st <;> rfl

def nonlast (c : Bytes) : PullRes := .ok (c, false)

theorem feedRun_have_clean (junk : List Msg) : ∀ (cs : List Bytes) (c : Bytes),
    feedRun (.have c) (cs.map .chunk ++ .end :: junk) = (pullsOf (c :: cs)).map .ok := by
  intro cs
  induction cs with
  | nil => intro c; simp [feedRun, feed, pullsOf, feedRun_stopped]
  | cons a r ih => intro c; simp [feedRun, feed, pullsOf, ih a]

theorem feedRun_fresh_clean (junk : List Msg) (cs : List Bytes) :
    feedRun .fresh (cs.map .chunk ++ .end :: junk) = (pullsOf cs).map .ok := by
  cases cs with
  | nil => simp [feedRun, feed, pullsOf, feedRun_stopped]
  | cons a r =>
    have := feedRun_have_clean junk r a
    simp only [List.map_cons, List.cons_append]
    rw [feedRun_cons (by simp)]
    simpa [feed] using this

theorem feedRun_have_fail (e : String) (junk : List Msg) : ∀ (cs : List Bytes) (c : Bytes),
    feedRun (.have c) (cs.map .chunk ++ .fail e :: junk) = ((c :: cs).dropLast).map nonlast ++ [.error e] := by
  intro cs
  induction cs with
  | nil => intro c; simp [feedRun, feed, feedRun_stopped]
  | cons a r ih => intro c; simp [feedRun, feed, ih a, nonlast]

theorem feedRun_fresh_fail (e : String) (junk : List Msg) (cs : List Bytes) :
    feedRun .fresh (cs.map .chunk ++ .fail e :: junk) = cs.dropLast.map nonlast ++ [.error e] := by
  cases cs with
  | nil => simp [feedRun, feed, feedRun_stopped]
  | cons a r =>
    have := feedRun_have_fail e junk r a
    simp only [List.map_cons, List.cons_append]
    rw [feedRun_cons (by simp)]
    simpa [feed] using this

theorem feedRun_have_vanish : ∀ (cs : List Bytes) (c : Bytes),
    feedRun (.have c) (cs.map .chunk) = ((c :: cs).dropLast).map nonlast ++ [.error vanished] := by
  intro cs
  induction cs with
  | nil => intro c; simp [feedRun, feed]
  | cons a r ih => intro c; simp [feedRun, feed, ih a, nonlast]

theorem feedRun_fresh_vanish (cs : List Bytes) :
    feedRun .fresh (cs.map .chunk) = cs.dropLast.map nonlast ++ [.error vanished] := by
  cases cs with
  | nil => simp [feedRun, feed]
  | cons a r =>
    have := feedRun_have_vanish r a
    simp only [List.map_cons]
    rw [feedRun_cons (by simp)]
    simpa [feed] using this

/-! ### `pullsOf` -/

theorem pullsOf_concat : ∀ (cs : List Bytes), ((pullsOf cs).map (·.1)).flatten = cs.flatten
  | [] => by simp [pullsOf]
  | [c] => by simp [pullsOf]
  | c :: c' :: r => by
    have := pullsOf_concat (c' :: r)
    simp only [pullsOf, List.map_cons, List.flatten_cons] at this ⊢
    rw [this]

theorem pullsOf_flags : ∀ (cs : List Bytes),
    (pullsOf cs).map (·.2) = List.replicate (cs.length - 1) false ++ [true]
  | [] => by simp [pullsOf]
  | [c] => by simp [pullsOf]
  | c :: c' :: r => by
    have := pullsOf_flags (c' :: r)
    simp only [pullsOf, List.map_cons, List.length_cons] at this ⊢
    rw [this]
    simp [List.replicate_succ]

theorem pullsOf_length (cs : List Bytes) : (pullsOf cs).length = max cs.length 1 := by
  have := congrArg List.length (pullsOf_flags cs)
  simp only [List.length_map, List.length_append, List.length_replicate, List.length_cons,
    List.length_nil] at this
  omega

theorem pullsOf_chunks_of_ne_nil : ∀ (cs : List Bytes), cs ≠ [] → (pullsOf cs).map (·.1) = cs
  | [], h => absurd rfl h
  | [c], _ => by simp [pullsOf]
  | c :: c' :: r, _ => by
    have := pullsOf_chunks_of_ne_nil (c' :: r) (by simp)
    simp only [pullsOf, List.map_cons] at this ⊢
    rw [this]

/-! ### big-step `Session::pull` = the automaton -/

def stOf : Option Bytes → PState
  | none => .fresh
  | some c => .have c

theorem peek_feedRun (n : Nat)
    (ih : ∀ (msgs : List Msg) (la : Option Bytes) (dn : Bool), msgs.length < n →
      pullAll n ⟨msgs, la, dn⟩ = feedRun (stOf la) msgs)
    (msgs : List Msg) (dn : Bool) (c : Bytes) (h : msgs.length < n + 1) :
    (match Session.peek ⟨msgs, none, dn⟩ c with
      | (s', .ok (c, false)) => Except.ok (c, false) :: pullAll n s'
      | (_, r) => [r]) = feedRun (.have c) msgs := by
  cases msgs with
  | nil => simp [Session.peek, Session.recv, feedRun, feed]
  | cons m r =>
    cases m with
    | chunk nx =>
      simp only [Session.peek, Session.recv]
      rw [ih r (some nx) dn (by simpa using h)]
      simp [feedRun, feed, stOf]
    | «end» => simp [Session.peek, Session.recv, feedRun, feed, feedRun_stopped]
    | fail e => simp [Session.peek, Session.recv, feedRun, feed, feedRun_stopped]

theorem pullAll_eq_feedRun : ∀ (n : Nat) (msgs : List Msg) (la : Option Bytes) (dn : Bool),
    msgs.length < n → pullAll n ⟨msgs, la, dn⟩ = feedRun (stOf la) msgs := by
  intro n
  induction n with
  | zero => intro msgs la dn h; simp at h
  | succ n ih =>
    intro msgs la dn h
    cases la with
    | some c =>
      simp only [pullAll, Session.pull, stOf]
      exact peek_feedRun n ih msgs dn c h
    | none =>
      cases msgs with
      | nil => simp [pullAll, Session.pull, Session.recv, feedRun, feed, stOf]
      | cons m r =>
        cases m with
        | chunk c =>
          simp only [pullAll, Session.pull, Session.recv, stOf]
          have := peek_feedRun n ih r dn c (by simp at h; omega)
          refine this.trans ?_
          simp [feedRun, feed]
        | «end» => simp [pullAll, Session.pull, Session.recv, feedRun, feed, stOf, feedRun_stopped]
        | fail e => simp [pullAll, Session.pull, Session.recv, feedRun, feed, stOf, feedRun_stopped]

/-! ### the bounded channel: schedule independence -/

/-- What the handler will have returned once it stops: results so far, then the automaton over
everything still in flight (buffer first, then what the producer has yet to send). -/
def Sys.total (s : Sys) : List PullRes := s.out ++ feedRun s.cons (s.queue ++ s.toSend)

theorem Sys.deliver_total (s : Sys) (m : Msg) (rest : List Msg) (h : s.cons ≠ .stopped) :
    (s.deliver m).out ++ feedRun (s.deliver m).cons rest = s.out ++ feedRun s.cons (m :: rest) := by
  simp only [Sys.deliver]
  rw [feedRun_cons h, List.append_assoc]

theorem Sys.step_total (d : Nat) (s s' : Sys) (st : Step) (h : s.step d st = some s') :
    s'.total = s.total := by
  cases st with
  | send =>
    simp only [Sys.step] at h
    cases hs : s.toSend with
    | nil => simp [hs] at h
    | cons m r =>
      simp only [hs] at h
      split at h
      · cases h; simp [Sys.total, hs]
      · cases h
  | recv =>
    simp only [Sys.step] at h
    split at h
    · cases h
    · rename_i hc
      cases hq : s.queue with
      | nil => simp [hq] at h
      | cons m q =>
        simp only [hq] at h
        cases h
        have := Sys.deliver_total { s with queue := q } m (q ++ s.toSend) hc
        simp only [Sys.total, hq, List.cons_append]
        exact this
  | handoff =>
    simp only [Sys.step] at h
    split at h
    · cases h
    · rename_i hc
      cases hq : s.queue with
      | cons m q => simp [hq] at h
      | nil =>
        cases hs : s.toSend with
        | nil => simp [hq, hs] at h
        | cons m r =>
          simp only [hq, hs] at h
          cases h
          have := Sys.deliver_total { s with toSend := r } m (s.queue ++ r) hc
          simp only [Sys.total, hq, hs, List.nil_append] at this ⊢
          exact this
  | closed =>
    simp only [Sys.step] at h
    split at h
    · cases h
    · rename_i hc
      cases hq : s.queue with
      | cons m q => simp [hq] at h
      | nil =>
        cases hs : s.toSend with
        | cons m r => simp [hq, hs] at h
        | nil =>
          simp only [hq, hs] at h
          cases h
          simp only [Sys.total, Sys.deliver, hq, hs, List.append_nil, feed_fail_stops, feedRun_stopped,
            feedRun_nil hc]

theorem Sys.run_total (d : Nat) : ∀ (sched : List Step) (s : Sys), (Sys.run d s sched).total = s.total := by
  intro sched
  induction sched with
  | nil => intro s; rfl
  | cons st r ih =>
    intro s
    simp only [Sys.run]
    rw [ih]
    cases h : s.step d st with
    | none => rfl
    | some s' => exact Sys.step_total d s s' st h

/-- No deadlock: while the handler has not stopped, some step is enabled (at every depth, 0 included). -/
theorem Sys.progress (d : Nat) (s : Sys) (h : s.cons ≠ .stopped) : ∃ st, (s.step d st).isSome := by
  cases hq : s.queue with
  | cons m q => exact ⟨.recv, by simp [Sys.step, h, hq]⟩
  | nil =>
    cases hs : s.toSend with
    | cons m r => exact ⟨.handoff, by simp [Sys.step, h, hq, hs]⟩
    | nil => exact ⟨.closed, by simp [Sys.step, h, hq, hs]⟩

/-- Every enabled step makes progress, so schedules of enabled steps are finite. -/
def Sys.measure (s : Sys) : Nat :=
  2 * s.toSend.length + s.queue.length + (if s.cons = .stopped then 0 else 1)

theorem feed_stopped_mono {st : PState} (m : Msg) (h : st = .stopped) : (feed st m).1 = .stopped := by
  subst h; rfl

theorem Sys.step_measure (d : Nat) (s s' : Sys) (st : Step) (h : s.step d st = some s') :
    s'.measure < s.measure := by
  cases st with
  | send =>
    simp only [Sys.step] at h
    cases hs : s.toSend with
    | nil => simp [hs] at h
    | cons m r =>
      simp only [hs] at h
      split at h
      · cases h; simp only [Sys.measure, hs, List.length_cons, List.length_append, List.length_nil]; omega
      · cases h
  | recv =>
    simp only [Sys.step] at h
    split at h
    · cases h
    · rename_i hc
      cases hq : s.queue with
      | nil => simp [hq] at h
      | cons m q =>
        simp only [hq] at h
        cases h
        simp only [Sys.measure, Sys.deliver, hq, List.length_cons, hc, if_false]
        by_cases hx : (feed s.cons m).fst = .stopped <;> simp only [hx, if_true, if_false] <;> omega
  | handoff =>
    simp only [Sys.step] at h
    split at h
    · cases h
    · rename_i hc
      cases hq : s.queue with
      | cons m q => simp [hq] at h
      | nil =>
        cases hs : s.toSend with
        | nil => simp [hq, hs] at h
        | cons m r =>
          simp only [hq, hs] at h
          cases h
          simp only [Sys.measure, Sys.deliver, hq, hs, List.length_cons, List.length_nil, hc, if_false]
          by_cases hx : (feed s.cons m).fst = .stopped <;> simp only [hx, if_true, if_false] <;> omega
  | closed =>
    simp only [Sys.step] at h
    split at h
    · cases h
    · rename_i hc
      cases hq : s.queue with
      | cons m q => simp [hq] at h
      | nil =>
        cases hs : s.toSend with
        | cons m r => simp [hq, hs] at h
        | nil =>
          simp only [hq, hs] at h
          cases h
          simp only [Sys.measure, Sys.deliver, hq, hs, List.length_nil, hc, if_false, feed_fail_stops,
            if_true]
          omega

theorem firstEnabled_some (d : Nat) (s : Sys) : ∀ (l : List Step) (s' : Sys),
    firstEnabled d s l = some s' → ∃ st, s.step d st = some s' := by
  intro l
  induction l with
  | nil => intro s' h; simp [firstEnabled] at h
  | cons st r ih =>
    intro s' h
    simp only [firstEnabled] at h
    cases hs : s.step d st with
    | some s1 => rw [hs] at h; cases h; exact ⟨st, hs⟩
    | none => rw [hs] at h; exact ih s' h

theorem firstEnabled_none (d : Nat) (s : Sys) : ∀ (l : List Step),
    firstEnabled d s l = none → ∀ st ∈ l, s.step d st = none := by
  intro l
  induction l with
  | nil => intro _ st h; simp at h
  | cons a r ih =>
    intro h st hst
    simp only [firstEnabled] at h
    cases hs : s.step d a with
    | some s1 => rw [hs] at h; cases h
    | none =>
      rw [hs] at h
      rcases List.mem_cons.mp hst with rfl | hr
      · exact hs
      · exact ih h st hr

theorem Policy.order_complete (p : Policy) (k : Nat) (st : Step) : st ∈ p.order k := by
  cases p <;> cases st <;> simp [Policy.order] <;> split <;> simp

theorem Sys.runPolicy_total (d : Nat) (p : Policy) : ∀ (fuel k : Nat) (s : Sys),
    (Sys.runPolicy d p fuel k s).total = s.total := by
  intro fuel
  induction fuel with
  | zero => intro k s; rfl
  | succ fuel ih =>
    intro k s
    simp only [Sys.runPolicy]
    cases h : firstEnabled d s (p.order k) with
    | none => rfl
    | some s' =>
      simp only []
      rw [ih]
      obtain ⟨st, hst⟩ := firstEnabled_some d s _ s' h
      exact Sys.step_total d s s' st hst

theorem Sys.runPolicy_stops (d : Nat) (p : Policy) : ∀ (fuel k : Nat) (s : Sys),
    s.measure ≤ fuel → (Sys.runPolicy d p fuel k s).cons = .stopped := by
  intro fuel
  induction fuel with
  | zero =>
    intro k s h
    simp only [Sys.runPolicy]
    simp only [Sys.measure] at h
    split at h
    · assumption
    · omega
  | succ fuel ih =>
    intro k s h
    simp only [Sys.runPolicy]
    cases hf : firstEnabled d s (p.order k) with
    | none =>
      simp only []
      apply Classical.byContradiction
      intro hc
      obtain ⟨st, hst⟩ := Sys.progress d s hc
      have := firstEnabled_none d s _ hf st (Policy.order_complete p k st)
      rw [this] at hst; simp at hst
    | some s' =>
      simp only []
      obtain ⟨st, hst⟩ := firstEnabled_some d s _ s' hf
      have := Sys.step_measure d s s' st hst
      exact ih (k + 1) s' (by omega)

/-! ### session table -/

theorem lookup_filter_self (id : Nat) : ∀ (l : List (Nat × Session)),
    (l.filter (fun p => p.1 != id)).lookup id = none := by
  intro l
  induction l with
  | nil => rfl
  | cons a r ih =>
    by_cases h : a.1 = id
    · simp [List.filter, h, ih]
    · have : (a.1 != id) = true := by simpa using h
      simp only [List.filter, this, List.lookup]
      have h2 : (id == a.1) = false := by simpa using fun e => h e.symm
      simp [h2, ih]

theorem lookup_filter_other (id id' : Nat) (hne : id' ≠ id) : ∀ (l : List (Nat × Session)),
    (l.filter (fun p => p.1 != id)).lookup id' = l.lookup id' := by
  intro l
  induction l with
  | nil => rfl
  | cons a r ih =>
    by_cases h : a.1 = id
    · have h2 : (id' == id) = false := by simpa using hne
      simp [List.filter, h, ih, List.lookup, h2]
    · have : (a.1 != id) = true := by simpa using h
      simp only [List.filter, this, List.lookup]
      split <;> simp_all

theorem Server.get_remove (sv : Server) (id : Nat) : (sv.remove id).get id = none := by
  simp [Server.get, Server.remove, lookup_filter_self]

theorem Server.get_put (sv : Server) (id : Nat) (s : Session) : (sv.put id s).get id = some s := by
  simp [Server.get, Server.put]

theorem Server.get_remove_other (sv : Server) (id id' : Nat) (h : id' ≠ id) :
    (sv.remove id).get id' = sv.get id' := by
  simp [Server.get, Server.remove, lookup_filter_other id id' h]

theorem Server.get_put_other (sv : Server) (id id' : Nat) (s : Session) (h : id' ≠ id) :
    (sv.put id s).get id' = sv.get id' := by
  have h2 : (id' == id) = false := by simpa using h
  simp [Server.get, Server.put, List.lookup, h2, lookup_filter_other id id' h]

theorem Server.get_open (sv : Server) (msgs : List Msg) :
    (sv.open msgs).1.get (sv.open msgs).2 = some { rx := msgs } := by
  simp [Server.get, Server.open]

/-- the `done` discipline of `NextHandler` -/
structure Facts.NextOk (F : Facts) : Prop where
  checked : F.doneChecked = true
  onLast : F.doneOnLast = true
  onErr : F.doneOnErr = true

/-- The stream is over on the server: released, or still in the table but marked done. -/
def Server.Finished (sv : Server) (id : Nat) : Prop :=
  sv.get id = none ∨ ∃ s, sv.get id = some s ∧ s.done = true

theorem Server.next_finished (F : Facts) (hF : F.NextOk) (sv : Server) (id : Nat)
    (h : sv.Finished id) : (sv.next F id).2 = .error ∧ (sv.next F id).1.Finished id := by
  rcases h with h | ⟨s, h, hd⟩
  · simp [Server.next, h, Server.Finished]
  · simp only [Server.next, h, Session.locked, hF.checked, hd, Bool.and_self, if_true]
    refine ⟨trivial, ?_⟩
    split
    · exact Or.inl (Server.get_remove sv id)
    · exact Or.inr ⟨s, Server.get_put sv id s, hd⟩

theorem Server.nexts_finished (F : Facts) (hF : F.NextOk) (id : Nat) : ∀ (n : Nat) (sv : Server),
    sv.Finished id → (Server.nexts F n sv id).2 = List.replicate n .error := by
  intro n
  induction n with
  | zero => intro sv _; rfl
  | succ n ih =>
    intro sv h
    obtain ⟨h1, h2⟩ := Server.next_finished F hF sv id h
    simp only [Server.nexts, List.replicate_succ]
    rw [ih _ h2]
    cases hx : sv.next F id with
    | mk a b => rw [hx] at h1; simp at h1; simp [h1]

/-- first `n` of `l` followed by errors for ever -/
def expected : Nat → List Resp → List Resp
  | 0, _ => []
  | n + 1, [] => .error :: expected n []
  | n + 1, x :: r => x :: expected n r

theorem expected_nil : ∀ n, expected n [] = List.replicate n .error
  | 0 => rfl
  | n + 1 => by simp [expected, expected_nil n, List.replicate_succ]

theorem expected_ge : ∀ (l : List Resp) (n : Nat), l.length ≤ n →
    expected n l = l ++ List.replicate (n - l.length) .error
  | [], n, _ => by simp [expected_nil]
  | x :: r, 0, h => by simp at h
  | x :: r, n + 1, h => by
    have := expected_ge r n (by simpa using h)
    simp [expected, this]

/-- One `pull`, in terms of the automaton's results. -/
theorem pull_results (rx : List Msg) (la : Option Bytes) (dn : Bool) :
    (feedRun (stOf la) rx = match Session.pull ⟨rx, la, dn⟩ with
      | (s', .ok (c, false)) => .ok (c, false) :: feedRun (stOf s'.lookahead) s'.rx
      | (_, r) => [r])
    ∧ (Session.pull ⟨rx, la, dn⟩).1.done = dn := by
  cases la with
  | some c =>
    cases rx with
    | nil => simp [Session.pull, Session.peek, Session.recv, feedRun, feed, stOf]
    | cons m r =>
      cases m <;> simp [Session.pull, Session.peek, Session.recv, feedRun, feed, stOf, feedRun_stopped]
  | none =>
    cases rx with
    | nil => simp [Session.pull, Session.recv, feedRun, feed, stOf]
    | cons m r =>
      cases m with
      | chunk c =>
        cases r with
        | nil => simp [Session.pull, Session.peek, Session.recv, feedRun, feed, stOf]
        | cons m' r' =>
          cases m' <;>
            simp [Session.pull, Session.peek, Session.recv, feedRun, feed, stOf, feedRun_stopped]
      | «end» => simp [Session.pull, Session.recv, feedRun, feed, stOf, feedRun_stopped]
      | fail e => simp [Session.pull, Session.recv, feedRun, feed, stOf, feedRun_stopped]

theorem Server.nexts_spec (F : Facts) (hF : F.NextOk) (id : Nat) : ∀ (n : Nat) (sv : Server)
    (rx : List Msg) (la : Option Bytes), sv.get id = some ⟨rx, la, false⟩ →
    (Server.nexts F n sv id).2 = expected n ((feedRun (stOf la) rx).map (respOfPull F)) := by
  intro n
  induction n with
  | zero => intro sv rx la _; rfl
  | succ n ih =>
    intro sv rx la hget
    obtain ⟨hres, hdone⟩ := pull_results rx la false
    simp only [Server.nexts, Server.next, hget, Session.locked, Bool.and_false, Bool.false_eq_true, if_false]
    rw [hres]
    cases hp : Session.pull ⟨rx, la, false⟩ with
    | mk s1 r =>
      rw [hp] at hdone
      simp only [] at hdone
      cases r with
      | error e =>
        simp only [List.map_cons, List.map_nil, respOfPull, expected]
        have hfin : (if F.removeOnErr = true then sv.remove id
            else sv.put id { s1 with done := s1.done || F.doneOnErr }).Finished id := by
          split
          · exact Or.inl (Server.get_remove sv id)
          · exact Or.inr ⟨_, Server.get_put sv id _, by simp [hF.onErr]⟩
        rw [Server.nexts_finished F hF id n _ hfin, expected_nil]
      | ok v =>
        obtain ⟨c, last⟩ := v
        cases last with
        | true =>
          simp only [List.map_cons, List.map_nil, respOfPull, expected, Bool.true_and]
          have hfin : (if F.removeOnLast = true then sv.remove id
              else sv.put id { s1 with done := s1.done || F.doneOnLast }).Finished id := by
            split
            · exact Or.inl (Server.get_remove sv id)
            · exact Or.inr ⟨_, Server.get_put sv id _, by simp [hF.onLast]⟩
          rw [Server.nexts_finished F hF id n _ hfin, expected_nil]
        | false =>
          simp only [List.map_cons, respOfPull, expected, Bool.false_and, Bool.false_eq_true, if_false,
            Bool.or_false]
          have hget' : (sv.put id { s1 with done := s1.done }).get id = some ⟨s1.rx, s1.lookahead, false⟩ := by
            rw [Server.get_put]; cases s1; simp_all
          rw [ih _ s1.rx s1.lookahead hget']

/-! ### client reassembly -/

/-- Bytes of the bodies up to and including the first `last`-flagged response, and whether such a
response arrives before an error (or before the list runs out). `k` is the client's flag test. -/
def tailBytes (k : Nat) : List Resp → Bytes × Bool
  | [] => ([], false)
  | .error :: _ => ([], false)
  | .chunk b q :: r => if isLast k q then (b, true) else (b ++ (tailBytes k r).1, (tailBytes k r).2)

theorem tailBytes_le (k : Nat) : ∀ (rs : List Resp), (tailBytes k rs).1.length ≤ respBytes rs
  | [] => by simp [tailBytes]
  | .error :: r => by simp [tailBytes]
  | .chunk b q :: r => by
    have := tailBytes_le k r
    simp only [tailBytes, respBytes]
    split <;> simp <;> omega

/-- logical bytes a reader still owes its consumer, and whether they end in a clean EOF -/
def Reader.pend (F : Facts) (r : Reader) : Bytes × Bool :=
  (r.buf.drop r.pos ++ (if r.finished then [] else (tailBytes F.syncLastIs r.rs).1),
   r.finished || (tailBytes F.syncLastIs r.rs).2)

theorem Reader.read_spec (F : Facts) (want : Nat) (hw : 1 ≤ want) : ∀ (fuel : Nat) (r : Reader),
    r.pos ≤ r.buf.length → r.rs.length < fuel →
    match Reader.read F fuel r want with
    | (r', .data b) => b ≠ [] ∧ (r.pend F).1 = b ++ (r'.pend F).1 ∧ (r.pend F).2 = (r'.pend F).2 ∧
        r'.pos ≤ r'.buf.length ∧ r'.rs.length ≤ r.rs.length
    | (_, .eof) => r.pend F = ([], true)
    | (_, .err) => r.pend F = ([], false) := by
  intro fuel
  induction fuel with
  | zero => intro r _ h; simp at h
  | succ fuel ih =>
    intro r hpos hfuel
    simp only [Reader.read]
    by_cases h1 : r.pos < r.buf.length
    · simp only [h1, if_true]
      refine ⟨?_, ?_, rfl, ?_, Nat.le_refl _⟩
      · intro hnil
        have := congrArg List.length hnil
        simp only [List.length_take, List.length_drop, List.length_nil] at this
        omega
      · simp only [Reader.pend]
        rw [← List.append_assoc]
        congr 1
        have : r.buf.drop (r.pos + min want (r.buf.length - r.pos))
            = (r.buf.drop r.pos).drop (min want (r.buf.length - r.pos)) := by
          rw [List.drop_drop]
        rw [this, List.take_append_drop]
      · show r.pos + min want (r.buf.length - r.pos) ≤ r.buf.length
        omega
    · simp only [h1, if_false]
      have hdrop : r.buf.drop r.pos = [] := by
        apply List.drop_eq_nil_of_le; omega
      by_cases hf : r.finished = true
      · simp [hf, Reader.pend, hdrop]
      · have hf' : r.finished = false := by simpa using hf
        simp only [hf', Bool.false_eq_true, if_false]
        cases hrs : r.rs with
        | nil => simp [Reader.fetch, hrs, Reader.pend, hdrop, hf', tailBytes]
        | cons x rest =>
          cases x with
          | error => simp [Reader.fetch, hrs, Reader.pend, hdrop, hf', tailBytes]
          | chunk body q =>
            simp only [Reader.fetch, hrs]
            have hlen : rest.length < fuel := by
              rw [hrs] at hfuel; simp at hfuel; omega
            have := ih ⟨rest, body, 0, r.finished || isLast F.syncLastIs q,
                         r.lastSeen || isLast F.syncLastIs q⟩ (Nat.zero_le _) hlen
            have hpend : r.pend F = Reader.pend F ⟨rest, body, 0, r.finished || isLast F.syncLastIs q,
                         r.lastSeen || isLast F.syncLastIs q⟩ := by
              simp only [Reader.pend, hdrop, hf', hrs, tailBytes, List.drop_zero, Bool.false_or,
                List.nil_append, Bool.false_eq_true, if_false]
              cases isLast F.syncLastIs q <;> simp
            rw [hpend]
            revert this
            cases Reader.read F fuel _ want with
            | mk r' res =>
              cases res with
              | data b =>
                simp only [hrs, List.length_cons]
                intro ⟨a1, a2, a3, a4, a5⟩
                exact ⟨a1, a2, a3, a4, by omega⟩
              | eof => exact id
              | err => exact id

theorem Reader.drain_spec (F : Facts) (sizes : Nat → Nat) (hs : ∀ k, 1 ≤ sizes k) :
    ∀ (fuel k : Nat) (r : Reader) (acc : Bytes), r.pos ≤ r.buf.length → (r.pend F).1.length < fuel →
    (Reader.drain F sizes fuel k r acc).1 = acc ++ (r.pend F).1 ∧
    (Reader.drain F sizes fuel k r acc).2.1 = (r.pend F).2 := by
  intro fuel
  induction fuel with
  | zero => intro k r acc _ h; simp at h
  | succ fuel ih =>
    intro k r acc hpos hfuel
    have hspec := Reader.read_spec F (sizes k) (hs k) (r.rs.length + 2) r hpos (by omega)
    simp only [Reader.drain]
    revert hspec
    cases Reader.read F (r.rs.length + 2) r (sizes k) with
    | mk r' res =>
      cases res with
      | data b =>
        intro ⟨h1, h2, h3, h4, _⟩
        simp only []
        have hlen : (r'.pend F).1.length < fuel := by
          have := congrArg List.length h2
          simp only [List.length_append] at this
          have hb : 0 < b.length := List.length_pos_iff.mpr h1
          omega
        obtain ⟨i1, i2⟩ := ih (k + 1) r' (acc ++ b) h4 hlen
        rw [i1, i2, h2, h3]
        simp
      | eof => intro h; simp [h]
      | err => intro h; simp [h]

theorem syncPull_eq (F : Facts) (sizes : Nat → Nat) (hs : ∀ k, 1 ≤ sizes k) (rs : List Resp) :
    syncPull F sizes rs =
      if (tailBytes F.syncLastIs rs).2 then some (tailBytes F.syncLastIs rs).1 else none := by
  have hle := tailBytes_le F.syncLastIs rs
  have := Reader.drain_spec F sizes hs (respBytes rs + rs.length + 2) 0 { rs := rs } [] (by simp)
    (by simp [Reader.pend]; omega)
  simp only [Reader.pend, List.drop_nil, List.nil_append, Bool.false_eq_true, if_false,
    Bool.false_or] at this
  obtain ⟨h1, h2⟩ := this
  simp only [syncPull]
  revert h1 h2
  cases Reader.drain F sizes (respBytes rs + rs.length + 2) 0 { rs := rs } [] with
  | mk acc rest =>
    cases rest with
    | mk ok r' =>
      intro h1 h2
      simp only [] at h1 h2
      subst h1
      cases ok <;> simp [← h2]

theorem asyncLoop_eq (F : Facts) : ∀ (rs : List Resp),
    (asyncLoop F rs).1.flatten = (tailBytes F.asyncLastIs rs).1 ∧
    (asyncLoop F rs).2 = (tailBytes F.asyncLastIs rs).2
  | [] => by simp [asyncLoop, tailBytes]
  | .error :: r => by simp [asyncLoop, tailBytes]
  | .chunk b q :: r => by
    obtain ⟨h1, h2⟩ := asyncLoop_eq F r
    simp only [asyncLoop, tailBytes]
    by_cases hl : isLast F.asyncLastIs q = true
    · simp only [hl, if_true]
      constructor
      · split
        · rename_i h; simp at h; simp [h.2]
        · simp
      · trivial
    · simp only [hl, Bool.false_eq_true, if_false]
      constructor
      · rw [List.flatten_append, h1]
        congr 1
        split
        · rename_i h; simp at h; simp [h.2]
        · simp
      · exact h2

theorem asyncPull_eq (F : Facts) (rs : List Resp) :
    asyncPull F rs =
      if (tailBytes F.asyncLastIs rs).2 then some (tailBytes F.asyncLastIs rs).1 else none := by
  obtain ⟨h1, h2⟩ := asyncLoop_eq F rs
  simp only [asyncPull, channelReaderAll]
  revert h1 h2
  cases asyncLoop F rs with
  | mk chunks ok =>
    intro h1 h2
    simp only [] at h1 h2
    cases ok <;> simp [← h2, h1]

/-- the wire encoding of the `last` flag is read back correctly by both clients -/
structure Facts.WireOk (F : Facts) : Prop where
  syncT : isLast F.syncLastIs (lastQuery F true) = true
  syncF : isLast F.syncLastIs (lastQuery F false) = false
  asyncT : isLast F.asyncLastIs (lastQuery F true) = true
  asyncF : isLast F.asyncLastIs (lastQuery F false) = false

theorem tailBytes_clean (F : Facts) (k : Nat) (hT : isLast k (lastQuery F true) = true)
    (hFl : isLast k (lastQuery F false) = false) (extra : List Resp) : ∀ (cs : List Bytes),
    tailBytes k (((pullsOf cs).map (fun p => respOfPull F (.ok p))) ++ extra) = (cs.flatten, true)
  | [] => by simp [pullsOf, respOfPull, tailBytes, hT]
  | [c] => by simp [pullsOf, respOfPull, tailBytes, hT]
  | c :: c' :: r => by
    have := tailBytes_clean F k hT hFl extra (c' :: r)
    simp only [pullsOf, List.map_cons, List.cons_append, respOfPull, tailBytes, hFl,
      Bool.false_eq_true, if_false] at this ⊢
    rw [this]; simp

theorem tailBytes_failed (F : Facts) (k : Nat) (hFl : isLast k (lastQuery F false) = false)
    (extra : List Resp) : ∀ (cs : List Bytes),
    (tailBytes k ((cs.map (fun c => respOfPull F (nonlast c))) ++ .error :: extra)).2 = false
  | [] => by simp [tailBytes]
  | c :: r => by
    have := tailBytes_failed F k hFl extra r
    simp only [List.map_cons, List.cons_append, respOfPull, nonlast, tailBytes, hFl,
      Bool.false_eq_true, if_false]
    exact this

/-! ### glue: producer, server responses -/

/-- What `produce` leaves in the channel for a body that wrote `evs`: the chunk list. -/
structure ChunksOf (c : Nat) (data : Bytes) (cs : List Bytes) : Prop where
  concat : cs.flatten = data
  shape : ∃ full tail, cs = full ++ (if tail = [] then [] else [tail]) ∧ (∀ ch ∈ full, ch.length = c) ∧
    tail.length < c ∧ full.length = data.length / c ∧ tail.length = data.length % c
  nonempty : ∀ ch ∈ cs, ch ≠ []

theorem ChunksOf.unique {c : Nat} {data : Bytes} {cs1 cs2 : List Bytes}
    (h1 : ChunksOf c data cs1) (h2 : ChunksOf c data cs2) : cs1 = cs2 := by
  obtain ⟨f1, t1, e1, a1, b1, _, _⟩ := h1.shape
  obtain ⟨f2, t2, e2, a2, b2, _, _⟩ := h2.shape
  have hcat : f1.flatten ++ t1 = f2.flatten ++ t2 := by
    have x1 := h1.concat; have x2 := h2.concat
    rw [e1] at x1; rw [e2] at x2
    have y1 : f1.flatten ++ t1 = data := by
      rw [← x1]; by_cases h : t1 = [] <;> simp [h]
    have y2 : f2.flatten ++ t2 = data := by
      rw [← x2]; by_cases h : t2 = [] <;> simp [h]
    rw [y1, y2]
  obtain ⟨hf, ht⟩ := full_unique f1 f2 t1 t2 a1 a2 b1 b2 hcat
  rw [e1, e2, hf, ht]

theorem ChunksOf.length_le {c : Nat} {data : Bytes} {cs : List Bytes} (h : ChunksOf c data cs) :
    cs.length ≤ data.length / c + 1 := by
  obtain ⟨f, t, e, _, _, hl, _⟩ := h.shape
  rw [e, List.length_append, hl]
  split <;> simp

theorem sink_run_chunks (F : Facts) (hF : F.SinkOk) (c : Nat) (hc : 1 ≤ c) (evs : List Ev) :
    ∃ s, Sink.run F c {} evs = some s ∧ Sink.Good c s ∧ s.bytes = evBytes evs ∧
      ChunksOf c (evBytes evs) (s.flushRemaining F).out := by
  obtain ⟨s, h1, h2, h3⟩ := Sink.run_spec F hF c evs {} (Sink.good_init hc)
  have hb : s.bytes = evBytes evs := by rw [h3]; simp [Sink.bytes]
  refine ⟨s, h1, h2, hb, ?_⟩
  have hout := Sink.flushRemaining_out F hF s
  have hlen : s.out.length * c + s.buf.length = (evBytes evs).length := by
    rw [← hb, Sink.bytes, List.length_append, flatten_length_full s.out h2.2]
  obtain ⟨hk, ht⟩ := full_count hlen h2.1
  refine ⟨?_, ⟨s.out, s.buf, hout, h2.2, h2.1, hk, ht⟩, ?_⟩
  · rw [hout, ← hb, Sink.bytes]
    by_cases h : s.buf = [] <;> simp [h]
  · intro ch hch
    rw [hout] at hch
    rcases List.mem_append.mp hch with h | h
    · intro hnil
      have := h2.2 ch h
      rw [hnil] at this; simp at this; omega
    · by_cases hb' : s.buf = []
      · simp [hb'] at h
      · simp only [hb', if_false, List.mem_singleton] at h
        rw [h]; exact hb'

theorem produce_ok (F : Facts) (hF : F.SinkOk) (c : Nat) (hc : 1 ≤ c) (evs : List Ev) :
    ∃ cs : List Bytes, produce F c evs .ok = some (cs.map .chunk ++ [.end]) ∧ ChunksOf c (evBytes evs) cs := by
  obtain ⟨s, h1, _, _, h4⟩ := sink_run_chunks F hF c hc evs
  exact ⟨_, by simp [produce, h1], h4⟩

theorem produce_err (F : Facts) (hF : F.SinkOk) (hE : F.failSendsFail = true) (c : Nat) (hc : 1 ≤ c)
    (evs : List Ev) (e : String) :
    ∃ cs : List Bytes, produce F c evs (.err e) = some (cs.map .chunk ++ [.fail e]) ∧
      (∀ ch ∈ cs, ch.length = c) ∧ cs.length = (evBytes evs).length / c ∧
      ∃ rest, cs.flatten ++ rest = evBytes evs ∧ rest.length < c := by
  obtain ⟨s, h1, h2, h3, _⟩ := sink_run_chunks F hF c hc evs
  have hlen : s.out.length * c + s.buf.length = (evBytes evs).length := by
    rw [← h3, Sink.bytes, List.length_append, flatten_length_full s.out h2.2]
  exact ⟨s.out, by simp [produce, h1, hE], h2.2, (full_count hlen h2.1).1, s.buf, h3, h2.1⟩

theorem produce_vanish (F : Facts) (hF : F.SinkOk) (c : Nat) (hc : 1 ≤ c) (evs : List Ev) :
    ∃ cs : List Bytes, produce F c evs .vanish = some (cs.map .chunk) ∧ (∀ ch ∈ cs, ch.length = c) := by
  obtain ⟨s, h1, h2, _, _⟩ := sink_run_chunks F hF c hc evs
  exact ⟨s.out, by simp [produce, h1], h2.2⟩

/-- The responses `n` successive `next` requests get on a freshly opened stream delivering `msgs`. -/
def responses (F : Facts) (sv : Server) (msgs : List Msg) (n : Nat) : List Resp :=
  (Server.nexts F n (sv.open msgs).1 (sv.open msgs).2).2

theorem responses_eq (F : Facts) (hF : F.NextOk) (sv : Server) (msgs : List Msg) (n : Nat) :
    responses F sv msgs n = expected n ((feedRun .fresh msgs).map (respOfPull F)) :=
  Server.nexts_spec F hF _ n _ msgs none (Server.get_open sv msgs)

/-! ### concurrent `next` requests -/

def iterSess (F : Facts) : Nat → Session → Session
  | 0, s => s
  | n + 1, s => iterSess F n (s.locked F).1

theorem iterSess_succ (F : Facts) : ∀ (n : Nat) (s : Session),
    iterSess F (n + 1) s = ((iterSess F n s).locked F).1
  | 0, _ => rfl
  | n + 1, s => by
    have := iterSess_succ F n (s.locked F).1
    simp only [iterSess] at this ⊢
    exact this

theorem lockedAll_succ (F : Facts) : ∀ (n : Nat) (s : Session),
    lockedAll F (n + 1) s = lockedAll F n s ++ [((iterSess F n s).locked F).2]
  | 0, _ => rfl
  | n + 1, s => by
    have := lockedAll_succ F n (s.locked F).1
    simp only [lockedAll, iterSess, List.cons_append] at this ⊢
    rw [this]

theorem lockedAll_length (F : Facts) : ∀ (n : Nat) (s : Session), (lockedAll F n s).length = n
  | 0, _ => rfl
  | n + 1, s => by simp [lockedAll, lockedAll_length F n]

def finishedMsg : String := "svs next: stream already finished"

/-- first `n` of `l`, then "already finished" for ever -/
def padRes : Nat → List PullRes → List PullRes
  | 0, _ => []
  | n + 1, [] => .error finishedMsg :: padRes n []
  | n + 1, x :: r => x :: padRes n r

theorem lockedAll_done (F : Facts) (hF : F.NextOk) : ∀ (n : Nat) (s : Session), s.done = true →
    lockedAll F n s = padRes n [] := by
  intro n
  induction n with
  | zero => intro s _; rfl
  | succ n ih =>
    intro s hd
    have h1 : s.locked F = (s, .error finishedMsg) := by
      simp [Session.locked, hF.checked, hd, finishedMsg]
    simp only [lockedAll, padRes, h1]
    rw [ih s hd]

/-- The session-lock region, iterated: the pull results of the delivered sequence, then errors. -/
theorem lockedAll_spec (F : Facts) (hF : F.NextOk) : ∀ (n : Nat) (rx : List Msg) (la : Option Bytes),
    lockedAll F n ⟨rx, la, false⟩ = padRes n (feedRun (stOf la) rx) := by
  intro n
  induction n with
  | zero => intro rx la; rfl
  | succ n ih =>
    intro rx la
    obtain ⟨hres, hdone⟩ := pull_results rx la false
    simp only [lockedAll, Session.locked, Bool.and_false, Bool.false_eq_true, if_false]
    rw [hres]
    cases hp : Session.pull ⟨rx, la, false⟩ with
    | mk s1 r =>
      rw [hp] at hdone
      simp only [] at hdone
      cases r with
      | error e =>
        simp only [padRes]
        rw [lockedAll_done F hF n _ (by simp [hF.onErr])]
      | ok v =>
        obtain ⟨c, last⟩ := v
        cases last with
        | true =>
          simp only [padRes]
          rw [lockedAll_done F hF n _ (by simp [hF.onLast])]
        | false =>
          simp only [padRes, Bool.or_false]
          have : ({ s1 with done := s1.done } : Session) = ⟨s1.rx, s1.lookahead, false⟩ := by
            cases s1; simp_all
          rw [this, ih]

/-- What a schedule cannot change: the log is the sequential iteration of the session-lock region. -/
def Conc.LogInv (F : Facts) (s0 : Session) (s : Conc) : Prop :=
  s.log = lockedAll F s.log.length s0 ∧ s.sess = iterSess F s.log.length s0

theorem Conc.step_logInv (F : Facts) (s0 : Session) (s : Conc) (a : Act) (h : s.LogInv F s0) :
    (s.step F a).LogInv F s0 := by
  obtain ⟨h1, h2⟩ := h
  cases a with
  | cancel => exact ⟨h1, h2⟩
  | call i =>
    simp only [Conc.step]
    cases hc : s.calls[i]? with
    | none => exact ⟨h1, h2⟩
    | some c =>
      cases c with
      | start => exact ⟨h1, h2⟩
      | holding =>
        simp only [Conc.LogInv, List.length_append, List.length_cons, List.length_nil]
        constructor
        · rw [lockedAll_succ, ← h1, ← h2]
        · rw [iterSess_succ, ← h2]
      | pulled k r =>
        cases r with
        | ok v => obtain ⟨c, last⟩ := v; exact ⟨h1, h2⟩
        | error e => exact ⟨h1, h2⟩
      | answered k resp => exact ⟨h1, h2⟩

theorem Conc.run_logInv (F : Facts) (s0 : Session) : ∀ (sched : List Act) (s : Conc),
    s.LogInv F s0 → (Conc.run F s sched).LogInv F s0 := by
  intro sched
  induction sched with
  | nil => intro s h; exact h
  | cons a r ih => intro s h; exact ih _ (Conc.step_logInv F s0 s a h)

/-- Every call that has been through the session lock holds the outcome logged at its own index, the
indices of different calls differ, and a framed response is the image of that outcome. -/
def Conc.CallInv (F : Facts) (s : Conc) : Prop :=
  (∀ (i k : Nat) (r : PullRes), s.calls[i]? = some (Call.pulled k r) → s.log[k]? = some r) ∧
  (∀ (i k : Nat) (resp : Resp), s.calls[i]? = some (Call.answered (some k) resp) →
    ∃ r, s.log[k]? = some r ∧ resp = respOfPull F r) ∧
  (∀ (i : Nat) (resp : Resp), s.calls[i]? = some (Call.answered none resp) → resp = Resp.error) ∧
  (∀ (i j k : Nat), (s.calls[i]?.bind Call.idx) = some k → (s.calls[j]?.bind Call.idx) = some k → i = j)

theorem getElem?_append_left_some {α} (l : List α) (x : α) (k : Nat) (r : α) (h : l[k]? = some r) :
    (l ++ [x])[k]? = some r := by
  have hk : k < l.length := by
    cases hlt : decide (k < l.length) with
    | true => exact of_decide_eq_true hlt
    | false =>
      have : l.length ≤ k := Nat.le_of_not_lt (of_decide_eq_false hlt)
      rw [List.getElem?_eq_none this] at h; cases h
  rw [List.getElem?_append_left hk]; exact h

theorem Conc.step_callInv (F : Facts) (s : Conc) (a : Act) (h : s.CallInv F)
    (hidx : ∀ (i k : Nat), (s.calls[i]?.bind Call.idx) = some k → k < s.log.length) :
    (s.step F a).CallInv F ∧
    (∀ (i k : Nat), ((s.step F a).calls[i]?.bind Call.idx) = some k → k < (s.step F a).log.length) := by
  obtain ⟨h1, h2, h3, h4⟩ := h
  cases a with
  | cancel => exact ⟨⟨h1, h2, h3, h4⟩, hidx⟩
  | call i =>
    simp only [Conc.step]
    cases hc : s.calls[i]? with
    | none => exact ⟨⟨h1, h2, h3, h4⟩, hidx⟩
    | some c =>
      have hi : i < s.calls.length := by
        cases hlt : decide (i < s.calls.length) with
        | true => exact of_decide_eq_true hlt
        | false =>
          have : s.calls.length ≤ i := Nat.le_of_not_lt (of_decide_eq_false hlt)
          rw [List.getElem?_eq_none this] at hc; cases hc
      -- generic facts about `set`
      have hset : ∀ (v : Call) (j : Nat), (s.calls.set i v)[j]? = if i = j then some v else s.calls[j]? := by
        intro v j
        rw [List.getElem?_set]
        by_cases hij : i = j
        · subst hij; simp [hi]
        · simp [hij]
      cases c with
      | start =>
        simp only []
        refine ⟨⟨?_, ?_, ?_, ?_⟩, ?_⟩
        · intro j k r hj
          rw [hset] at hj
          by_cases hij : i = j
          · rw [if_pos hij] at hj; split at hj <;> cases hj
          · rw [if_neg hij] at hj; exact h1 j k r hj
        · intro j k resp hj
          rw [hset] at hj
          by_cases hij : i = j
          · rw [if_pos hij] at hj; split at hj <;> cases hj
          · rw [if_neg hij] at hj; exact h2 j k resp hj
        · intro j resp hj
          rw [hset] at hj
          by_cases hij : i = j
          · rw [if_pos hij] at hj
            split at hj
            · cases hj
            · simp only [Option.some.injEq, Call.answered.injEq, true_and] at hj; exact hj.symm
          · rw [if_neg hij] at hj; exact h3 j resp hj
        · intro j1 j2 k e1 e2
          rw [hset] at e1 e2
          by_cases a1 : i = j1
          · rw [if_pos a1] at e1; split at e1 <;> simp [Call.idx] at e1
          · by_cases a2 : i = j2
            · rw [if_pos a2] at e2; split at e2 <;> simp [Call.idx] at e2
            · rw [if_neg a1] at e1; rw [if_neg a2] at e2; exact h4 j1 j2 k e1 e2
        · intro j k e
          rw [hset] at e
          by_cases a1 : i = j
          · rw [if_pos a1] at e; split at e <;> simp [Call.idx] at e
          · rw [if_neg a1] at e; exact hidx j k e
      | holding =>
        simp only []
        refine ⟨⟨?_, ?_, ?_, ?_⟩, ?_⟩
        · intro j k r hj
          rw [hset] at hj
          by_cases hij : i = j
          · rw [if_pos hij] at hj
            simp only [Option.some.injEq, Call.pulled.injEq] at hj
            obtain ⟨rfl, rfl⟩ := hj
            simp
          · rw [if_neg hij] at hj
            exact getElem?_append_left_some _ _ _ _ (h1 j k r hj)
        · intro j k resp hj
          rw [hset] at hj
          by_cases hij : i = j
          · rw [if_pos hij] at hj; cases hj
          · rw [if_neg hij] at hj
            obtain ⟨r, hr, he⟩ := h2 j k resp hj
            exact ⟨r, getElem?_append_left_some _ _ _ _ hr, he⟩
        · intro j resp hj
          rw [hset] at hj
          by_cases hij : i = j
          · rw [if_pos hij] at hj; cases hj
          · rw [if_neg hij] at hj; exact h3 j resp hj
        · intro j1 j2 k e1 e2
          rw [hset] at e1 e2
          by_cases a1 : i = j1
          · by_cases a2 : i = j2
            · rw [← a1, ← a2]
            · rw [if_pos a1] at e1; rw [if_neg a2] at e2
              simp only [Option.bind_some, Call.idx, Option.some.injEq] at e1
              have := hidx j2 k e2
              omega
          · by_cases a2 : i = j2
            · rw [if_pos a2] at e2; rw [if_neg a1] at e1
              simp only [Option.bind_some, Call.idx, Option.some.injEq] at e2
              have := hidx j1 k e1
              omega
            · rw [if_neg a1] at e1; rw [if_neg a2] at e2; exact h4 j1 j2 k e1 e2
        · intro j k e
          rw [hset] at e
          simp only [List.length_append, List.length_cons, List.length_nil]
          by_cases a1 : i = j
          · rw [if_pos a1] at e
            simp only [Option.bind_some, Call.idx, Option.some.injEq] at e
            omega
          · rw [if_neg a1] at e
            have := hidx j k e
            omega
      | pulled k0 r0 =>
        have hk0 := h1 i k0 r0 hc
        have hidx0 : (s.calls[i]?.bind Call.idx) = some k0 := by rw [hc]; rfl
        -- both arms set call `i` to `answered (some k0) (respOfPull F r0)` and leave the log alone
        have key : ∀ (pres : Bool),
            (Conc.CallInv F { s with present := pres, calls := s.calls.set i (.answered (some k0) (respOfPull F r0)) }) ∧
            (∀ (j k : Nat), (((s.calls.set i (.answered (some k0) (respOfPull F r0)))[j]?).bind Call.idx) = some k → k < s.log.length) := by
          intro pres
          refine ⟨⟨?_, ?_, ?_, ?_⟩, ?_⟩
          · intro j k r hj
            simp only [] at hj
            rw [hset] at hj
            by_cases hij : i = j
            · rw [if_pos hij] at hj; cases hj
            · rw [if_neg hij] at hj; exact h1 j k r hj
          · intro j k resp hj
            simp only [] at hj
            rw [hset] at hj
            by_cases hij : i = j
            · rw [if_pos hij] at hj
              simp only [Option.some.injEq, Call.answered.injEq] at hj
              obtain ⟨rfl, rfl⟩ := hj
              exact ⟨r0, hk0, rfl⟩
            · rw [if_neg hij] at hj; exact h2 j k resp hj
          · intro j resp hj
            simp only [] at hj
            rw [hset] at hj
            by_cases hij : i = j
            · rw [if_pos hij] at hj; cases hj
            · rw [if_neg hij] at hj; exact h3 j resp hj
          · intro j1 j2 k e1 e2
            simp only [] at e1 e2
            rw [hset] at e1 e2
            by_cases a1 : i = j1
            · by_cases a2 : i = j2
              · rw [← a1, ← a2]
              · rw [if_pos a1] at e1; rw [if_neg a2] at e2
                simp only [Option.bind_some, Call.idx, Option.some.injEq] at e1
                subst e1
                exact (a2 (h4 i j2 k0 hidx0 e2)).elim
            · by_cases a2 : i = j2
              · rw [if_pos a2] at e2; rw [if_neg a1] at e1
                simp only [Option.bind_some, Call.idx, Option.some.injEq] at e2
                subst e2
                exact (a1 (h4 i j1 k0 hidx0 e1)).elim
              · rw [if_neg a1] at e1; rw [if_neg a2] at e2; exact h4 j1 j2 k e1 e2
          · intro j k e
            rw [hset] at e
            by_cases a1 : i = j
            · rw [if_pos a1] at e
              simp only [Option.bind_some, Call.idx, Option.some.injEq] at e
              subst e
              exact hidx i k0 hidx0
            · rw [if_neg a1] at e; exact hidx j k e
        cases r0 with
        | ok v =>
          obtain ⟨c, last⟩ := v
          exact key _
        | error e => exact key _
      | answered k resp => exact ⟨⟨h1, h2, h3, h4⟩, hidx⟩

theorem Conc.run_callInv (F : Facts) : ∀ (sched : List Act) (s : Conc), s.CallInv F →
    (∀ (i k : Nat), (s.calls[i]?.bind Call.idx) = some k → k < s.log.length) →
    (Conc.run F s sched).CallInv F := by
  intro sched
  induction sched with
  | nil => intro s h _; exact h
  | cons a r ih =>
    intro s h hi
    obtain ⟨h', hi'⟩ := Conc.step_callInv F s a h hi
    exact ih _ h' hi'

def Conc.init (msgs : List Msg) (k : Nat) : Conc :=
  { present := true, sess := { rx := msgs }, calls := List.replicate k .start }

theorem Conc.init_start (msgs : List Msg) (k i : Nat) (c : Call)
    (h : (Conc.init msgs k).calls[i]? = some c) : c.idx = none := by
  simp only [Conc.init, List.getElem?_replicate] at h
  split at h
  · cases h; rfl
  · cases h

theorem Conc.init_callInv (F : Facts) (msgs : List Msg) (k : Nat) : (Conc.init msgs k).CallInv F ∧
    (∀ (i j : Nat), ((Conc.init msgs k).calls[i]?.bind Call.idx) = some j → j < (Conc.init msgs k).log.length) := by
  have key : ∀ (i j : Nat), ((Conc.init msgs k).calls[i]?.bind Call.idx) = some j → False := by
    intro i j h
    cases hc : (Conc.init msgs k).calls[i]? with
    | none => rw [hc] at h; cases h
    | some c => rw [hc] at h; simp only [Option.bind_some] at h; rw [Conc.init_start msgs k i c hc] at h; cases h
  refine ⟨⟨?_, ?_, ?_, ?_⟩, ?_⟩
  · intro i j r h; exact (key i j (by rw [h]; rfl)).elim
  · intro i j resp h; exact (key i j (by rw [h]; rfl)).elim
  · intro i resp h
    exfalso
    simp only [Conc.init, List.getElem?_replicate] at h
    split at h <;> cases h
  · intro i j x h; exact (key i x h).elim
  · intro i j h; exact (key i j h).elim

def okPair : PullRes → Option (Bytes × Bool)
  | .ok p => some p
  | .error _ => none

theorem padRes_okPairs : ∀ (n : Nat) (l : List (Bytes × Bool)),
    (padRes n (l.map .ok)).filterMap okPair = l.take n
  | 0, _ => rfl
  | n + 1, [] => by
    have := padRes_okPairs n []
    simp only [List.map_nil, List.take_nil] at this
    simp only [List.map_nil, padRes, List.filterMap_cons, okPair, this, List.take_nil]
  | n + 1, x :: r => by simp [padRes, okPair, padRes_okPairs n r]

/-! ### extracted arms of `Session::pull` -/

theorem recvA_spec (s : Session) : s.recvA specPull = s.recv := by
  cases s with
  | mk rx la dn => cases rx <;> rfl

theorem peekA_spec (s : Session) (c : Bytes) : s.peekA specPull c = s.peek c := by
  cases s with
  | mk rx la dn =>
    cases rx with
    | nil => rfl
    | cons m r => cases m <;> rfl

theorem pullA_spec (s : Session) : s.pullA specPull = s.pull := by
  cases s with
  | mk rx la dn =>
    cases la with
    | some c =>
      cases rx with
      | nil => rfl
      | cons m r => cases m <;> rfl
    | none =>
      cases rx with
      | nil => rfl
      | cons m r =>
        cases m with
        | chunk c =>
          cases r with
          | nil => rfl
          | cons m' r' => cases m' <;> rfl
        | «end» => rfl
        | fail e => rfl

theorem pullAllA_spec : ∀ (n : Nat) (s : Session), pullAllA specPull n s = pullAll n s
  | 0, _ => rfl
  | n + 1, s => by
    simp only [pullAllA, pullAll, pullA_spec]
    cases hp : s.pull with
    | mk s' r =>
      cases r with
      | error e => rfl
      | ok v =>
        obtain ⟨c, last⟩ := v
        cases last with
        | true => rfl
        | false => simp only []; rw [pullAllA_spec n s']

end Repe.Svs
