import RepeVerif.Model.Commit
/-! Helper lemmas for the `commit` model (C10): filesystem operations, the readers against the
specification-level `payloadN`, the `TrailerHold` invariant, and the shape of the op list every
puller produces. Core Lean only. -/
namespace Repe.Commit

/-! ### filesystem -/

@[simp] theorem runOps_nil (fs : FS) : runOps fs [] = fs := rfl
@[simp] theorem runOps_cons (fs : FS) (o : Op) (r : List Op) : runOps fs (o :: r) = runOps (o.apply fs) r := rfl

theorem runOps_append (fs : FS) (a b : List Op) : runOps fs (a ++ b) = runOps (runOps fs a) b := by
  simp [runOps, List.foldl_append]

theorem runOps_writes (fs : FS) (c : Bytes) (ws : List Bytes) (h : fs.tmp = some c) :
    runOps fs (ws.map .write) = { fs with tmp := some (c ++ ws.flatten) } := by
  induction ws generalizing fs c with
  | nil => cases fs; simp_all
  | cons w ws ih =>
    simp only [List.map_cons, runOps_cons]
    rw [ih (Op.apply fs (.write w)) (c ++ w) (by simp [Op.apply, h])]
    simp [Op.apply, List.append_assoc]

theorem runOps_create_writes (fs : FS) (ws : List Bytes) :
    runOps fs (.create :: ws.map .write) = { dest := fs.dest, tmp := some ws.flatten } := by
  rw [runOps_cons, runOps_writes _ [] ws (by simp [Op.apply])]
  simp [Op.apply]

/-- Only `rename` ever changes the destination. -/
theorem dest_of_noRename (fs : FS) (ops : List Op) (h : Op.rename ∉ ops) : (runOps fs ops).dest = fs.dest := by
  induction ops generalizing fs with
  | nil => rfl
  | cons o r ih =>
    rw [runOps_cons, ih _ (fun hm => h (List.mem_cons_of_mem _ hm))]
    cases o <;> simp_all [Op.apply]

theorem tmp_of_last_remove (fs : FS) (ops : List Op) (h : ops.getLast? = some .remove) : (runOps fs ops).tmp = none := by
  obtain ⟨pre, rfl⟩ := List.getLast?_eq_some_iff.1 h
  simp [runOps_append, Op.apply]

/-- The op list of a successful pull: create, the writes, flush, fsync, close, rename. -/
def successOps (ws : List Bytes) : List Op := .create :: ws.map .write ++ [.flush, .sync, .close, .rename]

theorem successOps_length (ws : List Bytes) : (successOps ws).length = ws.length + 5 := by
  simp [successOps]

theorem run_successOps (fs : FS) (ws : List Bytes) :
    runOps fs (successOps ws) = { dest := some ws.flatten, tmp := none } := by
  unfold successOps
  rw [runOps_append, runOps_create_writes]
  simp [Op.apply]

theorem noRename_successOps_take (ws : List Bytes) (k : Nat) (hk : k < (successOps ws).length) :
    Op.rename ∉ (successOps ws).take k := by
  have e : successOps ws = (.create :: ws.map .write ++ [.flush, .sync, .close]) ++ [.rename] := by
    simp [successOps]
  rw [e, List.take_append_of_le_length (by rw [successOps_length] at hk; simp; omega)]
  intro hm
  have := List.mem_of_mem_take hm
  simp at this

/-! ### readers vs the specification -/

theorem nonEmpty_flatten (b : Bytes) : (nonEmpty b).flatten = b := by
  unfold nonEmpty
  cases b <;> simp

theorem asyncPull_eq (w : Wire) : asyncPull w = syncPullN none w := by
  induction w with
  | nil => rfl
  | cons r w ih =>
    cases r with
    | chunk b l => cases l <;> simp [asyncPull, syncPullN, ih]
    | error => rfl
    | cut => rfl

/-- The reader reaches EOF with `last_seen` exactly when the script carries a whole stream, and then
it has handed on exactly the stream's bytes. -/
theorem syncPullN_payload (lim : Option Nat) (w : Wire) :
    match payloadN lim w with
    | some wb => syncPullN lim w = ⟨(syncPullN lim w).bodies, true, true⟩ ∧ (syncPullN lim w).bodies.flatten = wb
    | none => ((syncPullN lim w).ok && (syncPullN lim w).lastSeen) = false := by
  fun_induction payloadN lim w with
  | case1 => simp [syncPullN]
  | case2 lim h => cases lim with
    | none => simp [syncPullN]
    | some n => cases n <;> simp_all [syncPullN]
  | case3 lim r h => cases lim with
    | none => simp [syncPullN]
    | some n => cases n <;> simp_all [syncPullN]
  | case4 lim r h => cases lim with
    | none => simp [syncPullN]
    | some n => cases n <;> simp_all [syncPullN]
  | case5 lim b r h => cases lim with
    | none => simp [syncPullN, nonEmpty_flatten]
    | some n => cases n <;> simp_all [syncPullN, nonEmpty_flatten]
  | case6 lim b r h ih =>
    have e : syncPullN lim (.chunk b false :: r) =
        ⟨nonEmpty b ++ (syncPullN (lim.map (· - 1)) r).bodies, (syncPullN (lim.map (· - 1)) r).ok,
          (syncPullN (lim.map (· - 1)) r).lastSeen⟩ := by
      cases lim with
      | none => simp [syncPullN]
      | some n => cases n <;> simp_all [syncPullN]
    rw [e]
    cases hp : payloadN (lim.map (· - 1)) r with
    | none => simp_all
    | some wb =>
      simp only [hp] at ih
      obtain ⟨h1, h2⟩ := ih
      have hok : (syncPullN (lim.map (· - 1)) r).ok = true := by rw [h1]
      have hls : (syncPullN (lim.map (· - 1)) r).lastSeen = true := by rw [h1]
      simp [hok, hls, h2, nonEmpty_flatten]

/-- A `ChunkReader` that is read to EOF (no early stop) has seen `last`. -/
theorem syncPull_ok_lastSeen (w : Wire) (h : (syncPullN none w).ok = true) : (syncPullN none w).lastSeen = true := by
  induction w with
  | nil => simp [syncPullN] at h
  | cons r w ih =>
    cases r with
    | chunk b l =>
      cases l
      · simp only [syncPullN, Option.map_none] at h ⊢; exact ih h
      · simp [syncPullN]
    | error => simp [syncPullN] at h
    | cut => simp [syncPullN] at h

/-! ### `TrailerHold` -/

theorem Hold.write_inv (n : Nat) (h : Hold) (buf total : Bytes)
    (h1 : h.out.flatten ++ h.hold = total) (h2 : h.hold.length = min n total.length) :
    (h.write n buf).out.flatten ++ (h.write n buf).hold = total ++ buf ∧
    (h.write n buf).hold.length = min n (total ++ buf).length := by
  have htl : total.length = h.out.flatten.length + h.hold.length := by rw [← h1]; simp
  unfold Hold.write
  by_cases hb : buf.length ≥ n
  · simp only [hb, if_true]
    have hout : (if h.hold.isEmpty then h.out else h.out ++ [h.hold]).flatten = h.out.flatten ++ h.hold := by
      by_cases he : h.hold.isEmpty
      · have : h.hold = [] := by simpa using he
        simp [this]
      · simp [he]
    constructor
    · rw [List.flatten_append, hout]
      simp only [List.flatten_cons, List.flatten_nil, List.append_nil, List.append_assoc, List.take_append_drop]
      rw [← List.append_assoc, h1]
    · simp only [List.length_drop, List.length_append]
      omega
  · simp only [hb, if_false]
    by_cases ho : (h.hold ++ buf).length > n
    · simp only [ho, if_true]
      constructor
      · simp only [List.flatten_append, List.flatten_cons, List.flatten_nil, List.append_nil, List.append_assoc,
          List.take_append_drop]
        rw [← List.append_assoc, h1]
      · simp only [List.length_drop, List.length_append] at ho ⊢
        omega
    · simp only [ho, if_false]
      constructor
      · rw [← List.append_assoc, h1]
      · simp only [List.length_append] at ho ⊢
        omega

theorem Hold.foldl_inv (n : Nat) (ws : List Bytes) (h : Hold) (total : Bytes)
    (h1 : h.out.flatten ++ h.hold = total) (h2 : h.hold.length = min n total.length) :
    (ws.foldl (Hold.write n) h).out.flatten ++ (ws.foldl (Hold.write n) h).hold = total ++ ws.flatten ∧
    (ws.foldl (Hold.write n) h).hold.length = min n (total ++ ws.flatten).length := by
  induction ws generalizing h total with
  | nil => simpa using ⟨h1, h2⟩
  | cons w ws ih =>
    obtain ⟨a, b⟩ := Hold.write_inv n h w total h1 h2
    have := ih (h.write n w) (total ++ w) a b
    simpa [List.append_assoc] using this

theorem split_of_append_length {a b t : Bytes} (h : a ++ b = t) :
    a = t.take (t.length - b.length) ∧ b = t.drop (t.length - b.length) := by
  subst h
  have : (a ++ b).length - b.length = a.length := by simp
  rw [this]
  simp

/-- Whatever the sequence of writes: forwarded = all but the last `n` bytes, held = the last `n`. -/
theorem Hold.run_spec (n : Nat) (ws : List Bytes) :
    (Hold.run n ws).out.flatten = ws.flatten.take (ws.flatten.length - n) ∧
    (Hold.run n ws).hold = ws.flatten.drop (ws.flatten.length - n) ∧
    (Hold.run n ws).hold.length = min n ws.flatten.length := by
  obtain ⟨a, b⟩ := Hold.foldl_inv n ws Hold.init [] (by simp [Hold.init]) (by simp [Hold.init])
  simp only [List.nil_append] at a b
  obtain ⟨c, d⟩ := split_of_append_length a
  unfold Hold.run
  rw [b] at c d
  have e : ws.flatten.length - min n ws.flatten.length = ws.flatten.length - n := by omega
  rw [e] at c d
  exact ⟨c, d, b⟩

theorem Hold.intoTrailer_isSome (n : Nat) (ws : List Bytes) :
    (Hold.intoTrailer n (Hold.run n ws)).isSome = decide (n ≤ ws.flatten.length) := by
  unfold Hold.intoTrailer
  rw [(Hold.run_spec n ws).2.2]
  by_cases h : n ≤ ws.flatten.length
  · have : ¬ (min n ws.flatten.length < n) := by omega
    rw [if_neg this, decide_eq_true h]; rfl
  · have : min n ws.flatten.length < n := by omega
    rw [if_pos this, decide_eq_false h]; rfl

/-! ### the op list of every puller -/

/-- The statement order the property theorems are proved for (compared with the re-extracted
`Gen.Commit.steps` by `decide` in `Props/C10.lean`). -/
def canonical : StepFacts :=
  { writeFile := [.create, .copy, .checkLast, .flush, .sync, .commit],
    trailerSync := [.create, .copy, .intoTrailer, .flush, .sync, .verify, .commit],
    fileAsync := [.create, .copy, .flush, .sync, .pullRes, .commit],
    verifiedAsync := [.create, .copy, .flush, .sync, .pullRes, .verify, .commit],
    trailerAsync := [.create, .copy, .intoTrailer, .flush, .sync, .pullRes, .verify, .commit] }

/-- Every gate of the puller's step list is passed. -/
def good (env : Env) (p : Puller) : Bool :=
  env.copyOk && env.renameOk && env.syncOk &&
  (match p with
    | .file | .beveZst | .beve => env.lastSeen
    | .trailer => env.trailerOk && env.verifyOk
    | .fileAsync => env.pullOk
    | .verifiedAsync => env.pullOk && env.verifyOk
    | .trailerAsync => env.trailerOk && env.pullOk && env.verifyOk)

theorem interp_good (env : Env) (p : Puller) (h : good env p = true) :
    interp env false (canonical.of p) = ⟨successOps env.writes, .ok⟩ := by
  cases p <;> simp [good] at h <;>
    simp [canonical, StepFacts.of, interp, Run.pre, cleanup, successOps, h]

/-- A failed in-process pull: the list starts by creating the temp file, ends by removing it, and
never renames. -/
theorem interp_bad (env : Env) (p : Puller) (h : good env p = false) :
    (interp env false (canonical.of p)).ret = .err ∧
    (interp env false (canonical.of p)).ops.getLast? = some .remove ∧
    Op.rename ∉ (interp env false (canonical.of p)).ops ∧
    (interp env false (canonical.of p)).ops.head? = some .create ∧
    Op.create ∉ (interp env false (canonical.of p)).ops.tail := by
  cases p <;>
    cases h1 : env.copyOk <;> cases h2 : env.renameOk <;> cases h3 : env.lastSeen <;>
    cases h4 : env.trailerOk <;> cases h5 : env.verifyOk <;> cases h6 : env.pullOk <;> cases h7 : env.syncOk <;>
    simp [good, h1, h2, h3, h4, h5, h6, h7] at h <;>
    simp [canonical, StepFacts.of, interp, Run.pre, cleanup, h1, h2, h3, h4, h5, h6, h7, List.getLast?_append, List.getLast?_cons]

/-! ### the environment of a script vs the specification `expected` -/

theorem pulled_eq (p : Puller) (s : Script) :
    pulled p s = syncPullN (if p.usesWriteFile then s.stop else none) s.wire := by
  cases p <;> simp [pulled, Puller.isAsync, Puller.usesWriteFile, asyncPull_eq]

theorem decodeStream_srcOk (d : Bool) (comp : Comp) (codec : Codec) (bodies : List Bytes) :
    decodeStream d comp codec bodies true =
      if d && comp == .zstd then
        (match codec.dec bodies.flatten with
          | some c => ⟨[c], true⟩
          | none => ⟨[codec.part bodies.flatten], false⟩)
      else ⟨bodies, true⟩ := by
  cases h : codec.dec bodies.flatten <;> cases d <;> cases comp <;> simp [decodeStream, h]

theorem decodeStream_srcErr (d : Bool) (comp : Comp) (codec : Codec) (bodies : List Bytes) :
    (decodeStream d comp codec bodies false).ok = false := by
  cases d <;> cases comp <;> simp [decodeStream]

/-- The stream-dependent part of `expected`. -/
def streamContent (p : Puller) (s : Script) (codec : Codec) : Option Bytes :=
  match payloadN (if p.usesWriteFile then s.stop else none) s.wire with
  | none => none
  | some wb =>
    match (if p.decodes && s.comp == .zstd then codec.dec wb else some wb) with
    | none => none
    | some lg =>
      if p.hasTrailer then
        if s.trailer ≤ lg.length then some (lg.take (lg.length - s.trailer)) else none
      else some lg

theorem expected_eq (p : Puller) (s : Script) (codec : Codec) :
    expected p s codec =
      if s.openOk && preOk p s && (!p.verifies || s.verifyOk) && s.renameOk && s.syncOk then
        (streamContent p s codec).bind (fit s.writeFault) else none := by
  unfold expected streamContent
  split
  · cases payloadN (if p.usesWriteFile then s.stop else none) s.wire with
    | none => rfl
    | some wb =>
      simp only []
      cases (if (p.decodes && s.comp == Comp.zstd) = true then codec.dec wb else some wb) with
      | none => rfl
      | some lg =>
        simp only []
        split
        · split <;> rfl
        · rfl
  · rfl

theorem limitWrites_fits (k : Nat) (ws : List Bytes) (h : ws.flatten.length ≤ k) :
    limitWrites (some k) ws = (ws, true) := by
  induction ws generalizing k with
  | nil => rfl
  | cons w r ih =>
    have hl : (w :: r).flatten.length = w.length + r.flatten.length := by
      rw [List.flatten_cons, List.length_append]
    rw [hl] at h
    unfold limitWrites
    rw [if_pos (by omega), ih (k - w.length) (by omega)]

theorem limitWrites_over (k : Nat) (ws : List Bytes) (h : k < ws.flatten.length) :
    (limitWrites (some k) ws).2 = false := by
  induction ws generalizing k with
  | nil => simp at h
  | cons w r ih =>
    have hl : (w :: r).flatten.length = w.length + r.flatten.length := by
      rw [List.flatten_cons, List.length_append]
    rw [hl] at h
    unfold limitWrites
    by_cases hw : w.length ≤ k
    · rw [if_pos hw]; exact ih (k - w.length) (by omega)
    · rw [if_neg hw]

theorem limitWrites_spec (lim : Option Nat) (ws : List Bytes) :
    match fit lim ws.flatten with
    | some _ => limitWrites lim ws = (ws, true)
    | none => (limitWrites lim ws).2 = false := by
  cases lim with
  | none => simp [fit, limitWrites]
  | some k =>
    by_cases h : ws.flatten.length ≤ k
    · have : fit (some k) ws.flatten = some ws.flatten := if_pos h
      rw [this]; exact limitWrites_fits k ws h
    · have : fit (some k) ws.flatten = none := if_neg h
      rw [this]; exact limitWrites_over k ws (by omega)

/-- The gates that depend on the stream: copy, last-seen / pull result, trailer length. -/
def streamGood (env : Env) (p : Puller) : Bool :=
  env.copyOk &&
  (match p with
    | .file | .beveZst | .beve => env.lastSeen
    | .trailer => env.trailerOk
    | .fileAsync | .verifiedAsync => env.pullOk
    | .trailerAsync => env.trailerOk && env.pullOk)

theorem good_eq (env : Env) (p : Puller) :
    good env p = (streamGood env p && (!p.verifies || env.verifyOk) && env.renameOk && env.syncOk) := by
  cases p <;> simp [good, streamGood, Puller.verifies] <;>
    cases env.copyOk <;> cases env.renameOk <;> cases env.lastSeen <;> cases env.trailerOk <;>
    cases env.verifyOk <;> cases env.pullOk <;> cases env.syncOk <;> rfl

theorem streamGood_envOf (p : Puller) (s : Script) (codec : Codec) :
    streamGood (envOf p s codec) p =
      (streamGood (envOf0 p s codec) p && (limitWrites s.writeFault (envOf0 p s codec).writes).2) := by
  cases p <;> simp [streamGood, envOf] <;>
    cases (envOf0 _ s codec).copyOk <;> cases (limitWrites s.writeFault (envOf0 _ s codec).writes).2 <;> simp

theorem env_stream (p : Puller) (s : Script) (codec : Codec) :
    match streamContent p s codec with
    | some c => streamGood (envOf0 p s codec) p = true ∧ (envOf0 p s codec).writes.flatten = c
    | none => streamGood (envOf0 p s codec) p = false := by
  have hp := pulled_eq p s
  have hs := syncPullN_payload (if p.usesWriteFile then s.stop else none) s.wire
  unfold streamContent
  cases hpay : payloadN (if p.usesWriteFile then s.stop else none) s.wire with
  | none =>
    simp only [hpay] at hs ⊢
    rw [← hp] at hs
    -- either the reader failed, or it stopped without `last`
    cases hok : (pulled p s).ok with
    | false =>
      have hd : (decoded p s codec).ok = false ∨ p.isAsync = true := by
        cases ha : p.isAsync with
        | true => exact Or.inr rfl
        | false => left; simp [decoded, ha, hok, decodeStream_srcErr]
      cases p <;> simp_all [streamGood, envOf0, Puller.isAsync]
    | true =>
      have hls : (pulled p s).lastSeen = false := by simpa [hok] using hs
      cases hw : p.usesWriteFile with
      | true => cases p <;> simp_all [streamGood, envOf0, Puller.usesWriteFile]
      | false =>
        have := syncPull_ok_lastSeen s.wire (by rw [hp, hw] at hok; simpa using hok)
        rw [hp, hw] at hls
        simp_all
  | some wb =>
    simp only [hpay] at hs ⊢
    rw [← hp] at hs
    obtain ⟨h1, h2⟩ := hs
    have hok : (pulled p s).ok = true := by rw [h1]
    have hls : (pulled p s).lastSeen = true := by rw [h1]
    clear h1
    have hd : decoded p s codec =
        if p.decodes && s.comp == .zstd then
          (match codec.dec wb with
            | some c => ⟨[c], true⟩
            | none => ⟨[codec.part wb], false⟩)
        else ⟨(pulled p s).bodies, true⟩ := by
      simp only [decoded, hok, Bool.or_true, decodeStream_srcOk, h2]
    cases hz : (p.decodes && s.comp == .zstd) with
    | false =>
      simp only [hz, Bool.false_eq_true, if_false] at hd ⊢
      cases ht : p.hasTrailer with
      | false =>
        cases p <;> simp_all [streamGood, envOf0, Puller.hasTrailer]
      | true =>
        have hsp := Hold.run_spec s.trailer (pulled p s).bodies
        have hit := Hold.intoTrailer_isSome s.trailer (pulled p s).bodies
        rw [h2] at hsp hit
        by_cases hle : s.trailer ≤ wb.length
        · simp only [if_true, if_pos hle]
          cases p <;> simp_all [streamGood, envOf0, Puller.hasTrailer]
        · simp only [if_true, if_neg hle]
          cases p <;> simp_all [streamGood, envOf0, Puller.hasTrailer]
    | true =>
      simp only [hz, if_true] at hd ⊢
      cases hdec : codec.dec wb with
      | none =>
        simp only [hdec] at hd ⊢
        cases p <;> simp_all [streamGood, envOf0]
      | some lg =>
        simp only [hdec] at hd ⊢
        cases ht : p.hasTrailer with
        | false =>
          cases p <;> simp_all [streamGood, envOf0, Puller.hasTrailer]
        | true =>
          have hsp := Hold.run_spec s.trailer [lg]
          have hit := Hold.intoTrailer_isSome s.trailer [lg]
          simp only [List.flatten_cons, List.flatten_nil, List.append_nil] at hsp hit
          by_cases hle : s.trailer ≤ lg.length
          · simp only [if_true, if_pos hle]
            cases p <;> simp_all [streamGood, envOf0, Puller.hasTrailer]
          · simp only [if_true, if_neg hle]
            have hlt : lg.length < s.trailer := by omega
            cases p <;> simp_all [streamGood, envOf0, Puller.hasTrailer]

/-- A non-failing script: the run is exactly create, the writes, flush, fsync, close, rename, and the
writes concatenate to the expected content. -/
theorem run_of_expected_some (p : Puller) (s : Script) (codec : Codec) (c : Bytes)
    (h : expected p s codec = some c) :
    run canonical p s codec = ⟨successOps (envOf p s codec).writes, .ok⟩ ∧
    (envOf p s codec).writes.flatten = c := by
  rw [expected_eq] at h
  split at h
  · rename_i hg
    have hst := env_stream p s codec
    cases hsc : streamContent p s codec with
    | none => rw [hsc] at h; cases h
    | some c0 =>
      rw [hsc] at h hst
      simp only [Option.bind_some] at h
      have hl := limitWrites_spec s.writeFault (envOf0 p s codec).writes
      rw [hst.2, h] at hl
      simp only at hl
      have hc : c0 = c := by
        unfold fit at h
        cases hwf : s.writeFault with
        | none => rw [hwf] at h; simpa using h
        | some k => rw [hwf] at h; simp only at h; split at h <;> simp_all
      subst hc
      simp only [Bool.and_eq_true] at hg
      obtain ⟨⟨⟨⟨ho, ht⟩, hv⟩, hr⟩, hs⟩ := hg
      have hw : (envOf p s codec).writes = (envOf0 p s codec).writes := by simp [envOf, hl]
      refine ⟨?_, by rw [hw]; exact hst.2⟩
      unfold run
      rw [if_pos (by simp [ho, ht])]
      apply interp_good
      rw [good_eq, streamGood_envOf, hst.1, hl]
      have e1 : (envOf p s codec).verifyOk = s.verifyOk := by simp [envOf, envOf0]
      have e2 : (envOf p s codec).renameOk = s.renameOk := by simp [envOf, envOf0]
      have e3 : (envOf p s codec).syncOk = s.syncOk := by simp [envOf, envOf0]
      rw [e1, e2, e3, hr, hs]
      simpa using hv
  · cases h

/-- A failing script: `Err`, no rename anywhere, and the op list is empty (nothing was created) or
ends by removing the temp file. -/
theorem run_of_expected_none (p : Puller) (s : Script) (codec : Codec)
    (h : expected p s codec = none) :
    (run canonical p s codec).ret = .err ∧
    ((run canonical p s codec).ops = [] ∨
      ((run canonical p s codec).ops.getLast? = some .remove ∧ (run canonical p s codec).ops.head? = some .create ∧
        Op.create ∉ (run canonical p s codec).ops.tail)) ∧
    Op.rename ∉ (run canonical p s codec).ops := by
  unfold run
  by_cases hg : (s.openOk && preOk p s) = true
  · rw [if_pos hg]
    have hb : good (envOf p s codec) p = false := by
      rw [good_eq, streamGood_envOf]
      rw [expected_eq] at h
      have hst := env_stream p s codec
      have e1 : (envOf p s codec).verifyOk = s.verifyOk := by simp [envOf, envOf0]
      have e2 : (envOf p s codec).renameOk = s.renameOk := by simp [envOf, envOf0]
      have e3 : (envOf p s codec).syncOk = s.syncOk := by simp [envOf, envOf0]
      rw [e1, e2, e3]
      cases hsc : streamContent p s codec with
      | none => rw [hsc] at hst; simp [hst]
      | some c =>
        rw [hsc] at h hst
        simp only [Option.bind_some] at h
        cases hx : (s.openOk && preOk p s && (!p.verifies || s.verifyOk) && s.renameOk && s.syncOk) with
        | false =>
          rw [hg] at hx
          cases hv : (!p.verifies || s.verifyOk) <;> cases hr : s.renameOk <;> cases hs : s.syncOk <;> simp_all
        | true =>
          rw [hx] at h
          simp only [if_true] at h
          have hl := limitWrites_spec s.writeFault (envOf0 p s codec).writes
          rw [hst.2, h] at hl
          simp only at hl
          simp [hl]
    obtain ⟨a, b, c, d, e⟩ := interp_bad (envOf p s codec) p hb
    exact ⟨a, Or.inr ⟨b, d, e⟩, c⟩
  · rw [if_neg hg]
    simp

/-! ### every model run is a word of the commit protocol -/

theorem protoCheck_noRename (ops : List Op) (st : TState) (i pend : Nat)
    (ho : st.opened = true) (hr : st.renamed = false) (hn : Op.rename ∉ ops) (hc : Op.create ∉ ops) :
    protoCheck st i (sysOf ops pend) = none := by
  induction ops generalizing st i pend with
  | nil =>
    unfold sysOf
    split <;> simp [protoCheck, ho, hr]
  | cons o r ih =>
    have hn' : Op.rename ∉ r := fun h => hn (List.mem_cons_of_mem _ h)
    have hc' : Op.create ∉ r := fun h => hc (List.mem_cons_of_mem _ h)
    cases o with
    | create => exact absurd (List.mem_cons_self) hc
    | rename => exact absurd (List.mem_cons_self) hn
    | write bs => simpa [sysOf] using ih st i _ ho hr hn' hc'
    | flush => simpa [sysOf] using ih st i _ ho hr hn' hc'
    | sync =>
      by_cases hp : pend > 0 <;> simp [sysOf, hp, protoCheck, ho, hr] <;>
        first | exact ih _ _ _ rfl rfl hn' hc' | exact ih _ _ _ ho hr hn' hc'
    | close =>
      by_cases hp : pend > 0 <;> simp [sysOf, hp, protoCheck, ho, hr] <;>
        first | exact ih _ _ _ rfl rfl hn' hc' | exact ih _ _ _ ho hr hn' hc'
    | renameFail =>
      by_cases hp : pend > 0 <;> simp [sysOf, hp, protoCheck, ho, hr] <;>
        first | exact ih _ _ _ rfl rfl hn' hc' | exact ih _ _ _ ho hr hn' hc'
    | remove =>
      by_cases hp : pend > 0 <;> simp [sysOf, hp, protoCheck, ho, hr] <;>
        first | exact ih _ _ _ rfl rfl hn' hc' | exact ih _ _ _ ho hr hn' hc'

theorem sysOf_writes (ws : List Bytes) (tail : List Op) (pend : Nat) :
    sysOf (ws.map .write ++ tail) pend = sysOf tail (pend + ws.flatten.length) := by
  induction ws generalizing pend with
  | nil => simp
  | cons w ws ih => simp [sysOf, ih, Nat.add_assoc]

theorem protoOk_successOps (ws : List Bytes) : protoOk (sysOf (successOps ws) 0) = true := by
  unfold successOps protoOk
  rw [List.cons_append]
  simp only [sysOf, Nat.lt_irrefl, if_false, List.nil_append, List.append_nil, sysOf_writes, Nat.zero_add]
  generalize ws.flatten.length = n
  by_cases hp : n > 0 <;> simp [hp, protoCheck]

/-! ### paths -/

theorem tempSibling_ne (suffix : List Char) (hs : suffix ≠ []) (d : FPath) : tempSibling suffix d ≠ d := by
  intro h
  have : d.name ++ suffix = d.name ++ [] := by simpa [tempSibling] using congrArg FPath.name h
  exact hs (List.append_cancel_left this)

theorem tempSibling_inj (suffix : List Char) (a b : FPath) (h : tempSibling suffix a = tempSibling suffix b) : a = b := by
  cases a; cases b
  simp only [tempSibling, FPath.mk.injEq] at h ⊢
  exact ⟨h.1, List.append_cancel_right h.2⟩

theorem World.set_same (w : World) (p : FPath) (v : Option Bytes) : (w.set p v) p = v := by simp [World.set]
theorem World.set_other (w : World) (p q : FPath) (v : Option Bytes) (h : q ≠ p) : (w.set p v) q = w q := by
  simp [World.set, h]

/-- One operation: the two-path view evolves by `Op.apply`, every other path is untouched. -/
theorem applyAt_view (suffix : List Char) (hs : suffix ≠ []) (d : FPath) (w : World) (o : Op) :
    (Op.applyAt suffix d w o).view suffix d = Op.apply (w.view suffix d) o ∧
    ∀ q, q ≠ d → q ≠ tempSibling suffix d → Op.applyAt suffix d w o q = w q := by
  have hne := tempSibling_ne suffix hs d
  cases o with
  | create => exact ⟨by simp [Op.applyAt, Op.apply, World.view, World.set, hne.symm], fun q _ h2 => World.set_other _ _ _ _ h2⟩
  | write bs => exact ⟨by simp [Op.applyAt, Op.apply, World.view, World.set, hne.symm], fun q _ h2 => World.set_other _ _ _ _ h2⟩
  | remove => exact ⟨by simp [Op.applyAt, Op.apply, World.view, World.set, hne.symm], fun q _ h2 => World.set_other _ _ _ _ h2⟩
  | rename =>
    cases ht : w (tempSibling suffix d) with
    | none => simp [Op.applyAt, Op.apply, World.view, ht]
    | some c =>
      refine ⟨by simp [Op.applyAt, Op.apply, World.view, World.set, ht, hne.symm], fun q h1 h2 => ?_⟩
      simp only [Op.applyAt, ht]
      rw [World.set_other _ _ _ _ h2, World.set_other _ _ _ _ h1]
  | flush => exact ⟨rfl, fun _ _ _ => rfl⟩
  | sync => exact ⟨rfl, fun _ _ _ => rfl⟩
  | close => exact ⟨rfl, fun _ _ _ => rfl⟩
  | renameFail => exact ⟨rfl, fun _ _ _ => rfl⟩

theorem runOpsAt_view (suffix : List Char) (hs : suffix ≠ []) (d : FPath) (ops : List Op) (w : World) :
    (runOpsAt suffix d w ops).view suffix d = runOps (w.view suffix d) ops ∧
    ∀ q, q ≠ d → q ≠ tempSibling suffix d → runOpsAt suffix d w ops q = w q := by
  induction ops generalizing w with
  | nil => exact ⟨rfl, fun _ _ _ => rfl⟩
  | cons o r ih =>
    obtain ⟨a, b⟩ := applyAt_view suffix hs d w o
    obtain ⟨c, e⟩ := ih (Op.applyAt suffix d w o)
    refine ⟨?_, fun q h1 h2 => ?_⟩
    · show (runOpsAt suffix d (Op.applyAt suffix d w o) r).view suffix d = _
      rw [c, a]; rfl
    · show runOpsAt suffix d (Op.applyAt suffix d w o) r q = _
      rw [e q h1 h2, b q h1 h2]

/-! ### value decoding -/

theorem feed_some {V} (d : Decoder V) (acc : Bytes) (bodies : List Bytes) (v : V) (acc' : Bytes)
    (h : feed d acc bodies = (some v, acc')) :
    ∃ j, j ≤ bodies.length ∧ d.early (acc ++ (bodies.take j).flatten) = some v := by
  induction bodies generalizing acc with
  | nil => simp [feed] at h
  | cons b r ih =>
    unfold feed at h
    cases he : d.early (acc ++ b) with
    | some v' =>
      simp only [he, Prod.mk.injEq, Option.some.injEq] at h
      exact ⟨1, by simp, by simp [he, h.1]⟩
    | none =>
      simp only [he] at h
      obtain ⟨j, hj, hv⟩ := ih (acc ++ b) h
      exact ⟨j + 1, by simp; omega, by simpa [List.append_assoc] using hv⟩

theorem feed_none {V} (d : Decoder V) (acc : Bytes) (bodies : List Bytes) (acc' : Bytes)
    (h : feed d acc bodies = (none, acc')) : acc' = acc ++ bodies.flatten := by
  induction bodies generalizing acc with
  | nil => simp [feed] at h; simp [h]
  | cons b r ih =>
    unfold feed at h
    cases he : d.early (acc ++ b) with
    | some v' => simp [he] at h
    | none =>
      simp only [he] at h
      simpa [List.append_assoc] using ih (acc ++ b) h

end Repe.Commit
