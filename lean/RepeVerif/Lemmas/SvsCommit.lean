import RepeVerif.Lemmas.Svs
import RepeVerif.Lemmas.Commit
/-! Refinement between C09's stream model and the abstract wire scripts of C10's commit model. -/
namespace Repe.Svs

/-- A response of C09's `NextHandler` model as an answer of C10's wire script (`k` = the constant the
client compares the query byte with). -/
def toWireResp (k : Nat) : Resp → Commit.Resp
  | .chunk b q => .chunk b (isLast k q)
  | .error => .error

def toWire (k : Nat) (rs : List Resp) : Commit.Wire := rs.map (toWireResp k)

theorem payload_toWire (k : Nat) : ∀ (rs : List Resp),
    Commit.payload (toWire k rs) = if (tailBytes k rs).2 then some (tailBytes k rs).1 else none
  | [] => by simp [toWire, Commit.payload, Commit.payloadN, tailBytes]
  | .error :: r => by simp [toWire, toWireResp, Commit.payload, Commit.payloadN, tailBytes]
  | .chunk b q :: r => by
    have ih := payload_toWire k r
    simp only [toWire, Commit.payload] at ih
    simp only [toWire, List.map_cons, toWireResp, Commit.payload, tailBytes]
    by_cases hl : isLast k q = true
    · simp [hl, Commit.payloadN]
    · have hl' : isLast k q = false := by simpa using hl
      simp only [hl', Commit.payloadN, Option.map_none, Bool.false_eq_true, if_false]
      rw [ih]
      cases (tailBytes k r).2 <;> simp

theorem flatten_nonEmpty_append (b : Bytes) (l : List Bytes) :
    (Commit.nonEmpty b ++ l).flatten = b ++ l.flatten := by
  unfold Commit.nonEmpty
  cases b <;> simp

/-- C10's blocking reader on C09's responses: same bytes, same verdict as C09's `ChunkReader` model. -/
theorem syncPullN_toWire (k : Nat) : ∀ (rs : List Resp),
    (Commit.syncPullN none (toWire k rs)).bodies.flatten = (tailBytes k rs).1 ∧
    (Commit.syncPullN none (toWire k rs)).ok = (tailBytes k rs).2 ∧
    (Commit.syncPullN none (toWire k rs)).lastSeen = (tailBytes k rs).2
  | [] => by simp [toWire, Commit.syncPullN, tailBytes]
  | .error :: r => by simp [toWire, toWireResp, Commit.syncPullN, tailBytes]
  | .chunk b q :: r => by
    obtain ⟨h1, h2, h3⟩ := syncPullN_toWire k r
    simp only [toWire] at h1 h2 h3
    simp only [toWire, List.map_cons, toWireResp, tailBytes]
    by_cases hl : isLast k q = true
    · simp only [hl, Commit.syncPullN, if_true]
      refine ⟨?_, trivial, trivial⟩
      have := flatten_nonEmpty_append b []
      simpa using this
    · have hl' : isLast k q = false := by simpa using hl
      simp only [hl', Commit.syncPullN, Option.map_none, Bool.false_eq_true, if_false]
      exact ⟨by rw [flatten_nonEmpty_append, h1], h2, h3⟩

/-- … and C10's async loop. -/
theorem asyncPull_toWire (k : Nat) : ∀ (rs : List Resp),
    (Commit.asyncPull (toWire k rs)).bodies.flatten = (tailBytes k rs).1 ∧
    (Commit.asyncPull (toWire k rs)).ok = (tailBytes k rs).2
  | [] => by simp [toWire, Commit.asyncPull, tailBytes]
  | .error :: r => by simp [toWire, toWireResp, Commit.asyncPull, tailBytes]
  | .chunk b q :: r => by
    obtain ⟨h1, h2⟩ := asyncPull_toWire k r
    simp only [toWire] at h1 h2
    simp only [toWire, List.map_cons, toWireResp, tailBytes]
    by_cases hl : isLast k q = true
    · simp only [hl, Commit.asyncPull, if_true]
      refine ⟨?_, trivial⟩
      have := flatten_nonEmpty_append b []
      simpa using this
    · have hl' : isLast k q = false := by simpa using hl
      simp only [hl', Commit.asyncPull, Bool.false_eq_true, if_false]
      exact ⟨by rw [flatten_nonEmpty_append, h1], h2⟩

end Repe.Svs
