import RepeVerif.Model.Router
import RepeVerif.Model.RouterStruct
/-! Helper lemmas for C07 (router, middleware, JSON-pointer tokenisers). Core Lean only. -/
namespace Repe.Router

/-! ## `replace("~1","/").replace("~0","~")` = RFC 6901 unescape on well-formed tokens -/

theorem replace2_head_ne (a b to c : Char) (r : Str) (h : c ≠ a) :
    replace2 a b to (c :: r) = c :: replace2 a b to r := by
  cases r with
  | nil => simp [replace2]
  | cons y rest => simp [replace2, h]

theorem replace2_hit (a b to : Char) (r : Str) :
    replace2 a b to (a :: b :: r) = to :: replace2 a b to r := by simp [replace2]

theorem replace2_miss (a b to y : Char) (r : Str) (h : y ≠ b) :
    replace2 a b to (a :: y :: r) = a :: replace2 a b to (y :: r) := by simp [replace2, h]

theorem unesc_plain (c : Char) (r : Str) (h : c ≠ '~') : unesc (c :: r) = c :: unesc r := by
  rw [unesc]
  · intro r' h'; exact absurd h' h
  · intro r' h'; exact absurd h' h

theorem unesc_e0 (r : Str) : unesc ('~' :: '0' :: r) = '~' :: unesc r := by simp [unesc]
theorem unesc_e1 (r : Str) : unesc ('~' :: '1' :: r) = '/' :: unesc r := by simp [unesc]

theorem replace01_eq_unesc (t : Str) (h : EscWF t) : replace01 t = unesc t := by
  unfold replace01
  induction h with
  | nil => simp [replace2, unesc]
  | plain c r hc hr ih =>
    rw [replace2_head_ne _ _ _ _ _ hc, replace2_head_ne _ _ _ _ _ hc, ih, unesc_plain _ _ hc]
  | e0 r hr ih =>
    rw [replace2_miss _ _ _ _ _ (by decide), replace2_head_ne _ _ _ '0' _ (by decide),
        replace2_hit, ih, unesc_e0]
  | e1 r hr ih =>
    rw [replace2_hit, replace2_head_ne _ _ _ '/' _ (by decide), ih, unesc_e1]

theorem escWF_append (a b : Str) (ha : EscWF a) (hb : EscWF b) : EscWF (a ++ b) := by
  induction ha with
  | nil => exact hb
  | plain c r hc _ ih => exact .plain c _ hc ih
  | e0 r _ ih => exact .e0 _ ih
  | e1 r _ ih => exact .e1 _ ih

theorem escWF_iff (s : Str) : escWF s = true ↔ EscWF s := by
  constructor
  · intro h
    induction s using escWF.induct with
    | case1 => exact .nil
    | case2 r ih => exact .e0 r (ih (by simpa [escWF] using h))
    | case3 r ih => exact .e1 r (ih (by simpa [escWF] using h))
    | case4 c r h0 h1 ih =>
      rw [escWF] at h
      · simp only [Bool.and_eq_true, bne_iff_ne, ne_eq] at h
        exact .plain c r h.1 (ih h.2)
      · exact h0
      · exact h1
  · intro h
    induction h with
    | nil => rfl
    | plain c r hc hr ih =>
      rw [escWF]
      · simp [hc, ih]
      · intro r' h'; exact absurd (by cases h'; rfl) hc
      · intro r' h'; exact absurd (by cases h'; rfl) hc
    | e0 r hr ih => simpa [escWF] using ih
    | e1 r hr ih => simpa [escWF] using ih

/-! ## `split('/')` -/

theorem splitSlash_ne_nil (s : Str) : splitSlash s ≠ [] := by
  induction s with
  | nil => simp [splitSlash]
  | cons c r ih =>
    unfold splitSlash
    split
    · simp
    · split
      · simp
      · rename_i h; exact absurd h ih

theorem splitSlash_cons_ne (c : Char) (r : Str) (hc : c ≠ '/') :
    ∃ t ts, splitSlash r = t :: ts ∧ splitSlash (c :: r) = (c :: t) :: ts := by
  cases h : splitSlash r with
  | nil => exact absurd h (splitSlash_ne_nil r)
  | cons t ts => exact ⟨t, ts, rfl, by simp [splitSlash, hc, h]⟩

theorem splitSlash_cons_slash (r : Str) : splitSlash ('/' :: r) = [] :: splitSlash r := by
  simp [splitSlash]

/-- Every token of a well-formed string is well formed ('/' never follows a '~'). -/
theorem escWF_tokens (s : Str) (h : EscWF s) : ∀ t ∈ splitSlash s, EscWF t := by
  induction h with
  | nil => simp [splitSlash]; exact .nil
  | plain c r hc hr ih =>
    by_cases hs : c = '/'
    · subst hs; rw [splitSlash_cons_slash]
      intro t ht
      rcases List.mem_cons.mp ht with h | h
      · subst h; exact .nil
      · exact ih t h
    · obtain ⟨t, ts, h1, h2⟩ := splitSlash_cons_ne c r hs
      rw [h2]; rw [h1] at ih
      intro x hx
      rcases List.mem_cons.mp hx with h | h
      · subst h; exact .plain c t hc (ih t (by simp))
      · exact ih x (by simp [h])
  | e0 r hr ih =>
    obtain ⟨t, ts, h1, h2⟩ := splitSlash_cons_ne '0' r (by decide)
    obtain ⟨t', ts', h1', h2'⟩ := splitSlash_cons_ne '~' ('0' :: r) (by decide)
    rw [h2] at h1'; cases h1'
    rw [h2']; rw [h1] at ih
    intro x hx
    rcases List.mem_cons.mp hx with h | h
    · subst h; exact .e0 t (ih t (by simp))
    · exact ih x (by simp [h])
  | e1 r hr ih =>
    obtain ⟨t, ts, h1, h2⟩ := splitSlash_cons_ne '1' r (by decide)
    obtain ⟨t', ts', h1', h2'⟩ := splitSlash_cons_ne '~' ('1' :: r) (by decide)
    rw [h2] at h1'; cases h1'
    rw [h2']; rw [h1] at ih
    intro x hx
    rcases List.mem_cons.mp hx with h | h
    · subst h; exact .e1 t (ih t (by simp))
    · exact ih x (by simp [h])

theorem map_replace01_eq (s : Str) (h : EscWF s) :
    (splitSlash s).map replace01 = (splitSlash s).map unesc :=
  List.map_congr_left fun t ht => replace01_eq_unesc t (escWF_tokens s h t ht)

/-- Escape-free strings: unescaping the tokens changes nothing. -/
theorem map_unesc_of_no_tilde (s : Str) (h : '~' ∉ s) : (splitSlash s).map unesc = splitSlash s := by
  induction s with
  | nil => simp [splitSlash, unesc]
  | cons c r ih =>
    have hc : c ≠ '~' := fun e => h (by simp [e])
    have hr : '~' ∉ r := fun e => h (by simp [e])
    have ih := ih hr
    by_cases hs : c = '/'
    · subst hs; rw [splitSlash_cons_slash]; simp [unesc, ih]
    · obtain ⟨t, ts, h1, h2⟩ := splitSlash_cons_ne c r hs
      rw [h2]; rw [h1] at ih
      simp only [List.map_cons, List.cons.injEq] at ih ⊢
      exact ⟨by rw [unesc_plain _ _ hc, ih.1], ih.2⟩

/-! ## the stack-then-spill loop collects exactly the pieces -/

theorem take_set_succ {α} (l : List α) (n : Nat) (x : α) (h : n < l.length) :
    (l.set n x).take (n + 1) = l.take n ++ [x] := by
  induction l generalizing n with
  | nil => simp at h
  | cons a l ih =>
    cases n with
    | zero => simp
    | succ n => simp at h; simp [ih n h]

/-- Loop invariant: the pieces seen so far are `done`. -/
def SplitInv (S : Nat) (st : SplitState) (done : List Str) : Prop :=
  st.result = done ∧ (st.overflow = none → st.count ≤ S ∧ st.stack.length = S)

theorem splitInv_push (S : Nat) (st : SplitState) (done : List Str) (seg : Str)
    (h : SplitInv S st done) : SplitInv S (st.push S seg) (done ++ [seg]) := by
  obtain ⟨hres, hside⟩ := h
  unfold SplitState.push
  cases ho : st.overflow with
  | some v =>
    simp only [SplitState.result, ho] at hres
    simp [SplitInv, SplitState.result, hres]
  | none =>
    obtain ⟨hle, hlen⟩ := hside ho
    simp only [SplitState.result, ho] at hres
    by_cases hc : st.count < S
    · simp only [hc, if_true]
      refine ⟨?_, fun _ => ⟨by simp; omega, by simp [hlen]⟩⟩
      simp only [SplitState.result]
      rw [take_set_succ _ _ _ (by omega), hres]
    · simp only [hc, if_false]
      refine ⟨?_, fun h => by simp at h⟩
      have : st.count = st.stack.length := by omega
      simp only [SplitState.result]
      rw [← hres, this, List.take_length]

theorem splitInv_foldl (S : Nat) (segs : List Str) (st : SplitState) (done : List Str)
    (h : SplitInv S st done) : (segs.foldl (SplitState.push S) st).result = done ++ segs := by
  induction segs generalizing st done with
  | nil => simpa using h.1
  | cons seg segs ih =>
    rw [List.foldl_cons, ih _ _ (splitInv_push S st done seg h)]; simp

theorem splitFast_eq (S : Nat) (s : Str) : splitFast S s = splitSlash s := by
  unfold splitFast
  rw [splitInv_foldl S _ _ [] ⟨by simp [SplitState.result], fun _ => by simp⟩]; simp

/-! ## specification vs implementation -/

theorem rfc6901_cons (c : Char) (r : Str) :
    rfc6901 (c :: r) = (splitSlash (stripSlash (c :: r))).map unesc := by
  by_cases hc : c = '/'
  · subst hc; simp [rfc6901, stripSlash]
  · unfold rfc6901
    split
    · rename_i h; cases h
    · rename_i h; cases h; exact absurd rfl hc
    · simp [stripSlash, hc]

theorem escWF_stripSlash (s : Str) (h : EscWF s) : EscWF (stripSlash s) := by
  cases s with
  | nil => exact h
  | cons c r =>
    by_cases hc : c = '/'
    · subst hc; simp only [stripSlash, if_true]
      cases h with
      | plain _ _ _ hr => exact hr
    · simpa [stripSlash, hc] using h

theorem jsonPointerParse_eq_rfc6901 (rel : Str) (h : EscWF rel) : jsonPointerParse rel = rfc6901 rel := by
  cases rel with
  | nil => simp [jsonPointerParse, rfc6901]
  | cons c r =>
    rw [rfc6901_cons]
    simp only [jsonPointerParse, List.isEmpty_cons, Bool.false_eq_true, if_false]
    exact map_replace01_eq _ (escWF_stripSlash _ h)

theorem dispatchSegments_eq_rfc6901 (S : Nat) (rel : Str) (h : EscWF rel) :
    dispatchSegments S rel = rfc6901 rel := by
  unfold dispatchSegments
  by_cases ht : rel.contains '~' = true
  · simp only [ht, Bool.not_true, Bool.false_eq_true, if_false]
    exact jsonPointerParse_eq_rfc6901 rel h
  · simp only [ht, Bool.not_false, if_true]
    have hmem : '~' ∉ rel := by simpa using ht
    cases rel with
    | nil => simp [rfc6901]
    | cons c r =>
      simp only [List.isEmpty_cons, Bool.false_eq_true, if_false]
      by_cases h1 : c :: r = ['/']
      · simp [h1, rfc6901, splitSlash, unesc]
      · simp only [h1, if_false]
        rw [splitFast_eq, rfc6901_cons, map_unesc_of_no_tilde]
        cases r with
        | nil => by_cases hc : c = '/' <;> simp_all [stripSlash]
        | cons d r' =>
          by_cases hc : c = '/'
          · subst hc; simp only [stripSlash, if_true]; intro hm; exact hmem (by simp [hm])
          · simpa [stripSlash, hc] using hmem

/-! ## prefixes and mounts -/

theorem stripPrefix_eq_some (p s rest : Str) : stripPrefix p s = some rest ↔ s = p ++ rest := by
  induction p generalizing s with
  | nil => simp [stripPrefix, eq_comm]
  | cons a p ih =>
    cases s with
    | nil => simp [stripPrefix]
    | cons b s =>
      by_cases hab : a = b
      · subst hab; simp [stripPrefix, ih]
      · simp [stripPrefix, hab]; intro h; exact absurd h.symm hab

theorem head?_eq_some_slash (s : Str) : s.head? = some '/' ↔ ∃ r, s = '/' :: r := by
  cases s with
  | nil => simp
  | cons c r => simp

theorem mountMatches_iff (p path : Str) :
    mountMatches p path = true ↔ p = [] ∨ path = p ∨ ∃ r, path = p ++ '/' :: r := by
  unfold mountMatches
  by_cases hp : p = []
  · simp [hp]
  · by_cases he : path = p
    · simp [he]
    · simp only [List.isEmpty_iff, hp, he, if_false, false_or]
      cases hs : stripPrefix p path with
      | none =>
        simp only [Bool.false_eq_true, false_iff]
        rintro ⟨r, hr⟩
        have := (stripPrefix_eq_some p path ('/' :: r)).mpr hr
        rw [hs] at this; cases this
      | some rest =>
        have hpath := (stripPrefix_eq_some p path rest).mp hs
        simp only [decide_eq_true_eq]
        rw [head?_eq_some_slash]
        constructor
        · rintro ⟨r, hr⟩; exact ⟨r, by rw [hpath, hr]⟩
        · rintro ⟨r, hr⟩; rw [hpath] at hr; exact ⟨r, List.append_cancel_left hr⟩

theorem pointerFor_isSome (p path : Str) : (pointerFor p path).isSome = mountMatches p path := by
  unfold pointerFor mountMatches
  by_cases hp : p.isEmpty = true
  · simp only [hp, if_true]; split <;> rfl
  · by_cases he : path = p
    · simp [hp, he]
    · simp only [hp, he, if_false]
      cases stripPrefix p path with
      | none => rfl
      | some rest => by_cases h : rest.head? = some '/' <;> simp [h]

theorem relativePointer_isSome (p path : Str) : (relativePointer p path).isSome = mountMatches p path := by
  unfold relativePointer mountMatches
  by_cases hp : p.isEmpty = true
  · simp [hp]
  · by_cases he : path = p
    · simp [hp, he]
    · simp only [hp, he, if_false]
      cases stripPrefix p path with
      | none => rfl
      | some rest => by_cases h : rest.head? = some '/' <;> simp [h]

theorem pointerFor_spec (p path q : Str) (h : pointerFor p path = some q) :
    (p = [] ∧ q = if path = [] then ['/'] else path) ∨ (p ≠ [] ∧ path = p ∧ q = ['/']) ∨
    (p ≠ [] ∧ path ≠ p ∧ path = p ++ q ∧ ∃ r, q = '/' :: r) := by
  unfold pointerFor at h
  by_cases hp : p = []
  · left; subst hp
    by_cases hpath : path = [] <;> simp_all
  · right
    simp only [List.isEmpty_iff, hp, if_false] at h
    by_cases he : path = p
    · left; simp only [he, if_true, Option.some.injEq] at h; exact ⟨hp, he, h.symm⟩
    · right
      simp only [he, if_false] at h
      cases hs : stripPrefix p path with
      | none => simp [hs] at h
      | some rest =>
        simp only [hs] at h
        by_cases hh : rest.head? = some '/'
        · simp only [hh, if_true, Option.some.injEq] at h; subst h
          exact ⟨hp, he, (stripPrefix_eq_some _ _ _).mp hs, (head?_eq_some_slash _).mp hh⟩
        · simp [hh] at h

theorem relativePointer_spec (p path q : Str) (h : relativePointer p path = some q) :
    (p = [] ∧ q = path) ∨ (p ≠ [] ∧ path = p ∧ q = []) ∨
    (p ≠ [] ∧ path ≠ p ∧ path = p ++ q ∧ ∃ r, q = '/' :: r) := by
  unfold relativePointer at h
  by_cases hp : p = []
  · left; subst hp; simp_all
  · right
    simp only [List.isEmpty_iff, hp, if_false] at h
    by_cases he : path = p
    · left; simp only [he, if_true, Option.some.injEq] at h; exact ⟨hp, he, h.symm⟩
    · right
      simp only [he, if_false] at h
      cases hs : stripPrefix p path with
      | none => simp [hs] at h
      | some rest =>
        simp only [hs] at h
        by_cases hh : rest.head? = some '/'
        · simp only [hh, if_true, Option.some.injEq] at h; subst h
          exact ⟨hp, he, (stripPrefix_eq_some _ _ _).mp hs, (head?_eq_some_slash _).mp hh⟩
        · simp [hh] at h

/-! ## middleware uniformity -/

def Facts.Complete (F : Facts) : Prop :=
  (∀ c : Coll, c ∈ F.wraps) ∧ (∀ c : Coll, c ∈ F.mwRebuilds)

instance (F : Facts) : Decidable F.Complete := by
  unfold Facts.Complete
  have : ∀ l : List Coll, Decidable (∀ c : Coll, c ∈ l) := fun l =>
    decidable_of_iff (Coll.exact ∈ l ∧ Coll.registries ∈ l ∧ Coll.structs ∈ l)
      ⟨fun h c => by cases c <;> simp [h.1, h.2.1, h.2.2], fun h => ⟨h _, h _, h _⟩⟩
  exact instDecidableAnd

def Router.Uniform (r : Router) : Prop :=
  (∀ pe ∈ r.inner, pe.2.mws = r.mws) ∧ (∀ pe ∈ r.registries, pe.2.mws = r.mws) ∧
  (∀ pe ∈ r.structs, pe.2.mws = r.mws)

theorem rebuild_uniform (F : Facts) (c : Coll) (hc : c ∈ F.mwRebuilds) (mws : List Nat)
    (es : List (Str × Entry)) : ∀ pe ∈ rebuild F c mws es, pe.2.mws = mws := by
  simp only [rebuild, hc, if_true]
  intro pe hpe
  obtain ⟨x, _, rfl⟩ := List.mem_map.mp hpe
  rfl

theorem apply_uniform (F : Facts) (hF : F.Complete) (r : Router) (op : Op) (h : r.Uniform) :
    (r.apply F op).Uniform := by
  obtain ⟨h1, h2, h3⟩ := h
  cases op with
  | route path hd =>
    refine ⟨?_, h2, h3⟩
    intro pe hpe
    simp only [Router.apply] at hpe
    rcases List.mem_cons.mp hpe with e | e
    · subst e; simp [wrapAt, hF.1, Router.apply]
    · exact h1 pe (List.mem_filter.mp e).1
  | registry pre hd =>
    refine ⟨h1, ?_, h3⟩
    intro pe hpe
    simp only [Router.apply] at hpe
    rcases List.mem_append.mp hpe with e | e
    · exact h2 pe e
    · simp only [List.mem_singleton] at e; subst e; simp [wrapAt, hF.1, Router.apply]
  | struct root hd =>
    refine ⟨h1, h2, ?_⟩
    intro pe hpe
    simp only [Router.apply] at hpe
    rcases List.mem_append.mp hpe with e | e
    · exact h3 pe e
    · simp only [List.mem_singleton] at e; subst e; simp [wrapAt, hF.1, Router.apply]
  | middleware m =>
    exact ⟨rebuild_uniform F _ (hF.2 _) _ _, rebuild_uniform F _ (hF.2 _) _ _,
           rebuild_uniform F _ (hF.2 _) _ _⟩

theorem run_uniform (F : Facts) (hF : F.Complete) (ops : List Op) (r : Router) (h : r.Uniform) :
    (r.run F ops).Uniform := by
  induction ops generalizing r with
  | nil => exact h
  | cons op ops ih => exact ih _ (apply_uniform F hF r op h)

theorem mem_entries (r : Router) (e : Entry) :
    e ∈ r.entries ↔ (∃ pe ∈ r.inner, pe.2 = e) ∨ (∃ pe ∈ r.registries, pe.2 = e) ∨ (∃ pe ∈ r.structs, pe.2 = e) := by
  simp [Router.entries]

theorem get_mem_entries (F : Facts) (r : Router) (path : Str) (f : Found) (h : r.get F path = some f) :
    f.entry ∈ r.entries := by
  unfold Router.get at h
  obtain ⟨c, _, hc⟩ := List.exists_of_findSome?_eq_some h
  rw [mem_entries]
  cases c with
  | exact =>
    simp only [Router.lookupIn, lookupExact, Option.map_eq_some_iff] at hc
    obtain ⟨e, ⟨pe, hpe, rfl⟩, rfl⟩ := hc
    exact .inl ⟨pe, List.mem_of_find?_eq_some hpe, rfl⟩
  | registries =>
    simp only [Router.lookupIn, lookupMount, Option.map_eq_some_iff] at hc
    obtain ⟨pe, hpe, rfl⟩ := hc
    exact .inr (.inl ⟨pe, List.mem_of_find?_eq_some hpe, rfl⟩)
  | structs =>
    simp only [Router.lookupIn, lookupMount, Option.map_eq_some_iff] at hc
    obtain ⟨pe, hpe, rfl⟩ := hc
    exact .inr (.inr ⟨pe, List.mem_of_find?_eq_some hpe, rfl⟩)

/-- the middleware list is exactly the registered middleware, in registration order -/
def mwsOf : List Op → List Nat
  | [] => []
  | .middleware m :: ops => m :: mwsOf ops
  | _ :: ops => mwsOf ops

theorem apply_mws (F : Facts) (r : Router) (op : Op) : (r.apply F op).mws = r.mws ++ mwsOf [op] := by
  cases op <;> simp [Router.apply, mwsOf]

theorem mwsOf_cons (op : Op) (ops : List Op) : mwsOf (op :: ops) = mwsOf [op] ++ mwsOf ops := by
  cases op <;> simp [mwsOf]

theorem run_mws (F : Facts) (ops : List Op) (r : Router) : (r.run F ops).mws = r.mws ++ mwsOf ops := by
  induction ops generalizing r with
  | nil => simp [Router.run, mwsOf]
  | cons op ops ih =>
    have := ih (r.apply F op)
    simp only [Router.run, List.foldl_cons] at this ⊢
    rw [this, apply_mws, mwsOf_cons op ops, List.append_assoc]

/-! ## exact routes win -/

theorem find_filter_ne (es : List (Str × Entry)) (path path' : Str) (hne : path ≠ path') :
    (es.filter (fun pe => pe.1 ≠ path')).find? (fun pe => pe.1 = path) = es.find? (fun pe => pe.1 = path) := by
  rw [List.find?_filter]
  congr 1
  funext pe
  by_cases h : pe.1 = path
  · simp [h, hne]
  · simp [h]

theorem lookupExact_rebuild (F : Facts) (mws : List Nat) (es : List (Str × Entry)) (path : Str) (e : Entry)
    (h : lookupExact es path = some e) :
    ∃ m, lookupExact (rebuild F .exact mws es) path = some ⟨e.raw, m⟩ := by
  unfold rebuild
  split
  · refine ⟨mws, ?_⟩
    unfold lookupExact at h ⊢
    induction es with
    | nil => simp at h
    | cons a es ih =>
      by_cases h2 : a.1 = path
      · simp [List.find?, h2] at h ⊢; rw [← h]
      · simp [List.find?, h2] at h ⊢; simpa using ih (by simpa [lookupExact] using h)
  · exact ⟨e.mws, h⟩

def Op.isRouteAt (path : Str) : Op → Prop
  | .route p _ => p = path
  | _ => False

theorem apply_keeps_exact (F : Facts) (r : Router) (op : Op) (path : Str) (hd : Nat) (m : List Nat)
    (hop : ¬ op.isRouteAt path) (h : lookupExact r.inner path = some ⟨hd, m⟩) :
    ∃ m', lookupExact (r.apply F op).inner path = some ⟨hd, m'⟩ := by
  cases op with
  | route p h' =>
    have hne : path ≠ p := fun e => hop e.symm
    refine ⟨m, ?_⟩
    simp only [Router.apply, lookupExact, List.find?]
    have : ¬ p = path := fun e => hne e.symm
    simp only [this, decide_false]
    rw [find_filter_ne _ _ _ hne]; exact h
  | registry _ _ => exact ⟨m, h⟩
  | struct _ _ => exact ⟨m, h⟩
  | middleware mw => exact lookupExact_rebuild F _ _ _ _ h

theorem run_keeps_exact (F : Facts) (ops : List Op) (r : Router) (path : Str) (hd : Nat) (m : List Nat)
    (hops : ∀ op ∈ ops, ¬ op.isRouteAt path) (h : lookupExact r.inner path = some ⟨hd, m⟩) :
    ∃ m', lookupExact (r.run F ops).inner path = some ⟨hd, m'⟩ := by
  induction ops generalizing r m with
  | nil => exact ⟨m, h⟩
  | cons op ops ih =>
    obtain ⟨m1, h1⟩ := apply_keeps_exact F r op path hd m (hops op (by simp)) h
    exact ih (r.apply F op) m1 (fun o ho => hops o (by simp [ho])) h1

theorem get_exact_first (F : Facts) (rest : List Coll) (hF : F.getOrder = .exact :: rest) (r : Router)
    (path : Str) (e : Entry) (h : lookupExact r.inner path = some e) :
    r.get F path = some ⟨.exact, path, e⟩ := by
  simp [Router.get, hF, Router.lookupIn, h]

/-! ## which paths a router serves, as a function of its registration history -/

/-- Does this registration make `path` served? -/
def Op.covers (path : Str) : Op → Bool
  | .route p _ => p = path
  | .registry p _ => mountMatches (normRegistryPrefix p) path
  | .struct p _ => mountMatches (normStructRoot p) path
  | .middleware _ => false

def Router.covers (r : Router) (path : Str) : Bool :=
  r.inner.any (fun pe => pe.1 = path) || r.registries.any (fun pe => mountMatches pe.1 path) ||
  r.structs.any (fun pe => mountMatches pe.1 path)

theorem rebuild_any (F : Facts) (c : Coll) (mws : List Nat) (es : List (Str × Entry)) (P : Str → Bool) :
    (rebuild F c mws es).any (fun pe => P pe.1) = es.any (fun pe => P pe.1) := by
  unfold rebuild
  split
  · induction es with
    | nil => rfl
    | cons a es ih => simp only [List.map_cons, List.any_cons, ih]
  · rfl

theorem apply_covers (F : Facts) (r : Router) (op : Op) (path : Str) :
    (r.apply F op).covers path = (r.covers path || op.covers path) := by
  cases op with
  | route p h =>
    simp only [Router.apply, Router.covers, Op.covers, List.any_cons]
    by_cases hp : p = path
    · simp [hp]
    · have : (r.inner.filter (fun pe => pe.1 ≠ p)).any (fun pe => pe.1 = path) = r.inner.any (fun pe => pe.1 = path) := by
        rw [List.any_filter]
        congr 1
        funext pe
        by_cases h : pe.1 = path
        · have : ¬ path = p := fun e => hp e.symm
          simp [h, this]
        · simp [h]
      rw [this]
      simp [hp]
  | registry p h =>
    simp only [Router.apply, Router.covers, Op.covers, List.any_append, List.any_cons, List.any_nil, Bool.or_false]
    cases r.inner.any _ <;> cases r.registries.any _ <;> cases r.structs.any _ <;> cases mountMatches _ _ <;> rfl
  | struct p h =>
    simp only [Router.apply, Router.covers, Op.covers, List.any_append, List.any_cons, List.any_nil, Bool.or_false]
    cases r.inner.any _ <;> cases r.registries.any _ <;> cases r.structs.any _ <;> cases mountMatches _ _ <;> rfl
  | middleware m =>
    simp only [Router.apply, Router.covers, Op.covers, Bool.or_false]
    rw [rebuild_any F .exact _ _ (fun k => decide (k = path)), rebuild_any F .registries _ _ (fun k => mountMatches k path),
        rebuild_any F .structs _ _ (fun k => mountMatches k path)]

theorem run_covers (F : Facts) (ops : List Op) (r : Router) (path : Str) :
    (r.run F ops).covers path = (r.covers path || ops.any (Op.covers path)) := by
  induction ops generalizing r with
  | nil => simp [Router.run]
  | cons op ops ih =>
    have := ih (r.apply F op)
    simp only [Router.run, List.foldl_cons] at this ⊢
    rw [this, apply_covers, List.any_cons, Bool.or_assoc]

theorem get_isSome_eq_covers (F : Facts) (hF : F.getOrder = [.exact, .registries, .structs]) (r : Router) (path : Str) :
    (r.get F path).isSome = r.covers path := by
  unfold Router.get Router.covers
  rw [hF]
  simp only [List.findSome?_cons, List.findSome?_nil, Router.lookupIn, lookupExact, lookupMount]
  cases h1 : r.inner.find? (fun pe => pe.1 = path) with
  | some a =>
    have : r.inner.any (fun pe => pe.1 = path) = true := by
      rw [List.any_eq_true]; exact ⟨a, List.mem_of_find?_eq_some h1, by simpa using List.find?_some h1⟩
    simp [this]
  | none =>
    have e1 : r.inner.any (fun pe => decide (pe.1 = path)) = false := by
      rw [List.any_eq_false]; intro x hx; exact List.find?_eq_none.mp h1 x hx
    simp only [Option.map_none, e1, Bool.false_or]
    cases h2 : r.registries.find? (fun pe => mountMatches pe.1 path) with
    | some a =>
      have : r.registries.any (fun pe => mountMatches pe.1 path) = true := by
        rw [List.any_eq_true]; exact ⟨a, List.mem_of_find?_eq_some h2, by simpa using List.find?_some h2⟩
      simp [this]
    | none =>
      have e2 : r.registries.any (fun pe => mountMatches pe.1 path) = false := by
        rw [List.any_eq_false]; intro x hx; exact List.find?_eq_none.mp h2 x hx
      simp only [Option.map_none, e2, Bool.false_or]
      cases h3 : r.structs.find? (fun pe => mountMatches pe.1 path) with
      | some a =>
        have : r.structs.any (fun pe => mountMatches pe.1 path) = true := by
          rw [List.any_eq_true]; exact ⟨a, List.mem_of_find?_eq_some h3, by simpa using List.find?_some h3⟩
        simp [this]
      | none =>
        have e3 : r.structs.any (fun pe => mountMatches pe.1 path) = false := by
          rw [List.any_eq_false]; intro x hx; exact List.find?_eq_none.mp h3 x hx
        simp [e3]

/-! ## derived structs: addressing -/

theorem resolve_path (segs : List Str) : ∀ (fs : Spec) (pre : List Str) (b : Bool) (a : Access),
    resolve fs pre segs b = .ok a → a.path = pre ++ segs := by
  induction segs with
  | nil =>
    intro fs pre b a h
    simp only [resolve] at h
    cases b <;> simp at h <;> cases h <;> simp [Access.path]
  | cons head tail ih =>
    intro fs pre b a h
    rw [resolve] at h
    split at h
    · cases h
    · split at h
      · cases h
      · rename_i ht
        have : tail = [] := by simpa using ht
        subst this
        split at h
        · cases h; simp [Access.path]
        · split at h
          · cases h
          · cases h; simp [Access.path]
    · split at h
      · rename_i ht
        have : tail = [] := by simpa using ht
        subst this
        split at h
        · cases h; simp [Access.path]
        · split at h
          · cases h
          · cases h; simp [Access.path]
      · have := ih _ _ _ _ h
        simpa using this
    · split at h
      · cases h
      · rename_i ht
        have : tail = [] := by simpa using ht
        subst this
        split at h
        · cases h
        · cases h; simp [Access.path]
    · split at h
      · rename_i ht
        have : tail = [] := by simpa using ht
        subst this
        split at h
        · cases h; simp [Access.path]
        · split at h
          · cases h
          · cases h; simp [Access.path]
      · cases h; simp [Access.path]

/-- A path that resolves to a leaf write resolves, without a body, to the read of the same leaf. -/
theorem resolve_write_read (segs : List Str) : ∀ (fs : Spec) (pre : List Str) (p : List Str),
    resolve fs pre segs true = .ok (.write p) → resolve fs pre segs false = .ok (.read p) := by
  induction segs with
  | nil => intro fs pre p h; simp [resolve] at h
  | cons head tail ih =>
    intro fs pre p h
    rw [resolve] at h ⊢
    cases hl : fs.lookup head with
    | none => simp [hl] at h
    | some node =>
      cases node with
      | leaf ro =>
        simp only [hl] at h ⊢
        by_cases ht : tail.isEmpty = true
        · simp only [ht, Bool.not_true, Bool.false_eq_true, if_false] at h ⊢
          cases ro
          · simp at h ⊢; exact h
          · simp at h
        · simp [ht] at h
      | nested ro fs' =>
        simp only [hl] at h ⊢
        by_cases ht : tail.isEmpty = true
        · simp only [ht, if_true, Bool.not_true, Bool.false_eq_true, if_false] at h
          cases ro <;> simp at h
        · simp only [ht] at h ⊢
          exact ih _ _ _ h
      | method ta un =>
        simp only [hl] at h
        by_cases ht : tail.isEmpty = true
        · simp only [ht, Bool.not_true, Bool.false_eq_true, if_false] at h
          split at h <;> cases h
        · simp [ht] at h
      | foreign ro =>
        simp only [hl] at h
        by_cases ht : tail.isEmpty = true
        · simp only [ht, if_true, Bool.not_true, Bool.false_eq_true, if_false] at h
          cases ro <;> simp at h
        · simp [ht] at h

/-- Through any chain of `#[repe(nested)]` fields down to a hand-written struct: the struct is handed
exactly the tokens that follow its name – all of them, empty ones included. -/
theorem resolve_chain (names : List Str) (hne : names ≠ []) (pre rest : List Str) (hr : rest ≠ []) (b : Bool) :
    resolve (chainSpec names) pre (names ++ rest) b = .ok (.foreign (pre ++ names) rest) := by
  induction names generalizing pre with
  | nil => exact absurd rfl hne
  | cons n ns ih =>
    cases ns with
    | nil =>
      have : rest.isEmpty = false := by cases rest <;> simp_all
      simp [chainSpec, resolve, Spec.lookup, this]
    | cons m ms =>
      have hne' : ((m :: ms) ++ rest).isEmpty = false := by simp
      rw [show (n :: m :: ms) ++ rest = n :: ((m :: ms) ++ rest) from rfl]
      simp only [chainSpec, resolve, Spec.lookup, if_true, hne', Bool.false_eq_true, if_false]
      have := ih (by simp) (pre ++ [n])
      simp only [chainSpec] at this
      rw [this]
      simp

theorem store_get_set (st : Store) (d : Bytes) (p : List Str) (v : Bytes) : (st.set p v).get d p = v := by
  simp [Store.set, Store.get]

theorem store_get_set_ne (st : Store) (d : Bytes) (p q : List Str) (v : Bytes) (h : q ≠ p) :
    (st.set p v).get d q = st.get d q := by
  have : ¬ p = q := fun e => h e.symm
  simp [Store.set, Store.get, this]

/-! ## middleware chains -/

theorem nextRun_forwarding {κ ρ} (h : Handler κ ρ) (ctx : Option κ) (mws : List (Mw κ ρ))
    (hf : ∀ m ∈ mws, Forwarding m) (req : Msg) : nextRun true h ctx mws req = nextRun true h ctx [] req := by
  induction mws with
  | nil => rfl
  | cons m rest ih =>
    rw [nextRun]
    simp only [if_true]
    rw [hf m (by simp) ctx req]
    exact ih (fun x hx => hf x (by simp [hx]))

/-- A chain of `n` spies, for every `n`: each link is shown the caller's context, and the leaf is
entered with it. -/
theorem nextRun_spies {κ ρ} (h : Handler κ (List (Option κ) × ρ)) (ctx : Option κ) (n : Nat) (req : Msg) :
    nextRun true h ctx (List.replicate n spyMw) req =
      (List.replicate n ctx ++ (nextRun true h ctx [] req).1, (nextRun true h ctx [] req).2) := by
  induction n with
  | zero => simp
  | succ n ih =>
    rw [List.replicate_succ, nextRun]
    simp only [if_true, spyMw, ih, List.replicate_succ, List.cons_append]

/-- Without the forwarding (what a rebuilt `Next::new(rest, handler)` does) the context is gone
after the first hop: the fact is needed. -/
theorem nextRun_spies_dropped {κ ρ} (h : Handler κ (List (Option κ) × ρ)) (c : κ) (n : Nat) (req : Msg) :
    nextRun false h (some c) (List.replicate (n + 1) spyMw) req =
      (List.replicate (n + 1) none ++ (h.handle req).1, (h.handle req).2) := by
  have key : ∀ n, nextRun false h none (List.replicate n spyMw) req =
      (List.replicate n none ++ (h.handle req).1, (h.handle req).2) := by
    intro n
    induction n with
    | zero => simp [nextRun]
    | succ n ih =>
      rw [List.replicate_succ, nextRun]
      simp only [ite_self, spyMw, ih]
      simp [List.replicate_succ]
  rw [List.replicate_succ, nextRun]
  simp only [spyMw, Bool.false_eq_true, if_false, key n]
  simp [List.replicate_succ]

/-! ## owned / borrowed twins -/

theorem echo_err (req : Msg) (code : Nat) (msg : Bytes) :
    echo req.query (errLike req code msg) = echo req.query (errView req.view code msg) := by
  unfold echo errLike errView Msg.view
  by_cases h : req.query.isEmpty = true
  · simp [h]
  · simp [h]

theorem builtin_twin {ε V} (g : Gate) (c : Codec ε V) (bf : Bytes) (code : ε → Nat) (text : ε → Bytes) (req : Msg) :
    echo req.query (match builtinHandle g c bf req with
      | .ok m => m | .error e => errLike req (code e) (text e)) =
    echo req.query (match builtinHandleView g c bf req.view with
      | .ok m => m | .error e => errView req.view (code e) (text e)) := by
  unfold builtinHandle builtinHandleView
  have hv : req.view.bodyFormat = req.bodyFormat ∧ req.view.body = req.body ∧ req.view.id = req.id ∧
      req.view.queryFormat = req.queryFormat := ⟨rfl, rfl, rfl, rfl⟩
  rw [hv.1, hv.2.1, hv.2.2.1, hv.2.2.2]
  cases g.lookup req.bodyFormat with
  | none => exact echo_err req _ _
  | some d =>
    dsimp only
    cases c.decode d req.body with
    | error e => exact echo_err req _ _
    | ok v =>
      dsimp only
      cases c.call v with
      | ok bf' => rfl
      | error cm => exact echo_err req _ _

end Repe.Router
