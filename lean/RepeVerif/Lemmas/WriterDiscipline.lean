import RepeVerif.Model.WriterDiscipline
import RepeVerif.Lemmas.Wire
/-! Helper lemmas for the writer-discipline model (C05). Core Lean only. -/
namespace Repe

/-! ### re-synchronisation from declared lengths -/

theorem toVec_take_header (m : Message) (rest : Bytes) :
    (m.toVec ++ rest).take 48 = m.header.encode := by
  simp only [Message.toVec, List.append_assoc]
  exact List.take_left' (encode_length _)

/-- `parseFrames` peels one consistent frame off the front. -/
theorem parseFrames_cons (form sform : SumForm) (mode : OvMode) (m : Message) (wf : m.WF)
    (rest : Bytes) (fuel : Nat) :
    parseFrames form sform mode (fuel + 1) (m.toVec ++ rest) =
      (m :: (parseFrames form sform mode fuel rest).1, (parseFrames form sform mode fuel rest).2) := by
  have hd : (m.toVec ++ rest).drop (48 + m.query.length + m.body.length) = rest :=
    List.drop_left' (toVec_length m)
  simp only [parseFrames, fromSlice_toVec_append form sform mode m wf rest, hd]

/-- Frames are self-delimiting: a concatenation of consistent frames followed by anything splits back
into exactly those frames; the rest of the fuel is spent on the tail. -/
theorem parseFrames_concat (form sform : SumForm) (mode : OvMode) (ms : List Message)
    (hwf : ∀ m ∈ ms, m.WF) (tail : Bytes) (fuel : Nat) :
    parseFrames form sform mode (ms.length + fuel) ((ms.map Message.toVec).flatten ++ tail) =
      (ms ++ (parseFrames form sform mode fuel tail).1, (parseFrames form sform mode fuel tail).2) := by
  induction ms with
  | nil => simp
  | cons m ms ih =>
    have hm : m.WF := hwf m (by simp)
    have hms : ∀ x ∈ ms, x.WF := fun x hx => hwf x (by simp [hx])
    have e : (m :: ms).length + fuel = (ms.length + fuel) + 1 := by simp; omega
    rw [e]
    simp only [List.map_cons, List.flatten_cons, List.append_assoc]
    rw [parseFrames_cons form sform mode m hm, ih hms]
    simp

/-- A proper prefix of a consistent frame is not a frame: `from_slice` refuses it. -/
theorem fromSlice_proper_prefix (form sform : SumForm) (mode : OvMode) (m : Message) (wf : m.WF)
    (n : Nat) (hn : n < m.toVec.length) :
    ∃ e, Message.fromSlice form sform mode (m.toVec.take n) = .err e := by
  have hr := wf.inRange
  have hL := toVec_length m
  have hlen : (m.toVec.take n).length = n := by simp [List.length_take]; omega
  by_cases h48 : n < 48
  · refine ⟨.invalidHeaderLength, ?_⟩
    unfold Message.fromSlice
    rw [if_pos (by omega)]
  · refine ⟨.bufferTooSmall, ?_⟩
    have htake : (m.toVec.take n).take 48 = m.header.encode := by
      rw [List.take_take, Nat.min_eq_left (by omega)]
      simpa using toVec_take_header m []
    have hd : Header.decode form mode m.header.encode = .ok m.header := by
      simpa using decode_encode_append form mode m.header hr wf.spec wf.hdr []
    have hlt : 48 + m.header.queryLength + m.header.bodyLength < 2^64 := by
      rw [← wf.hdr]; exact hr.length
    unfold Message.fromSlice
    rw [if_neg (by omega), htake, hd]
    simp only [Outcome.bind, sum3_small sform mode 48 _ _ hlt]
    rw [if_pos (by rw [hlen, wf.qlen, wf.blen]; omega)]

theorem parseFrames_proper_prefix (form sform : SumForm) (mode : OvMode) (m : Message) (wf : m.WF)
    (n : Nat) (hn : n < m.toVec.length) (fuel : Nat) :
    parseFrames form sform mode fuel (m.toVec.take n) = ([], m.toVec.take n) := by
  cases fuel with
  | zero => rfl
  | succ fuel =>
    obtain ⟨e, he⟩ := fromSlice_proper_prefix form sform mode m wf n hn
    simp only [parseFrames, he]

end Repe

namespace Repe.WD

/-! ### stream algebra -/

theorem stream_snoc (segs : List (Seg Message)) (s : Seg Message) :
    ((segs ++ [s]).map Seg.bytes).flatten = (segs.map Seg.bytes).flatten ++ s.bytes := by
  simp

theorem seg_first (m : Message) (k : Nat) : (Seg.mk m 0 k).bytes = m.toVec.take k := by
  simp [Seg.bytes]

theorem take_extend (l : Bytes) (off k : Nat) :
    l.take off ++ (l.drop off).take k = l.take (off + k) := by
  rw [List.take_add]

/-! ### the invariant of a connection whose endpoint has both discipline facts -/

structure Inv (c : Conn Message) : Prop where
  curWf : ∀ w m off, c.cur w = some (m, off) → m.WF ∧ off < m.toVec.length
  doneWf : ∀ m ∈ c.done, m.WF
  idle : c.failed = false → ∀ w m off, c.cur w = some (m, off) → c.lock ≠ some w → off = 0
  shapeFree : c.failed = false → c.lock = none →
    c.stream = (c.done.map Message.toVec).flatten
  shapeHeld : c.failed = false → ∀ w, c.lock = some w → ∃ (m : Message) (off : Nat), c.cur w = some (m, off) ∧
    c.stream = (c.done.map Message.toVec).flatten ++ m.toVec.take off
  shapeFailed : c.failed = true → ∃ (m : Message) (off : Nat), m.WF ∧ 0 < off ∧ off < m.toVec.length ∧
    c.stream = (c.done.map Message.toVec).flatten ++ m.toVec.take off

theorem inv_init : Inv (Conn.init : Conn Message) := by
  refine ⟨?_, ?_, ?_, ?_, ?_, ?_⟩ <;> simp [Conn.init, Conn.stream]


/-! ### equations of `step` -/

theorem step_submit_some (f : Facts) (c : Conn Message) (w : Nat) (m : Message) (p) (h : c.cur w = some p) :
    step mlen f c (.submit w m) = c := by simp [step, h]

theorem step_submit_none (f : Facts) (c : Conn Message) (w : Nat) (m : Message) (h : c.cur w = none) :
    step mlen f c (.submit w m) = { c with cur := setCur c.cur w (some (m, 0)) } := by simp [step, h]

theorem step_progress_none (f : Facts) (c : Conn Message) (w k : Nat) (h : c.cur w = none) :
    step mlen f c (.progress w k) = c := by simp [step, h]

theorem step_progress_blocked (f : Facts) (c : Conn Message) (w k : Nat) (m : Message) (off : Nat)
    (h : c.cur w = some (m, off)) (hc : ¬ canWrite f c w = true) :
    step mlen f c (.progress w k) = c := by simp [step, h, hc]

theorem step_progress_complete (f : Facts) (c : Conn Message) (w k : Nat) (m : Message) (off : Nat)
    (h : c.cur w = some (m, off)) (hc : canWrite f c w = true)
    (hcomp : off + min k (m.toVec.length - off) = m.toVec.length) :
    step mlen f c (.progress w k) =
      { c with segs := c.segs ++ [⟨m, off, min k (m.toVec.length - off)⟩], cur := setCur c.cur w none,
               lock := none, done := c.done ++ [m] } := by
  simp [step, h, hc, hcomp]

theorem step_progress_partial (f : Facts) (c : Conn Message) (w k : Nat) (m : Message) (off : Nat)
    (h : c.cur w = some (m, off)) (hc : canWrite f c w = true)
    (hcomp : ¬ off + min k (m.toVec.length - off) = m.toVec.length) :
    step mlen f c (.progress w k) =
      { c with segs := c.segs ++ [⟨m, off, min k (m.toVec.length - off)⟩],
               cur := setCur c.cur w (some (m, off + min k (m.toVec.length - off))), lock := some w } := by
  simp [step, h, hc, hcomp]

theorem step_interrupt_none (f : Facts) (c : Conn Message) (w : Nat) (h : c.cur w = none) :
    step mlen f c (.interrupt w) = c := by simp [step, h]

theorem step_interrupt_some (f : Facts) (c : Conn Message) (w : Nat) (m : Message) (off : Nat)
    (h : c.cur w = some (m, off)) :
    step mlen f c (.interrupt w) =
      { c with cur := setCur c.cur w none, lock := if c.lock = some w then none else c.lock,
               failed := c.failed || (decide (off > 0) && f.failOnInterrupt) } := by
  simp [step, h]

/-- Once failed, nothing changes on the wire and the connection stays failed (any facts). -/
theorem step_failed (f : Facts) (c : Conn Message) (hf : c.failed = true) (e : Ev Message) :
    (step mlen f c e).failed = true ∧ (step mlen f c e).segs = c.segs ∧ (step mlen f c e).done = c.done := by
  cases e with
  | submit w m =>
    cases h : c.cur w with
    | some p => rw [step_submit_some f c w m p h]; exact ⟨hf, rfl, rfl⟩
    | none => rw [step_submit_none f c w m h]; exact ⟨hf, rfl, rfl⟩
  | progress w k =>
    cases h : c.cur w with
    | none => rw [step_progress_none f c w k h]; exact ⟨hf, rfl, rfl⟩
    | some p =>
      obtain ⟨m, off⟩ := p
      rw [step_progress_blocked f c w k m off h (by simp [canWrite, hf])]; exact ⟨hf, rfl, rfl⟩
  | interrupt w =>
    cases h : c.cur w with
    | none => rw [step_interrupt_none f c w h]; exact ⟨hf, rfl, rfl⟩
    | some p =>
      obtain ⟨m, off⟩ := p
      rw [step_interrupt_some f c w m off h]; simp [hf]

theorem run_failed (f : Facts) (evs : List (Ev Message)) (c : Conn Message) (hf : c.failed = true) :
    (run mlen f evs c).failed = true ∧ (run mlen f evs c).segs = c.segs ∧ (run mlen f evs c).done = c.done := by
  induction evs generalizing c with
  | nil => simp [run, hf]
  | cons e evs ih =>
    obtain ⟨h1, h2, h3⟩ := step_failed f c hf e
    have := ih (step mlen f c e) h1
    simp only [run, List.foldl_cons] at this ⊢
    rw [this.2.1, this.2.2, h2, h3]; exact ⟨this.1, rfl, rfl⟩

theorem setCur_same (cur : Nat → Option (Message × Nat)) (w : Nat) (v) : setCur cur w v w = v := by
  simp [setCur]

theorem setCur_other (cur : Nat → Option (Message × Nat)) (w w' : Nat) (v) (h : w' ≠ w) :
    setCur cur w v w' = cur w' := by
  simp [setCur, h]

def Ev.Wf : Ev Message → Prop
  | .submit _ m => m.WF
  | _ => True

def both : Facts := ⟨true, true⟩

/-- In a failed connection `cur` only loses entries or gains a consistent one. -/
theorem step_cur_sub (f : Facts) (c : Conn Message) (e : Ev Message) (he : e.Wf) (w : Nat) (m : Message) (off : Nat)
    (hc : (step mlen f c e).cur w = some (m, off)) (hf : c.failed = true) :
    c.cur w = some (m, off) ∨ (m.WF ∧ off < m.toVec.length) := by
  cases e with
  | submit w' m' =>
    cases h : c.cur w' with
    | some p => rw [step_submit_some f c w' m' p h] at hc; exact Or.inl hc
    | none =>
      rw [step_submit_none f c w' m' h] at hc
      simp only at hc
      by_cases hw : w = w'
      · subst hw
        rw [setCur_same] at hc
        cases hc
        exact Or.inr ⟨he, by have := toVec_length m; omega⟩
      · rw [setCur_other _ _ _ _ hw] at hc; exact Or.inl hc
  | progress w' k =>
    cases h : c.cur w' with
    | none => rw [step_progress_none f c w' k h] at hc; exact Or.inl hc
    | some p =>
      obtain ⟨m', off'⟩ := p
      rw [step_progress_blocked f c w' k m' off' h (by simp [canWrite, hf])] at hc; exact Or.inl hc
  | interrupt w' =>
    cases h : c.cur w' with
    | none => rw [step_interrupt_none f c w' h] at hc; exact Or.inl hc
    | some p =>
      obtain ⟨m', off'⟩ := p
      rw [step_interrupt_some f c w' m' off' h] at hc
      simp only at hc
      by_cases hw : w = w'
      · subst hw; rw [setCur_same] at hc; cases hc
      · rw [setCur_other _ _ _ _ hw] at hc; exact Or.inl hc

theorem inv_step (c : Conn Message) (hi : Inv c) (e : Ev Message) (he : e.Wf) : Inv (step mlen both c e) := by
  by_cases hfail : c.failed = true
  · -- failed: wire and ghost state frozen
    obtain ⟨h1, h2, h3⟩ := step_failed both c hfail e
    obtain ⟨m0, off0, hm0, hpos, hlt, hs⟩ := hi.shapeFailed hfail
    refine ⟨?_, ?_, ?_, ?_, ?_, ?_⟩
    · intro w m off hc
      rcases step_cur_sub both c e he w m off hc hfail with h | h
      · exact hi.curWf w m off h
      · exact h
    · rw [h3]; exact hi.doneWf
    · intro hnf; rw [h1] at hnf; cases hnf
    · intro hnf; rw [h1] at hnf; cases hnf
    · intro hnf; rw [h1] at hnf; cases hnf
    · intro _
      refine ⟨m0, off0, hm0, hpos, hlt, ?_⟩
      simp only [Conn.stream, h2, h3]
      simpa [Conn.stream] using hs
  · have hnf : c.failed = false := by cases h : c.failed <;> simp_all
    cases e with
    | submit w' m' =>
      cases h : c.cur w' with
      | some p => rw [step_submit_some both c w' m' p h]; exact hi
      | none =>
        rw [step_submit_none both c w' m' h]
        have hmwf : m'.WF := he
        refine ⟨?_, hi.doneWf, ?_, ?_, ?_, ?_⟩
        · intro w m off hc
          simp only at hc
          by_cases hw : w = w'
          · subst hw
            simp only [setCur_same] at hc
            cases hc
            exact ⟨hmwf, by have := toVec_length m'; omega⟩
          · simp only [setCur_other _ _ _ _ hw] at hc; exact hi.curWf w m off hc
        · intro _ w m off hc hl
          simp only at hc hl
          by_cases hw : w = w'
          · subst hw
            simp only [setCur_same] at hc
            cases hc; rfl
          · simp only [setCur_other _ _ _ _ hw] at hc; exact hi.idle hnf w m off hc hl
        · intro _ hl; exact hi.shapeFree hnf hl
        · intro _ w hl
          obtain ⟨m, off, hc, hs⟩ := hi.shapeHeld hnf w hl
          have hw : w ≠ w' := by intro hEq; subst hEq; rw [h] at hc; cases hc
          exact ⟨m, off, by simp only [setCur_other _ _ _ _ hw]; exact hc, hs⟩
        · intro hf; simp only at hf; rw [hnf] at hf; cases hf
    | progress w' k =>
      cases h : c.cur w' with
      | none => rw [step_progress_none both c w' k h]; exact hi
      | some p =>
        obtain ⟨m', off'⟩ := p
        obtain ⟨hmwf, hofflt⟩ := hi.curWf w' m' off' h
        by_cases hcw : canWrite both c w' = true
        · -- the lock is free or ours
          have hlock : c.lock = none ∨ c.lock = some w' := by
            simp only [canWrite, both, hnf] at hcw
            cases hl : c.lock with
            | none => exact Or.inl rfl
            | some x => right; simp [hl] at hcw; rw [hcw]
          -- the stream so far ends with `off'` bytes of our frame
          have hstream : c.stream = (c.done.map Message.toVec).flatten ++ m'.toVec.take off' := by
            rcases hlock with hl | hl
            · have h0 : off' = 0 := hi.idle hnf w' m' off' h (by rw [hl]; simp)
              rw [hi.shapeFree hnf hl, h0]; simp
            · obtain ⟨m2, off2, hc2, hs2⟩ := hi.shapeHeld hnf w' hl
              rw [h] at hc2; cases hc2; exact hs2
          -- nobody else is mid-frame
          have hothers : ∀ w m off, w ≠ w' → c.cur w = some (m, off) → off = 0 := by
            intro w m off hw hc
            apply hi.idle hnf w m off hc
            rcases hlock with hl | hl
            · rw [hl]; simp
            · rw [hl]; intro hEq; cases hEq; exact hw rfl
          have hnew : ∀ k', (c.stream ++ (Seg.mk m' off' k').bytes) =
              (c.done.map Message.toVec).flatten ++ m'.toVec.take (off' + k') := by
            intro k'
            rw [hstream, List.append_assoc]
            simp only [Seg.bytes]
            rw [take_extend]
          by_cases hcomp : off' + min k (m'.toVec.length - off') = m'.toVec.length
          · rw [step_progress_complete both c w' k m' off' h hcw hcomp]
            refine ⟨?_, ?_, ?_, ?_, ?_, ?_⟩
            · intro w m off hc
              simp only at hc
              by_cases hw : w = w'
              · subst hw; simp only [setCur_same] at hc; cases hc
              · simp only [setCur_other _ _ _ _ hw] at hc; exact hi.curWf w m off hc
            · intro m hm
              simp only [List.mem_append, List.mem_singleton] at hm
              rcases hm with hm | hm
              · exact hi.doneWf m hm
              · rw [hm]; exact hmwf
            · intro _ w m off hc _
              simp only at hc
              by_cases hw : w = w'
              · subst hw; simp only [setCur_same] at hc; cases hc
              · simp only [setCur_other _ _ _ _ hw] at hc; exact hothers w m off hw hc
            · intro _ _
              simp only [Conn.stream, stream_snoc]
              have := hnew (min k (m'.toVec.length - off'))
              simp only [Conn.stream] at this
              rw [this, hcomp, List.take_length]
              simp
            · intro _ w hl; simp at hl
            · intro hf; simp only at hf; rw [hnf] at hf; cases hf
          · rw [step_progress_partial both c w' k m' off' h hcw hcomp]
            have hk : min k (m'.toVec.length - off') ≤ m'.toVec.length - off' := Nat.min_le_right _ _
            refine ⟨?_, hi.doneWf, ?_, ?_, ?_, ?_⟩
            · intro w m off hc
              simp only at hc
              by_cases hw : w = w'
              · subst hw
                simp only [setCur_same] at hc
                cases hc
                exact ⟨hmwf, by omega⟩
              · simp only [setCur_other _ _ _ _ hw] at hc; exact hi.curWf w m off hc
            · intro _ w m off hc hl
              simp only at hc hl
              by_cases hw : w = w'
              · subst hw; exact absurd rfl hl
              · simp only [setCur_other _ _ _ _ hw] at hc; exact hothers w m off hw hc
            · intro _ hl; simp at hl
            · intro _ w hl
              simp only [Option.some.injEq] at hl
              subst hl
              refine ⟨m', off' + min k (m'.toVec.length - off'), by simp [setCur_same], ?_⟩
              simp only [Conn.stream, stream_snoc]
              have := hnew (min k (m'.toVec.length - off'))
              simpa [Conn.stream] using this
            · intro hf; simp only at hf; rw [hnf] at hf; cases hf
        · rw [step_progress_blocked both c w' k m' off' h hcw]; exact hi
    | interrupt w' =>
      cases h : c.cur w' with
      | none => rw [step_interrupt_none both c w' h]; exact hi
      | some p =>
        obtain ⟨m', off'⟩ := p
        rw [step_interrupt_some both c w' m' off' h]
        obtain ⟨hmwf, hofflt⟩ := hi.curWf w' m' off' h
        have hcur : ∀ w m off, setCur c.cur w' none w = some (m, off) → w ≠ w' ∧ c.cur w = some (m, off) := by
          intro w m off hc
          by_cases hw : w = w'
          · subst hw; simp [setCur_same] at hc
          · rw [setCur_other _ _ _ _ hw] at hc; exact ⟨hw, hc⟩
        by_cases hpos : off' > 0
        · -- bytes of the frame are on the wire: the connection is failed
          have hl : c.lock = some w' := by
            by_cases hl : c.lock = some w'
            · exact hl
            · have := hi.idle hnf w' m' off' h hl; omega
          obtain ⟨m2, off2, hc2, hs2⟩ := hi.shapeHeld hnf w' hl
          rw [h] at hc2; cases hc2
          refine ⟨?_, hi.doneWf, ?_, ?_, ?_, ?_⟩
          · intro w m off hc; exact hi.curWf w m off (hcur w m off hc).2
          · intro hf; simp [both, hpos] at hf
          · intro hf; simp [both, hpos] at hf
          · intro hf; simp [both, hpos] at hf
          · intro _; exact ⟨m', off', hmwf, hpos, hofflt, hs2⟩
        · have h0 : off' = 0 := by omega
          subst h0
          have hfl : (c.failed || (decide (0 > 0) && both.failOnInterrupt)) = false := by simp [hnf]
          refine ⟨?_, hi.doneWf, ?_, ?_, ?_, ?_⟩
          · intro w m off hc; exact hi.curWf w m off (hcur w m off hc).2
          · intro _ w m off hc hlk
            obtain ⟨hw, hc'⟩ := hcur w m off hc
            apply hi.idle hnf w m off hc'
            intro hEq
            apply hlk
            simp only
            rw [if_neg (by rw [hEq]; intro h2; cases h2; exact hw rfl), hEq]
          · intro _ hlk
            simp only at hlk
            by_cases hl : c.lock = some w'
            · obtain ⟨m2, off2, hc2, hs2⟩ := hi.shapeHeld hnf w' hl
              rw [h] at hc2; cases hc2
              simpa [Conn.stream] using hs2
            · rw [if_neg hl] at hlk; exact hi.shapeFree hnf hlk
          · intro _ w hlk
            simp only at hlk
            by_cases hl : c.lock = some w'
            · rw [if_pos hl] at hlk; cases hlk
            · rw [if_neg hl] at hlk
              obtain ⟨m2, off2, hc2, hs2⟩ := hi.shapeHeld hnf w hlk
              have hw : w ≠ w' := by intro hEq; subst hEq; exact hl hlk
              exact ⟨m2, off2, by simp only [setCur_other _ _ _ _ hw]; exact hc2, hs2⟩
          · intro hf; simp only at hf; rw [hfl] at hf; cases hf

theorem pat_length (tag len : Nat) : (pat tag len).length = len := by simp [pat]

theorem jpat_length (tag len : Nat) : (jpat tag len).length = len := by simp [jpat]

theorem lframe_body_length (f : LFrame) : f.body.length = f.blen := by
  unfold LFrame.body; split <;> simp [pat_length, jpat_length]

/-- The driver's described frames are exactly the `MessageBuilder` messages with the pattern body. -/
theorem lframe_is_message (f : LFrame) :
    f.bytes = f.message.toVec ∧ f.len = f.message.toVec.length := by
  constructor
  · simp [LFrame.bytes, LFrame.message, LFrame.header, Builder.build, Message.toVec,
      Header.patchLengths, lframe_body_length]
  · simp [LFrame.len, LFrame.message, Builder.build, Message.toVec, lframe_body_length]; omega

theorem lframe_wf (f : LFrame) (hid : f.id < 2^64) (hqf : f.qfmt < 2^16) (hbf : f.bfmt < 2^16)
    (hlen : 48 + f.query.length + f.blen < 2^64) : f.message.WF :=
  Builder.build_wf _ hid (by simp) (by simpa using hqf) (by simpa using hbf)
    (by simpa [lframe_body_length] using hlen)

/-! ### changing the representation of frames does not change the run -/

theorem setCur_map {F G : Type} (g : F → G) (cur : Nat → Option (F × Nat)) (w : Nat)
    (v : Option (F × Nat)) :
    (fun w' => (setCur cur w v w').map fun p => (g p.1, p.2)) =
      setCur (fun w' => (cur w').map fun p => (g p.1, p.2)) w (v.map fun p => (g p.1, p.2)) := by
  funext w'
  by_cases h : w' = w <;> simp [setCur, h]

theorem step_map {F G : Type} (g : F → G) (lenF : F → Nat) (lenG : G → Nat)
    (hlen : ∀ m, lenG (g m) = lenF m) (f : Facts) (c : Conn F) (e : Ev F) :
    (step lenF f c e).map g = step lenG f (c.map g) (e.map g) := by
  cases e with
  | submit w m =>
    cases h : c.cur w with
    | some p =>
      simp only [step, Ev.map, h, Conn.map, Option.map_some]
    | none =>
      simp only [step, Ev.map, h, Conn.map, Option.map_none]
      congr 1
      exact setCur_map g c.cur w (some (m, 0))
  | progress w k =>
    cases h : c.cur w with
    | none => simp only [step, Ev.map, h, Conn.map, Option.map_none]
    | some p =>
      obtain ⟨m, off⟩ := p
      have hcw : canWrite f (c.map g) w = canWrite f c w := rfl
      simp only [step, Ev.map, h, Conn.map, Option.map_some, hlen]
      change (Conn.map g _) = (if canWrite f (c.map g) w = true then _ else _)
      rw [hcw]
      by_cases hc : canWrite f c w = true
      · simp only [hc, if_true]
        by_cases hcomp : off + min k (lenF m - off) = lenF m
        · simp only [hcomp, if_true]
          simp only [Conn.map, List.map_append, List.map_cons, List.map_nil, Seg.map,
            setCur_map g c.cur w none, Option.map_none]
        · simp only [hcomp, if_false]
          simp only [Conn.map, List.map_append, List.map_cons, List.map_nil, Seg.map,
            setCur_map g c.cur w (some (m, off + min k (lenF m - off))), Option.map_some]
      · simp only [hc]
        rfl
  | interrupt w =>
    cases h : c.cur w with
    | none => simp only [step, Ev.map, h, Conn.map, Option.map_none]
    | some p =>
      obtain ⟨m, off⟩ := p
      simp only [step, Ev.map, h, Conn.map, Option.map_some]
      congr 1
      exact setCur_map g c.cur w none

theorem run_map {F G : Type} (g : F → G) (lenF : F → Nat) (lenG : G → Nat)
    (hlen : ∀ m, lenG (g m) = lenF m) (f : Facts) (evs : List (Ev F)) (c : Conn F) :
    (run lenF f evs c).map g = run lenG f (evs.map (Ev.map g)) (c.map g) := by
  induction evs generalizing c with
  | nil => rfl
  | cons e evs ih =>
    simp only [run, List.foldl_cons, List.map_cons] at ih ⊢
    rw [ih, step_map g lenF lenG hlen]

theorem streamWith_map {F G : Type} (g : F → G) (bytes : G → Bytes) (c : Conn F) :
    (c.map g).streamWith bytes = c.streamWith (fun m => bytes (g m)) := by
  simp [Conn.streamWith, Conn.map, Seg.map, List.map_map, Function.comp_def]

theorem stream_eq_streamWith (c : Conn Message) : c.stream = c.streamWith Message.toVec := by
  simp only [Conn.stream, Conn.streamWith]
  congr 1


theorem inv_run (evs : List (Ev Message)) (c : Conn Message) (hi : Inv c) (he : ∀ e ∈ evs, e.Wf) :
    Inv (run mlen both evs c) := by
  induction evs generalizing c with
  | nil => exact hi
  | cons e evs ih =>
    simp only [run, List.foldl_cons]
    exact ih (step mlen both c e) (inv_step c hi e (he e (by simp))) (fun e' h' => he e' (by simp [h']))

end Repe.WD
