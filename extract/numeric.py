"""Facts for Gen/Numeric.lean (C08): aligned marker constant, summands of the aligned body's base offset,
format guards of the bulk decoders and routes, and which bulk reader the decoders call."""
import re
from rustlex import *

GEN_FILE = "Numeric.lean"


def _drop_test_mods(stripped):
    """Remove every `#[cfg(test)] mod x { … }` block (message.rs has code after its test module)."""
    while True:
        m = re.search(r"#\[cfg\(test\)\]\s*mod\s+\w+\s*\{", stripped)
        if not m:
            return stripped
        j = match_brace(stripped, m.end() - 1)
        stripped = stripped[:m.start()] + stripped[j:]


def _reader_kind(call, helpers):
    """Classify the bulk reader named in `call`: the beve primitive, or the crate helper that also
    accepts serde's empty vector."""
    m = re.search(r"\b(beve::read_typed_slice|beve::read_complex_slice|read_typed_slice_body|read_complex_slice_body)\b", call)
    if not m:
        raise ExtractError(f"bulk reader not recognised in `{call}`")
    name = m.group(1)
    if name.startswith("beve::"):
        return "plain"
    if name not in helpers:
        raise ExtractError(f"helper {name} not recognised")
    return "empty_ok"


def extract():
    facts = {}
    msg = _drop_test_mods(strip(read("src/message.rs")))
    srv = _drop_test_mods(strip(read("src/server.rs")))
    consts = strip(read("src/constants.rs"))
    m = re.search(r"pub const HEADER_SIZE\s*:\s*usize\s*=\s*(\d+)\s*;", consts)
    if not m or int(m.group(1)) != 48:
        raise ExtractError("HEADER_SIZE is not 48")
    m = re.search(r"\bBeve\s*=\s*(\d+)", consts)
    if not m or int(m.group(1)) != 1:
        raise ExtractError("BodyFormat::Beve is not 1")

    # ---- marker constant and the dispatch on it
    m = re.search(r"const BEVE_ALIGNED_TYPED_ARRAY_MARKER\s*:\s*u8\s*=\s*(0x[0-9a-fA-F_]+|\d+)\s*;", srv)
    if not m:
        raise ExtractError("BEVE_ALIGNED_TYPED_ARRAY_MARKER")
    facts["marker"] = int(m.group(1).replace("_", ""), 0)
    body = " ".join(fn_body(srv, "decode_typed_slice_ref_body").split())
    shape = (r"if body\.first\(\) == Some\(&BEVE_ALIGNED_TYPED_ARRAY_MARKER\) \{ "
             r"match beve::read_aligned_typed_slice_ref::<T>\(body\) \{ "
             r"Ok\(slice\) => Ok\(SliceInput::Borrowed\(slice\)\), "
             r"Err\(_\) => Ok\(SliceInput::Owned\(beve::read_aligned_typed_slice::<T>\( body, \)\?\)\), \} "
             r"\} else \{ Ok\(SliceInput::Owned\((?P<reader>[\w:]+)::<T>\(body\)\?\)\) \}")
    m = re.fullmatch(shape, body)
    if not m:
        raise ExtractError("decode_typed_slice_ref_body: form not recognised")
    ref_reader = m.group("reader")

    # ---- helpers that also accept the empty generic array
    helpers = set()
    mc = re.search(r"const BEVE_EMPTY_GENERIC_ARRAY\s*:\s*\[u8;\s*2\]\s*=\s*\[\s*0x05\s*,\s*0x00\s*\]\s*;", msg)
    for name, prim in (("read_typed_slice_body", "read_typed_slice"), ("read_complex_slice_body", "read_complex_slice")):
        if not re.search(r"\bfn\s+" + name + r"\b", msg):
            continue
        hb = " ".join(fn_body(msg, name).split())
        if mc and re.fullmatch(r"if body == BEVE_EMPTY_GENERIC_ARRAY \{ return Ok\(Vec::new\(\)\); \} beve::" + prim + r"\(body\)", hb):
            helpers.add(name)
        else:
            raise ExtractError(f"{name}: form not recognised")

    # ---- Message::decode_typed_slice / decode_complex_slice
    imp = impl_block(msg, r"impl Message\s*\{")
    guards, readers = {}, []
    for fn, key in (("decode_typed_slice", "typedGuard"), ("decode_complex_slice", "complexGuard")):
        st = statements(fn_body(imp, fn))
        if len(st) == 2 and st[0] == "self.require_body_format(BodyFormat::Beve)?;":
            guards[key] = True
        elif len(st) == 1:
            guards[key] = False
        else:
            raise ExtractError(f"{fn}: statements not recognised: {st}")
        m = re.fullmatch(r"Ok\(([\w:]+)\(&self\.body\)\?\)", st[-1])
        if not m:
            raise ExtractError(f"{fn}: result expression `{st[-1]}`")
        readers.append(_reader_kind(m.group(1), helpers))
    rb = " ".join(fn_body(imp, "require_body_format").split())
    if not re.fullmatch(r"if self\.header\.body_format == expected as u16 \{ Ok\(\(\)\) \} else \{ Err\(RepeError::UnexpectedBodyFormat \{ expected, got: self\.header\.body_format, \}\) \}", rb):
        raise ExtractError("require_body_format: form not recognised")
    facts.update(guards)

    # ---- server-side format gates
    gates = []
    for fn, arg, rd in (("decode_typed_slice_param", r"req\.header\.body_format", r"(?P<reader>[\w:]+)\(&req\.body\)\?"),
                        ("decode_typed_slice_param_view", r"view\.header\.body_format", r"(?P<reader>[\w:]+)\(view\.body\)\?"),
                        ("decode_typed_slice_ref_param", r"body_format", r"decode_typed_slice_ref_body::<T>\(body\)\?")):
        b = " ".join(fn_body(srv, fn).split())
        m = re.fullmatch(r"match BodyFormat::try_from\(" + arg + r"\) \{ Ok\(BodyFormat::Beve\) => Ok\(Ok\(" + rd + r"\)\), _ => Ok\(Err\(.*\)\), \}", b)
        if m:
            gates.append(True)
            if "reader" in m.groupdict():
                readers.append(_reader_kind(m.group("reader"), helpers))
        elif "BodyFormat" not in b:
            gates.append(False)
            m2 = re.search(r"([\w:]*read_typed_slice\w*)\(", b)
            if m2:
                readers.append(_reader_kind(m2.group(1), helpers))
        else:
            raise ExtractError(f"{fn}: format gate not recognised")
    if len(set(gates)) != 1:
        raise ExtractError("server format gates differ between the three decoders")
    facts["serverGuards"] = gates[0]
    readers.append(_reader_kind(ref_reader, helpers))
    if len(set(readers)) != 1:
        raise ExtractError(f"bulk decoders disagree on the reader they call: {readers}")
    facts["emptyGeneric"] = readers[0] == "empty_ok"

    # ---- base offset of the aligned body
    bi = impl_block(msg, r"impl MessageBuilder\s*\{")
    ab = fn_body(bi, "body_aligned_typed_slice")
    m = re.search(r"let base_offset\s*=([^;]*);", ab)
    if not m:
        raise ExtractError("body_aligned_typed_slice: `let base_offset = …`")
    terms = []
    for t in [" ".join(x.split()) for x in m.group(1).split("+")]:
        if t == "HEADER_SIZE": terms.append("header")
        elif t == "self.query.len()": terms.append("query")
        elif re.fullmatch(r"\d+", t): terms.append(int(t))
        else: raise ExtractError(f"base_offset summand `{t}`")
    flat = " ".join(ab.split())
    if "beve::write_aligned_typed_slice_at(&mut body, slice, base_offset);" not in flat:
        raise ExtractError("body_aligned_typed_slice: writer call not recognised")
    facts["baseTerms"] = terms
    return facts


def render(f):
    b = lambda x: "true" if x else "false"
    term = lambda t: f".const {t}" if isinstance(t, int) else f".{t}"
    L = ["import RepeVerif.Model.Beve",
         "/-! GENERATED by /verif/extract/numeric.py from /repo (src/message.rs, src/server.rs, src/constants.rs). -/",
         "namespace Repe.Gen",
         "open Repe.Beve",
         "def numericFacts : Facts :=",
         f"  {{ marker := {f['marker']},",
         f"    baseTerms := [{', '.join(term(t) for t in f['baseTerms'])}],",
         f"    typedGuard := {b(f['typedGuard'])},",
         f"    complexGuard := {b(f['complexGuard'])},",
         f"    serverGuards := {b(f['serverGuards'])},",
         f"    emptyGeneric := {b(f['emptyGeneric'])} }}",
         "end Repe.Gen"]
    return "\n".join(L) + "\n"


if __name__ == "__main__":
    import json
    f = extract()
    print(json.dumps(f, indent=1))
    print(render(f))
