"""Facts for Gen/Numeric.lean (C08): aligned marker constant, summands of the aligned body's base offset,
format guards of the bulk decoders and routes, and which bulk reader the decoders call."""
import re, os
from rustlex import *

GEN_FILE = "Numeric.lean"


def _drop_test_mods(stripped):
    """Remove every `#[cfg(test)] mod x { … }` block (message.rs has code after its test module)."""
    while True:
        m = re.search(r"#\[cfg\(test\)\]\s*mod\s+\w+\s*\{", stripped)
        if not m:
            return stripped
        j = match_brace(stripped, m.end() - 1)
        stripped = stripped[:m.start()] + stripped[j:]


def norm(t):
    return " ".join(t.split())


def _reader_kind(call, helpers):
    """Classify the bulk reader named in `call`: the beve primitive, or the crate helper that also
    accepts serde's empty vector."""
    m = re.search(r"\b(beve::read_typed_slice|beve::read_complex_slice|read_typed_slice_body|read_complex_slice_body)\b", call)
    if not m:
        return "unknown"
    name = m.group(1)
    if name.startswith("beve::"):
        return "plain"
    if name not in helpers:
        return "unknown"
    return "empty_ok"


BEVE_DEFAULT = {"typeTypedArray": 4, "typeGenericArray": 5, "typeExtension": 6, "extComplex": 3, "arrayFloat": 0,
                "arraySigned": 1, "arrayUnsigned": 2, "arrayBoolOrString": 3, "alignedDiscriminator": 2,
                "sizeThresholds": [[6, 14, 30], [6, 14, 30], [6, 14, 30]],
                "impls": [[1, 0, 1], [1, 1, 2], [1, 2, 4], [1, 3, 8], [1, 4, 16], [2, 0, 1], [2, 1, 2], [2, 2, 4], [2, 3, 8], [2, 4, 16],
                          [0, 2, 4], [0, 3, 8], [0, 0, 2], [0, 1, 2]]}
SIZES = {"i8": 1, "u8": 1, "i16": 2, "u16": 2, "f16": 2, "bf16": 2, "i32": 4, "u32": 4, "f32": 4, "i64": 8, "u64": 8, "f64": 8, "i128": 16, "u128": 16}


def beve_facts():
    """Layout constants from the beve crate source named by /repo's Cargo.lock (recognised forms only)."""
    import glob
    lock = read("Cargo.lock")
    m = re.search(r'name = "beve"\nversion = "([^"]+)"', lock)
    if not m:
        raise ExtractError("beve not in Cargo.lock")
    dirs = sorted(glob.glob(os.path.expanduser(f"~/.cargo/registry/src/*/beve-{m.group(1)}/src")))
    if not dirs:
        raise ExtractError(f"beve-{m.group(1)} source not in the cargo registry")
    def src(name):
        with open(os.path.join(dirs[0], name), encoding="utf-8") as f:
            return _drop_test_mods(strip(f.read()))
    hdr, ali, siz, fast = src("header.rs"), src("aligned.rs"), src("size.rs"), src("fast.rs")
    def const(text, name):
        mm = re.search(r"const " + name + r"\s*:\s*u8\s*=\s*(\d+)\s*;", text)
        if not mm: raise ExtractError(f"beve const {name}")
        return int(mm.group(1))
    b = {"typeTypedArray": const(hdr, "TYPE_TYPED_ARRAY"), "typeGenericArray": const(hdr, "TYPE_GENERIC_ARRAY"),
         "typeExtension": const(hdr, "TYPE_EXTENSION"), "extComplex": const(hdr, "EXT_COMPLEX"),
         "arrayFloat": const(hdr, "ARRAY_FLOAT"), "arraySigned": const(hdr, "ARRAY_SIGNED"),
         "arrayUnsigned": const(hdr, "ARRAY_UNSIGNED"), "arrayBoolOrString": const(hdr, "ARRAY_BOOL_OR_STRING"),
         "alignedDiscriminator": const(ali, "ALIGNED_DISCRIMINATOR")}
    mh = " ".join(fn_body(hdr, "make_header").split())
    if mh != "(byte_count_code << 5) | ((subtype & 0b11) << 3) | (ty & 0b111)":
        raise ExtractError("beve make_header: form not recognised")
    pf = " ".join(fn_body(ali, "padding_for").split())
    if pf != "let offset_after_padding_length = padding_length_offset + 1; (align - (offset_after_padding_length % align)) % align":
        raise ExtractError("beve padding_for: form not recognised")
    am = " ".join(fn_body(ali, "aligned_marker_header").split())
    if am != "make_header( TYPE_TYPED_ARRAY, ARRAY_BOOL_OR_STRING, ALIGNED_DISCRIMINATOR, )":
        raise ExtractError("beve aligned_marker_header: form not recognised")
    b["sizeThresholds"] = [[int(x) for x in re.findall(r"n < \(1 << (\d+)\)", fn_body(siz, fn))] for fn in ("write_size", "size_encoded_len", "encode_size_to_array")]
    cls = {"ARRAY_FLOAT": b["arrayFloat"], "ARRAY_SIGNED": b["arraySigned"], "ARRAY_UNSIGNED": b["arrayUnsigned"]}
    impls = []
    for t, c, k in re.findall(r"impl_beve_typed_int!\((\w+), (\w+), (\d+)\);", fast):
        impls.append([cls[c], int(k), SIZES[t]])
    for t, c, k in re.findall(r"impl BeveTypedSlice for (\w+) \{\s*const CLASS: u8 = (\w+);\s*const BYTE_CODE: u8 = (\d+);", fast):
        impls.append([cls[c], int(k), SIZES[t]])
    if not impls:
        raise ExtractError("beve BeveTypedSlice impls not found")
    b["impls"] = impls
    return b


def extract():
    """Functions that cannot be found at all raise ExtractError (whole fallback to the committed facts: a
    moved / renamed anchor is not an alarm).  A function that is found but whose form *at the spot the
    property depends on* is not one of the recognised ones is recorded in `unrecognised` (the theorem
    `anchors_recognised` then fails) and the committed value is used for that fact."""
    facts = {}
    unrec = []
    try:
        facts["beve"] = beve_facts()
        facts["beveSource"] = "read"
    except Exception as ex:  # fail soft: the dependency's layout is then tied by the correspondence alone
        facts["beve"] = dict(BEVE_DEFAULT)
        facts["beveSource"] = f"unavailable ({type(ex).__name__}: {ex}); committed constants used"
    msg = _drop_test_mods(strip(read("src/message.rs")))
    srv = _drop_test_mods(strip(read("src/server.rs")))
    consts = strip(read("src/constants.rs"))
    m = re.search(r"pub const HEADER_SIZE\s*:\s*usize\s*=\s*(\d+)\s*;", consts)
    if not m or int(m.group(1)) != 48:
        raise ExtractError("HEADER_SIZE is not 48")
    m = re.search(r"\bBeve\s*=\s*(\d+)", consts)
    if not m or int(m.group(1)) != 1:
        raise ExtractError("BodyFormat::Beve is not 1")

    # ---- marker constant and the dispatch on it
    m = re.search(r"const BEVE_ALIGNED_TYPED_ARRAY_MARKER\s*:\s*u8\s*=\s*(0x[0-9a-fA-F_]+|\d+)\s*;", srv)
    if not m:
        raise ExtractError("BEVE_ALIGNED_TYPED_ARRAY_MARKER")
    facts["marker"] = int(m.group(1).replace("_", ""), 0)
    body = " ".join(fn_body(srv, "decode_typed_slice_ref_body").split())
    shape = (r"if body\.first\(\) == Some\(&BEVE_ALIGNED_TYPED_ARRAY_MARKER\) \{ "
             r"match beve::read_aligned_typed_slice_ref::<T>\(body\) \{ "
             r"Ok\(slice\) => Ok\(SliceInput::Borrowed\(slice\)\), "
             r"Err\(_\) => Ok\(SliceInput::Owned\(beve::read_aligned_typed_slice::<T>\( body, \)\?\)\), \} "
             r"\} else \{ Ok\(SliceInput::Owned\((?P<reader>[\w:]+)::<T>\(body\)\?\)\) \}")
    m = re.fullmatch(shape, body)
    if not m:
        unrec.append("decode_typed_slice_ref_body")
    ref_reader = m.group("reader") if m else None

    # ---- helpers that also accept the empty generic array
    helpers = set()
    mc = re.search(r"const BEVE_EMPTY_GENERIC_ARRAY\s*:\s*\[u8;\s*2\]\s*=\s*\[\s*0x05\s*,\s*0x00\s*\]\s*;", msg)
    for name, prim in (("read_typed_slice_body", "read_typed_slice"), ("read_complex_slice_body", "read_complex_slice")):
        if not re.search(r"\bfn\s+" + name + r"\b", msg):
            continue
        hb = " ".join(fn_body(msg, name).split())
        if mc and re.fullmatch(r"if body == BEVE_EMPTY_GENERIC_ARRAY \{ return Ok\(Vec::new\(\)\); \} beve::" + prim + r"\(body\)", hb):
            helpers.add(name)
        else:
            unrec.append(name)

    # ---- Message::decode_typed_slice / decode_complex_slice
    imp = impl_block(msg, r"impl Message\s*\{")
    guards, readers = {}, []
    for fn, key in (("decode_typed_slice", "typedGuard"), ("decode_complex_slice", "complexGuard")):
        st = statements(fn_body(imp, fn))
        if len(st) == 2 and st[0] == "self.require_body_format(BodyFormat::Beve)?;":
            guards[key] = True
        elif len(st) == 1:
            guards[key] = False
        else:
            unrec.append(fn + ": statements")
            guards[key] = True
        m = re.fullmatch(r"Ok\(([\w:]+)\(&self\.body\)\?\)", st[-1])
        if not m:
            unrec.append(fn + ": result expression")
        else:
            readers.append(_reader_kind(m.group(1), helpers))
    rb = " ".join(fn_body(imp, "require_body_format").split())
    if not re.fullmatch(r"if (self\.header\.body_format == expected as u16|expected as u16 == self\.header\.body_format|self\.header\.body_format == u16::from\(expected\)) \{ Ok\(\(\)\) \} else \{ Err\(RepeError::UnexpectedBodyFormat \{ expected, got: self\.header\.body_format,? \}\) \}", rb):
        unrec.append("require_body_format")
    facts.update(guards)

    # ---- server-side format gates
    gates = []
    for fn, arg, rd in (("decode_typed_slice_param", r"req\.header\.body_format", r"(?P<reader>[\w:]+)\(&req\.body\)\?"),
                        ("decode_typed_slice_param_view", r"view\.header\.body_format", r"(?P<reader>[\w:]+)\(view\.body\)\?"),
                        ("decode_typed_slice_ref_param", r"body_format", r"decode_typed_slice_ref_body::<T>\(body\)\?")):
        b = " ".join(fn_body(srv, fn).split())
        m = re.fullmatch(r"match BodyFormat::try_from\(" + arg + r"\) \{ Ok\(BodyFormat::Beve\) => Ok\(Ok\(" + rd + r"\)\), _ => Ok\(Err\(.*\)\), \}", b)
        if m:
            gates.append(True)
            if "reader" in m.groupdict():
                readers.append(_reader_kind(m.group("reader"), helpers))
        elif "BodyFormat" not in b:
            gates.append(False)
            m2 = re.search(r"([\w:]*read_typed_slice\w*)\(", b)
            if m2:
                readers.append(_reader_kind(m2.group(1), helpers))
        else:
            unrec.append(fn + ": format gate")
            gates.append(True)
    if len(set(gates)) != 1:
        unrec.append("server format gates differ between the three decoders")
    facts["serverGuards"] = all(gates)
    if ref_reader is not None:
        readers.append(_reader_kind(ref_reader, helpers))
    if "unknown" in readers or len(set(readers)) != 1:
        unrec.append(f"bulk decoders: readers {sorted(set(readers))}")
    facts["emptyGeneric"] = bool(readers) and all(r == "empty_ok" for r in readers)

    # ---- the two route handlers: decode through the gate, call the closure once, frame with the bulk builder
    want = {
        ("TypedSliceHandler", "handle"): "let input: Vec<T> = match decode_typed_slice_param(req)? { Ok(v) => v, Err(err) => return Ok(err), }; match (self.0)(input) { Ok(out) => Ok(create_typed_slice_response_unstamped(req, &out)), Err((code, msg)) => Ok(create_error_response_like(req, code, msg)), }",
        ("TypedSliceHandler", "handle_view"): "let input: Vec<T> = match decode_typed_slice_param_view(view)? { Ok(v) => v, Err(err) => return Ok(err), }; match (self.0)(input) { Ok(out) => Ok(create_typed_slice_response_unstamped_view(view, &out)), Err((code, msg)) => Ok(create_error_response_unstamped_view(view, code, msg)), }",
        ("TypedSliceRefHandler", "handle"): "let input = match decode_typed_slice_ref_param::<T>(req.header.body_format, &req.body, || { create_error_response_like( req, ErrorCode::InvalidBody, \" \", ) })? { Ok(v) => v, Err(err) => return Ok(err), }; match (self.0)(input.as_slice()) { Ok(out) => Ok(create_typed_slice_response_unstamped(req, &out)), Err((code, msg)) => Ok(create_error_response_like(req, code, msg)), }",
        ("TypedSliceRefHandler", "handle_view"): "let input = match decode_typed_slice_ref_param::<T>(view.header.body_format, view.body, || { create_error_response_unstamped_view( view, ErrorCode::InvalidBody, \" \", ) })? { Ok(v) => v, Err(err) => return Ok(err), }; match (self.0)(input.as_slice()) { Ok(out) => Ok(create_typed_slice_response_unstamped_view(view, &out)), Err((code, msg)) => Ok(create_error_response_unstamped_view(view, code, msg)), }",
    }
    for (ty, fn), shape in want.items():
        ib = impl_block(srv, r"impl<T, R, F> HandlerErased for " + ty + r"<T, R, F>")
        got = norm(fn_body(ib, fn))
        got = re.sub(r'"\s*"', '" "', got)
        if got != shape:
            unrec.append(f"{ty}::{fn}")

    # ---- the streaming writers: format stamped, closed-form length, the beve writer handed the sink itself
    io = _drop_test_mods(strip(read("src/io.rs")))
    for fn, size_fn, wr in (("write_message_typed_slice", "typed_slice_size", "to_writer_typed_slice"),
                            ("write_message_complex_slice", "complex_slice_size", "to_writer_complex_slice")):
        b = norm(fn_body(io, fn))
        shape = (r"header\.body_format = (crate::constants::)?BodyFormat::Beve as u16; "
                 r"let body_len(: u64)? = beve::" + size_fn + r"\(slice\); "
                 r"write_message_streaming\(w, header, query, body_len, \|w\| (\{ )?beve::" + wr + r"\(w, slice\)( \})?\)")
        if not re.fullmatch(shape, b):
            unrec.append(fn)
    b = norm(fn_body(io, "write_message_streaming"))
    shape = (r"header\.query_length = query\.len\(\) as u64; header\.body_length = body_len; "
             r"header\.length = \(HEADER_SIZE as u64\) \+ header\.query_length \+ body_len; "
             r"w\.write_all\(&header\.encode\(\)\)\?; if !query\.is_empty\(\) \{ w\.write_all\(query\)\?; \} "
             r"body_writer\(w\)\.map_err\(Into::into\)\?; Ok\(\(\)\)")
    if not re.fullmatch(shape, b):
        unrec.append("write_message_streaming")

    # ---- no timer / sleep / retry arm inside the functions the property depends on (none has one today)
    timer = re.compile(r"\b(sleep|Instant|Duration|elapsed|timeout|retry|retries|backoff|deadline)\b", re.I)
    for src, names in ((msg, ("body_typed_slice", "body_complex_slice", "body_aligned_typed_slice", "decode_typed_slice",
                              "decode_complex_slice", "require_body_format", "into_wire_bytes")),
                       (io, ("write_message_streaming", "write_message_typed_slice", "write_message_complex_slice")),
                       (srv, ("decode_typed_slice_param", "decode_typed_slice_param_view", "decode_typed_slice_ref_body",
                              "decode_typed_slice_ref_param"))):
        for fn in names:
            try:
                b = fn_body(src, fn)
            except ExtractError:
                continue
            if timer.search(b):
                unrec.append(f"{fn}: a timer / sleep / retry arm")

    # ---- base offset of the aligned body
    bi = impl_block(msg, r"impl MessageBuilder\s*\{")
    ab = fn_body(bi, "body_aligned_typed_slice")
    flat = " ".join(ab.split())
    terms = None
    mw = re.search(r"beve::write_aligned_typed_slice_at\(&mut (\w+), slice, ([^;]*)\);", flat)
    if mw:
        expr = mw.group(2).strip()
        if re.fullmatch(r"\w+", expr) and not re.fullmatch(r"\d+|HEADER_SIZE", expr):
            ml = re.search(r"let " + expr + r"(?:\s*:\s*usize)?\s*=([^;]*);", flat)
            expr = ml.group(1).strip() if ml else None
        if expr is not None:
            terms = []
            for t in [" ".join(x.split()) for x in expr.split("+")]:
                if t in ("HEADER_SIZE", "crate::constants::HEADER_SIZE"): terms.append("header")
                elif t in ("self.query.len()", "self.query.as_slice().len()"): terms.append("query")
                elif re.fullmatch(r"\d+", t): terms.append(int(t))
                else:
                    terms = None
                    break
    if terms is None:
        unrec.append("body_aligned_typed_slice: base offset")
        terms = ["header", "query"]
    facts["baseTerms"] = terms

    # ---- response side
    rb = [" ".join(fn_body(msg, fn).split()) for fn in ("create_typed_slice_response_unstamped", "create_typed_slice_response_unstamped_view")]
    if all(re.fullmatch(r"response_header_builder\((request|view)\.header\.id, (request|view)\.header\.query_format\) \.body_typed_slice\(result\) \.build\(\)", b) for b in rb):
        facts["respBulk"] = True
    elif any("body_typed_slice" not in b for b in rb):
        facts["respBulk"] = False
    else:
        unrec.append("create_typed_slice_response_unstamped")
        facts["respBulk"] = True

    # ---- client entry points (pessimistic on anything that is not the recognised order / helper)
    for key, file, imp_re in (("syncClient", "src/client.rs", r"impl Client\s*\{"), ("asyncClient", "src/async_client.rs", r"impl AsyncClient\s*\{")):
        src = _drop_test_mods(strip(read(file)))
        imp = impl_block(src, imp_re)
        cb = " ".join(fn_body(imp, "call_with_body_and_timeout").split())
        iq, ib = cb.find(".query_str("), cb.find("body_fn(")
        if iq < 0 or ib < 0:
            unrec.append(f"{file}: call_with_body_and_timeout: builder steps")
        # the query is on the builder when the body closure runs only if it is set textually first and
        # the closure is applied to that builder
        qfirst = iq < ib and re.search(r"body_fn\(builder\)", cb) is not None
        helper_form = {}
        for h in ("call_typed_slice_with_optional_timeout", "call_typed_slice_aligned_with_optional_timeout"):
            hb = " ".join(fn_body(imp, h).split())
            m = re.search(r"\|builder\| Ok\(builder\.(body_typed_slice|body_aligned_typed_slice)\(body\)\)", hb)
            if not m:
                unrec.append(f"{file}: {h}: closure")
                helper_form[h] = "aligned" if "aligned" in h else "regular"
                continue
            helper_form[h] = "aligned" if m.group(1) == "body_aligned_typed_slice" else "regular"
        def entry(fn):
            eb = " ".join(fn_body(imp, fn).split())
            m = re.search(r"self\s*\.\s*(call_typed_slice(?:_aligned)?_with_optional_timeout)\(", eb)
            if not m:
                unrec.append(f"{file}: {fn}: helper call")
                return "aligned" if "aligned" in fn else "regular"
            return helper_form[m.group(1)]
        facts[key] = {"queryFirst": qfirst,
                      "bulkPlain": entry("call_typed_slice"), "bulkTimeout": entry("call_typed_slice_with_timeout"),
                      "alignedPlain": entry("call_typed_slice_aligned"), "alignedTimeout": entry("call_typed_slice_aligned_with_timeout")}
    facts["unrecognised"] = unrec
    return facts


def render(f):
    b = lambda x: "true" if x else "false"
    term = lambda t: f".const {t}" if isinstance(t, int) else f".{t}"
    client = lambda c: ("{ queryFirst := %s, bulkPlain := .%s, bulkTimeout := .%s, alignedPlain := .%s, alignedTimeout := .%s }"
                        % (b(c["queryFirst"]), c["bulkPlain"], c["bulkTimeout"], c["alignedPlain"], c["alignedTimeout"]))
    L = ["import RepeVerif.Model.Beve",
         "/-! GENERATED by /verif/extract/numeric.py from /repo (src/message.rs, src/server.rs, src/constants.rs). -/",
         "namespace Repe.Gen",
         "open Repe.Beve",
         "def numericFacts : Facts :=",
         f"  {{ marker := {f['marker']},",
         f"    baseTerms := [{', '.join(term(t) for t in f['baseTerms'])}],",
         f"    typedGuard := {b(f['typedGuard'])},",
         f"    complexGuard := {b(f['complexGuard'])},",
         f"    serverGuards := {b(f['serverGuards'])},",
         f"    emptyGeneric := {b(f['emptyGeneric'])},",
         f"    respBulk := {b(f['respBulk'])},",
         f"    syncClient := {client(f['syncClient'])},",
         f"    asyncClient := {client(f['asyncClient'])},",
         "    unrecognised := [" + ", ".join('"' + u.replace('"', "'") + '"' for u in f["unrecognised"]) + "] }",
         "def beveFacts : BeveFacts :=",
         "  { " + ", ".join(f"{k} := {f['beve'][k]}" for k in ("typeTypedArray", "typeGenericArray", "typeExtension", "extComplex", "arrayFloat", "arraySigned", "arrayUnsigned", "arrayBoolOrString", "alignedDiscriminator")) + ",",
         "    sizeThresholds := " + str(f["beve"]["sizeThresholds"]).replace(" ", "") + ",",
         "    impls := [" + ", ".join("(%d, %d, %d)" % tuple(i) for i in f["beve"]["impls"]) + "] }",
         "end Repe.Gen"]
    return "\n".join(L) + "\n"


if __name__ == "__main__":
    import json
    f = extract()
    print(json.dumps(f, indent=1))
    print(render(f))
