"""Facts for Gen/Svs.lean (C09) from src/value_stream.rs. Placeholder: real extractor follows."""
from rustlex import *
GEN_FILE = "Svs.lean"
def extract():
    raise ExtractError("not yet implemented")
def render(f):
    return ""
