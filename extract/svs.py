"""Facts for Gen/Svs.lean (C09) read off src/value_stream.rs: the chunk-full test of ChunkSink::write, whether
Write::flush emits, the flush_remaining guard, what produce sends on failure, the done/remove discipline of
NextHandler, the `last` byte on the wire and its two client-side tests, the empty-body guard of the async pull
loop, the format tag of each producer registration, the three routes."""
import re
from rustlex import *

GEN_FILE = "Svs.lean"
CMP = {">=": "ge", ">": "gt", "==": "eq"}


def _ws(s):
    return " ".join(s.split())


def extract():
    raw = read("src/value_stream.rs")
    src = test_mod_cut(strip(raw))
    f = {}
    # --- ChunkSink -------------------------------------------------------------------------------
    wimpl = impl_block(src, r"impl\s+Write\s+for\s+ChunkSink\s*\{")
    wbody = _ws(fn_body(wimpl, "write"))
    m = re.search(r"if self\.buf\.len\(\) (>=|>|==) self\.chunk_bytes \{ self\.send_chunk\(\)\?; \}", wbody)
    if not m: raise ExtractError("ChunkSink::write: chunk-full test")
    f["sinkFull"] = CMP[m.group(1)]
    if not re.search(r"let space = self\.chunk_bytes - self\.buf\.len\(\); let take = space\.min\(data\.len\(\)\); "
                     r"self\.buf\.extend_from_slice\(&data\[\.\.take\]\); data = &data\[take\.\.\];", wbody):
        raise ExtractError("ChunkSink::write: loop body")
    fl = statements(fn_body(wimpl, "flush"))
    if fl == ["Ok(())"]: f["flushEmits"] = False
    elif any("send_chunk" in s or "flush_remaining" in s for s in fl): f["flushEmits"] = True
    else: raise ExtractError(f"ChunkSink::flush: {fl}")
    simpl = impl_block(src, r"impl\s+ChunkSink\s*\{")
    fr = _ws(fn_body(simpl, "flush_remaining"))
    if fr == "if self.buf.is_empty() { Ok(()) } else { self.send_chunk() }": f["flushRemainingSkipsEmpty"] = True
    elif fr == "self.send_chunk()": f["flushRemainingSkipsEmpty"] = False
    else: raise ExtractError(f"flush_remaining: {fr}")
    sc = _ws(fn_body(simpl, "send_chunk"))
    if not re.search(r"let chunk = std::mem::replace\(&mut self\.buf, Vec::with_capacity\(self\.chunk_bytes\)\); "
                     r"self\.tx \.send\(Msg::Chunk\(chunk\)\)", sc):
        raise ExtractError(f"send_chunk: {sc}")
    # --- produce ----------------------------------------------------------------------------------
    pb = _ws(fn_body(src, "produce"))
    if "Ok(()) => tx.send(Msg::End)" not in pb: raise ExtractError("produce: Ok arm")
    if re.search(r"Err\(\w+\) => tx\.send\(Msg::Fail\(", pb): f["failSendsFail"] = True
    elif re.search(r"Err\(\w+\) => tx\.send\(Msg::End\)", pb): f["failSendsFail"] = False
    else: raise ExtractError("produce: Err arm")
    if not re.search(r"sink\.flush_remaining\(\) \}\)\(\);", pb): raise ExtractError("produce: flush_remaining is the closure's result")
    # --- Session::pull / Session::recv, arm by arm ----------------------------------------------------
    ses = impl_block(src, r"impl\s+Session\s*\{")
    pb2 = _ws(fn_body(ses, "pull"))
    m = re.fullmatch(r"let current = match self\.lookahead\.take\(\) \{ Some\(c\) => c, None => match self\.recv\(\) \{ "
                     r"Msg::Chunk\(c\) => (.*?), Msg::End => (.*?), Msg::Fail\(e\) => (.*?), \}, \}; "
                     r"match self\.recv\(\) \{ Msg::Chunk\(next\) => (.*?) Msg::End => (.*?), Msg::Fail\(e\) => (.*?), \}", pb2)
    if not m: raise ExtractError("Session::pull: shape")
    FIRST = {"c": "hold", "return Ok((Vec::new(), true))": "emptyLast", "return Err(e)": "err"}
    PEEK = {"{ self.lookahead = Some(next); Ok((current, false)) }": "more", "{ Ok((current, false)) }": "moreDrop",
            "Ok((current, false))": "moreDrop", "Ok((current, true))": "last", "Err(e)": "err",
            "{ let _ = next; Ok((current, false)) }": "moreDrop"}
    f["pull"] = {"lookaheadFirst": True,
                 "firstChunk": FIRST.get(m.group(1), "other"), "firstEnd": FIRST.get(m.group(2), "other"),
                 "firstFail": FIRST.get(m.group(3), "other"),
                 "peekChunk": PEEK.get(m.group(4).strip(), "other"), "peekEnd": PEEK.get(m.group(5), "other"),
                 "peekFail": PEEK.get(m.group(6), "other")}
    rv = _ws(fn_body(ses, "recv"))
    if re.fullmatch(r'self\.rx\.recv\(\)\.unwrap_or_else\(\|_\| \{ Msg::Fail\(" "\.to_string\(\)\) \}\)', rv): f["pull"]["closeIsFail"] = True
    elif re.fullmatch(r"self\.rx\.recv\(\)\.unwrap_or_else\(\|_\| \{ Msg::End \}\)", rv) or rv == "self.rx.recv().unwrap_or(Msg::End)": f["pull"]["closeIsFail"] = False
    else: raise ExtractError(f"Session::recv: {rv}")
    # --- NextHandler ------------------------------------------------------------------------------
    nimpl = impl_block(src, r"impl\s+HandlerErased\s+for\s+NextHandler\s*\{")
    nb = _ws(fn_body(nimpl, "handle"))
    ipull = nb.find("guard.pull()")
    if ipull < 0: raise ExtractError("NextHandler: guard.pull()")
    m = re.search(r"if guard\.done \{ Err\([^{}]*\) \} else \{", nb)
    f["doneChecked"] = bool(m and m.end() <= ipull)
    m = re.search(r"if matches!\(pulled, ([^;{}]*?)\) \{ guard\.done = true; \}", nb)
    arms = [a.strip() for a in m.group(1).split("|")] if m else []
    for a in arms:
        if a not in ("Ok((_, true))", "Err(_)"): raise ExtractError(f"NextHandler: done arm {a}")
    f["doneOnLast"] = "Ok((_, true))" in arms
    f["doneOnErr"] = "Err(_)" in arms
    mo = re.search(r"match outcome \{ Ok\(\(chunk, last\)\) => \{(.*?)Ok\(chunk_response\(req, chunk, last\)\) \} Err\(msg\) => \{(.*?)Ok\(error_like\(", nb)
    if not mo: raise ExtractError("NextHandler: outcome match")
    okarm, errarm = mo.group(1).strip(), mo.group(2).strip()
    if okarm == "if last { self.table.remove(next.stream_id); }": f["removeOnLast"] = True
    elif okarm == "": f["removeOnLast"] = False
    else: raise ExtractError(f"NextHandler: ok arm {okarm}")
    if errarm == "self.table.remove(next.stream_id);": f["removeOnErr"] = True
    elif errarm == "": f["removeOnErr"] = False
    else: raise ExtractError(f"NextHandler: err arm {errarm}")
    # --- last byte ---------------------------------------------------------------------------------
    cr = _ws(fn_body(src, "chunk_response"))
    if ".query_bytes(vec![last as u8])" in cr: f["lastByte"] = 1
    else: raise ExtractError("chunk_response: query bytes")
    rimpl = impl_block(src, r"impl<'a>\s+ChunkReader<'a>\s*\{")
    m = re.search(r"let last = resp\.query\.first\(\)\.copied\(\) == Some\((\d+)\);", _ws(fn_body(rimpl, "fetch")))
    if not m: raise ExtractError("ChunkReader::fetch: last test")
    f["syncLastIs"] = int(m.group(1))
    al = _ws(fn_body(src, "pull_loop_async"))
    m = re.search(r"let last = resp\.query\.first\(\)\.copied\(\) == Some\((\d+)\);", al)
    if not m: raise ExtractError("pull_loop_async: last test")
    f["asyncLastIs"] = int(m.group(1))
    if "if !resp.body.is_empty() && tx.send(resp.body).await.is_err()" in al: f["asyncSkipsEmpty"] = True
    elif "if tx.send(resp.body).await.is_err()" in al: f["asyncSkipsEmpty"] = False
    else: raise ExtractError("pull_loop_async: forward test")
    if not re.search(r"if last \{ return Ok\(\(\)\); \}", al): raise ExtractError("pull_loop_async: stop on last")
    # --- formats, routes ---------------------------------------------------------------------------
    consts = strip(read("src/constants.rs"))
    m = re.search(r"pub enum BodyFormat\s*\{([^}]*)\}", consts)
    if not m: raise ExtractError("enum BodyFormat")
    bf = {k: int(v) for k, v in re.findall(r"(\w+)\s*=\s*(\d+)", m.group(1))}
    eimpl = impl_block(src, r"impl\s+RouterValueStreamExt\s+for\s+Router\s*\{")
    fmts = []
    for name, fn in [("value", "with_value_stream"), ("typed", "with_typed_value_stream"),
                     ("complex", "with_complex_value_stream"), ("reader", "with_reader_stream")]:
        b = _ws(fn_body(eimpl, fn))
        m = re.search(r"BodyFormat::(\w+) as u16, opts,? \)$", b)
        if not m or m.group(1) not in bf: raise ExtractError(f"{fn}: format tag")
        fmts.append((name, bf[m.group(1)]))
    f["formats"] = sorted(fmts)
    routes = []
    for c in ("ROUTE_OPEN", "ROUTE_NEXT", "ROUTE_CANCEL"):
        m = re.search(r'pub const ' + c + r': &str = "([^"]*)";', raw)
        if not m: raise ExtractError(c)
        routes.append(m.group(1))
    f["routes"] = routes
    return f


def render(f):
    b = lambda x: "true" if x else "false"
    L = ["import RepeVerif.Model.Svs",
         "/-! GENERATED by /verif/extract/svs.py from /repo (src/value_stream.rs). -/",
         "namespace Repe.Gen",
         "def svsFacts : Repe.Svs.Facts :=",
         f"  {{ sinkFull := .{f['sinkFull']}, flushEmits := {b(f['flushEmits'])}, flushRemainingSkipsEmpty := {b(f['flushRemainingSkipsEmpty'])}, failSendsFail := {b(f['failSendsFail'])},",
         f"    doneChecked := {b(f['doneChecked'])}, doneOnLast := {b(f['doneOnLast'])}, doneOnErr := {b(f['doneOnErr'])}, removeOnLast := {b(f['removeOnLast'])}, removeOnErr := {b(f['removeOnErr'])},",
         f"    lastByte := {f['lastByte']}, syncLastIs := {f['syncLastIs']}, asyncLastIs := {f['asyncLastIs']}, asyncSkipsEmpty := {b(f['asyncSkipsEmpty'])} }}",
         "def svsPull : Repe.Svs.PullFacts :=",
         f"  {{ lookaheadFirst := {b(f['pull']['lookaheadFirst'])}, firstChunk := .{f['pull']['firstChunk']}, firstEnd := .{f['pull']['firstEnd']}, firstFail := .{f['pull']['firstFail']},",
         f"    peekChunk := .{f['pull']['peekChunk']}, peekEnd := .{f['pull']['peekEnd']}, peekFail := .{f['pull']['peekFail']}, closeIsFail := {b(f['pull']['closeIsFail'])} }}",
         "def svsFormats : List (String × Nat) := [" + ", ".join(f'("{k}", {v})' for k, v in f["formats"]) + "]",
         "def svsRoutes : List String := [" + ", ".join(f'"{r}"' for r in f["routes"]) + "]",
         "end Repe.Gen"]
    return "\n".join(L) + "\n"


if __name__ == "__main__":
    import json
    f = extract(); print(json.dumps(f, indent=1)); print(render(f))
