"""Facts for Gen/Svs.lean (C09) read off src/value_stream.rs: the chunk-full test of ChunkSink::write, whether
Write::flush emits, the flush_remaining guard, what produce sends on failure, the done/remove discipline of
NextHandler, the `last` byte on the wire and its two client-side tests, the empty-body guard of the async pull
loop, the format tag of each producer registration, the three routes."""
import re
from rustlex import *

GEN_FILE = "Svs.lean"
CMP = {">=": "ge", ">": "gt", "==": "eq"}


def _ws(s):
    return " ".join(s.split())


def extract():
    raw = read("src/value_stream.rs")
    src = test_mod_cut(strip(raw))
    f = {}
    # Forms of the property-relevant statements that are not recognised are NOT a reason to fall back to the
    # committed defaults (that would hide exactly the dangerous rewrites): the fact keeps its specification value so
    # the model still runs, and the statement is listed here; `C09.source_forms_recognised` demands the list be empty.
    unrec = []
    f["unrecognised"] = unrec
    # --- ChunkSink -------------------------------------------------------------------------------
    wimpl = impl_block(src, r"impl\s+Write\s+for\s+ChunkSink\s*\{")
    wbody = _ws(fn_body(wimpl, "write"))
    m = re.search(r"if self\.buf\.len\(\) (>=|>|==) self\.chunk_bytes \{ self\.send_chunk\(\)\?; \}", wbody)
    m2 = re.search(r"if self\.chunk_bytes (<=|<|==) self\.buf\.len\(\) \{ self\.send_chunk\(\)\?; \}", wbody)
    if m: f["sinkFull"] = CMP[m.group(1)]
    elif m2: f["sinkFull"] = {"<=": "ge", "<": "gt", "==": "eq"}[m2.group(1)]
    else: f["sinkFull"] = "ge"; unrec.append("ChunkSink::write: chunk-full test")
    if not re.search(r"let (\w+) = self\.chunk_bytes - self\.buf\.len\(\); let (\w+) = (?:\1\.min\(data\.len\(\)\)|data\.len\(\)\.min\(\1\)|std::cmp::min\(\1, data\.len\(\)\)|std::cmp::min\(data\.len\(\), \1\)); "
                     r"self\.buf\.extend_from_slice\(&data\[\.\.\2\]\); data = &data\[\2\.\.\];", wbody):
        unrec.append("ChunkSink::write: loop body")
    fl = statements(fn_body(wimpl, "flush"))
    if fl == ["Ok(())"]: f["flushEmits"] = False
    elif any("send_chunk" in s or "flush_remaining" in s for s in fl): f["flushEmits"] = True
    else: f["flushEmits"] = False; unrec.append(f"ChunkSink::flush: {fl}")
    simpl = impl_block(src, r"impl\s+ChunkSink\s*\{")
    fr = _ws(fn_body(simpl, "flush_remaining"))
    if fr == "if self.buf.is_empty() { Ok(()) } else { self.send_chunk() }": f["flushRemainingSkipsEmpty"] = True
    elif fr == "self.send_chunk()": f["flushRemainingSkipsEmpty"] = False
    elif fr in ("if !self.buf.is_empty() { self.send_chunk() } else { Ok(()) }", "if self.buf.is_empty() { return Ok(()); } self.send_chunk()"):
        f["flushRemainingSkipsEmpty"] = True
    else: f["flushRemainingSkipsEmpty"] = True; unrec.append(f"flush_remaining: {fr}")
    sc = _ws(fn_body(simpl, "send_chunk"))
    if not re.search(r"let (\w+) = (?:std::mem::replace\(&mut self\.buf, Vec::with_capacity\(self\.chunk_bytes\)\)|std::mem::take\(&mut self\.buf\)); "
                     r"self\.tx \.send\(Msg::Chunk\(\1\)\)", sc):
        unrec.append(f"send_chunk: {sc}")
    # --- produce ----------------------------------------------------------------------------------
    pb = _ws(fn_body(src, "produce"))
    if "Ok(()) => tx.send(Msg::End)" not in pb: unrec.append("produce: Ok arm")
    if re.search(r"Err\(\w+\) => tx\.send\(Msg::Fail\(", pb): f["failSendsFail"] = True
    elif re.search(r"Err\(\w+\) => tx\.send\(Msg::End\)", pb): f["failSendsFail"] = False
    else: f["failSendsFail"] = True; unrec.append("produce: Err arm")
    if not re.search(r"sink\.flush_remaining\(\) \}\)\(\);", pb): unrec.append("produce: flush_remaining is the closure's result")
    if not re.search(r"match opts\.compression \{ Compression::None => body\(&mut sink\)\?, Compression::Zstd => \{ let mut (\w+) = zstd::stream::write::Encoder::new\(&mut sink, opts\.zstd_level\)\?; body\(&mut \1\)\?; \1\.finish\(\)\?; \} \}", pb):
        unrec.append("produce: compression match")
    # --- Session::pull / Session::recv, arm by arm ----------------------------------------------------
    ses = impl_block(src, r"impl\s+Session\s*\{")
    pb2 = _ws(fn_body(ses, "pull"))
    m = re.fullmatch(r"let current = match self\.lookahead\.take\(\) \{ Some\(c\) => c, None => match self\.recv\(\) \{ "
                     r"Msg::Chunk\(c\) => (.*?), Msg::End => (.*?), Msg::Fail\(e\) => (.*?), \}, \}; "
                     r"match self\.recv\(\) \{ Msg::Chunk\(next\) => (.*?) Msg::End => (.*?), Msg::Fail\(e\) => (.*?), \}", pb2)
    if not m:
        unrec.append("Session::pull: shape")
        m = re.fullmatch(r"(x)(x)(x)(x)(x)(x)", "xxxxxx")
    FIRST = {"c": "hold", "return Ok((Vec::new(), true))": "emptyLast", "return Err(e)": "err"}
    PEEK = {"{ self.lookahead = Some(next); Ok((current, false)) }": "more", "{ Ok((current, false)) }": "moreDrop",
            "Ok((current, false))": "moreDrop", "Ok((current, true))": "last", "Err(e)": "err",
            "{ let _ = next; Ok((current, false)) }": "moreDrop"}
    f["pull"] = {"lookaheadFirst": True,
                 "firstChunk": FIRST.get(m.group(1), "other"), "firstEnd": FIRST.get(m.group(2), "other"),
                 "firstFail": FIRST.get(m.group(3), "other"),
                 "peekChunk": PEEK.get(m.group(4).strip(), "other"), "peekEnd": PEEK.get(m.group(5), "other"),
                 "peekFail": PEEK.get(m.group(6), "other")}
    rv = _ws(fn_body(ses, "recv"))
    if re.fullmatch(r'self\.rx\.recv\(\)\.unwrap_or_else\(\|_\| \{ Msg::Fail\(" "\.to_string\(\)\) \}\)', rv): f["pull"]["closeIsFail"] = True
    elif re.fullmatch(r"self\.rx\.recv\(\)\.unwrap_or_else\(\|_\| \{ Msg::End \}\)", rv) or rv == "self.rx.recv().unwrap_or(Msg::End)": f["pull"]["closeIsFail"] = False
    else: f["pull"]["closeIsFail"] = True; unrec.append(f"Session::recv: {rv}")
    # --- NextHandler ------------------------------------------------------------------------------
    nimpl = impl_block(src, r"impl\s+HandlerErased\s+for\s+NextHandler\s*\{")
    nb = _ws(fn_body(nimpl, "handle"))
    ipull = nb.find("guard.pull()")
    if ipull < 0: unrec.append("NextHandler: guard.pull()")
    m = re.search(r"if guard\.done \{ Err\([^{}]*\) \} else \{", nb)
    f["doneChecked"] = bool(m and m.end() <= ipull)
    if not m and "done" in nb.split("guard.pull()")[0]: unrec.append("NextHandler: done test")
    if not re.search(r"let Some\(session\) = self\.table\.get\(next\.stream_id\) else \{ return Ok\(error_like\(", nb):
        unrec.append("NextHandler: unknown-id branch")
    if not re.search(r"let mut guard = session\.lock\(\)\.unwrap\(\);", nb): unrec.append("NextHandler: session lock")
    m = re.search(r"if matches!\(pulled, ([^;{}]*?)\) \{ guard\.done = true; \}", nb)
    arms = [a.strip() for a in m.group(1).split("|")] if m else []
    if not m and "done = true" in nb: unrec.append("NextHandler: done assignment")
    for a in arms:
        if a not in ("Ok((_, true))", "Err(_)"): unrec.append(f"NextHandler: done arm {a}")
    f["doneOnLast"] = "Ok((_, true))" in arms
    f["doneOnErr"] = "Err(_)" in arms
    mo = re.search(r"match outcome \{ Ok\(\(chunk, last\)\) => \{(.*?)Ok\(chunk_response\(req, chunk, last\)\) \} Err\(msg\) => \{(.*?)Ok\(error_like\(", nb)
    if not mo: unrec.append("NextHandler: outcome match")
    okarm, errarm = (mo.group(1).strip(), mo.group(2).strip()) if mo else ("if last { self.table.remove(next.stream_id); }", "self.table.remove(next.stream_id);")
    if okarm == "if last { self.table.remove(next.stream_id); }": f["removeOnLast"] = True
    elif okarm == "": f["removeOnLast"] = False
    else: f["removeOnLast"] = True; unrec.append(f"NextHandler: ok arm {okarm}")
    if errarm == "self.table.remove(next.stream_id);": f["removeOnErr"] = True
    elif errarm == "": f["removeOnErr"] = False
    else: f["removeOnErr"] = True; unrec.append(f"NextHandler: err arm {errarm}")
    # --- last byte ---------------------------------------------------------------------------------
    cr = _ws(fn_body(src, "chunk_response"))
    if ".query_bytes(vec![last as u8])" in cr: f["lastByte"] = 1
    elif re.search(r"\.query_bytes\(vec!\[u8::from\(last\)\]\)", cr): f["lastByte"] = 1
    else: f["lastByte"] = 1; unrec.append("chunk_response: query bytes")
    rimpl = impl_block(src, r"impl<'a>\s+ChunkReader<'a>\s*\{")
    LAST = r"let (\w+) = resp\.query\.first\(\)\.copied\(\) == Some\((\d+)(?:u8)?\);"
    fb = _ws(fn_body(rimpl, "fetch"))
    m = re.search(LAST, fb)
    if m: f["syncLastIs"] = int(m.group(2))
    else: f["syncLastIs"] = 1; unrec.append("ChunkReader::fetch: last test")
    if not re.search(r"self\.buf = resp\.body; self\.pos = 0; if (\w+) \{ self\.last_seen = true; self\.finished = true; \} Ok\(\(\)\)$", fb):
        unrec.append("ChunkReader::fetch: buffer / finished update")
    if not re.search(r"let resp = self \.client \.call_with_formats\( ROUTE_NEXT, QueryFormat::JsonPointer as u16, Some\(&body\), BodyFormat::Beve as u16, \) \.map_err\(", fb):
        unrec.append("ChunkReader::fetch: the one `next` call")
    rd = _ws(fn_body(impl_block(src, r"impl\s+Read\s+for\s+ChunkReader<'_>\s*\{"), "read"))
    if rd != ("loop { if self.pos < self.buf.len() { let n = out.len().min(self.buf.len() - self.pos); "
              "out[..n].copy_from_slice(&self.buf[self.pos..self.pos + n]); self.pos += n; return Ok(n); } "
              "if self.finished { return Ok(0); } self.fetch()?; }"):
        unrec.append("ChunkReader::read")
    al = _ws(fn_body(src, "pull_loop_async"))
    m = re.search(LAST, al)
    if m: f["asyncLastIs"] = int(m.group(2))
    else: f["asyncLastIs"] = 1; unrec.append("pull_loop_async: last test")
    lastv = m.group(1) if m else "last"
    if "if !resp.body.is_empty() && tx.send(resp.body).await.is_err()" in al: f["asyncSkipsEmpty"] = True
    elif "if tx.send(resp.body).await.is_err()" in al: f["asyncSkipsEmpty"] = False
    else: f["asyncSkipsEmpty"] = True; unrec.append("pull_loop_async: forward test")
    if not re.search(r"if " + lastv + r" \{ return Ok\(\(\)\); \}", al): unrec.append("pull_loop_async: stop on last")
    cr2 = _ws(fn_body(impl_block(src, r"impl\s+Read\s+for\s+ChannelReader\s*\{"), "read"))
    if cr2 != ("loop { if self.pos < self.buf.len() { let n = out.len().min(self.buf.len() - self.pos); "
               "out[..n].copy_from_slice(&self.buf[self.pos..self.pos + n]); self.pos += n; return Ok(n); } "
               "match self.rx.blocking_recv() { Some(chunk) => { self.buf = chunk; self.pos = 0; } None => return Ok(0), } }"):
        unrec.append("ChannelReader::read")
    ob = _ws(fn_body(impl_block(src, r"impl<F>\s+HandlerErased\s+for\s+OpenHandler<F>"), "handle"))
    if "let stream_id = self.table.next_id.fetch_add(1, Ordering::Relaxed);" not in ob: unrec.append("OpenHandler: id allocation")
    if "let (tx, rx) = sync_channel::<Msg>(self.opts.session_depth);" not in ob: unrec.append("OpenHandler: channel depth")
    if "compression: self.opts.compression as u8," not in ob: unrec.append("OpenHandler: compression tag")
    # the whole registration sequence, so that anything slipped in between (a cap, an eviction, a reuse) is seen
    if not ob.endswith("let stream_id = self.table.next_id.fetch_add(1, Ordering::Relaxed); let (tx, rx) = sync_channel::<Msg>(self.opts.session_depth); "
                       "let opts = self.opts; thread::spawn(move || produce(body, tx, opts)); self.table.sessions.lock().unwrap().insert( stream_id, "
                       "Arc::new(Mutex::new(Session { rx, lookahead: None, done: false, })), ); let resp = OpenResponse { version: SVS_VERSION, stream_id, "
                       "format: self.format, compression: self.opts.compression as u8, }; beve_response(req, &resp)"):
        unrec.append("OpenHandler: registration sequence")
    if not re.search(r"let _ = match result \{ Ok\(\(\)\) => tx\.send\(Msg::End\), Err\((\w+)\) => tx\.send\(Msg::Fail\(\1\.to_string\(\)\)\), \};$", pb):
        unrec.append("produce: terminal marker selection")
    if _ws(fn_body(nimpl, "execution")) != "Execution::OffReader": unrec.append("NextHandler::execution")
    m = re.search(r"const ASYNC_PULL_DEPTH: usize = (\d+);", src)
    if not m or int(m.group(1)) < 1: unrec.append("ASYNC_PULL_DEPTH")
    f["asyncPullDepth"] = int(m.group(1)) if m else 0
    cb = _ws(fn_body(impl_block(src, r"impl\s+HandlerErased\s+for\s+CancelHandler\s*\{"), "handle"))
    if not re.search(r"if let Ok\((\w+)\) = beve_from_slice::<CancelRequest>\(&req\.body\) \{ self\.table\.remove\(\1\.stream_id\); \}", cb):
        unrec.append("CancelHandler: remove")
    # --- whole-body shapes of the three hot functions: the pieces above say what each statement does, this says that
    # nothing else was slipped in between them (a direct path, a coalescing step, an early `continue`)
    def canon(t, lastvar="last"):
        t = t.replace("self.chunk_bytes <= self.buf.len()", "self.buf.len() >= self.chunk_bytes")
        t = re.sub(r"data\.len\(\)\.min\(space\)|std::cmp::min\(space, data\.len\(\)\)|std::cmp::min\(data\.len\(\), space\)", "space.min(data.len())", t)
        t = t.replace("Some(1u8)", "Some(1)")
        if lastvar != "last": t = re.sub(r"\b" + re.escape(lastvar) + r"\b", "last", t)
        return t
    if canon(wbody) != ("let total = data.len(); while !data.is_empty() { let space = self.chunk_bytes - self.buf.len(); let take = space.min(data.len()); "
                        "self.buf.extend_from_slice(&data[..take]); data = &data[take..]; if self.buf.len() >= self.chunk_bytes { self.send_chunk()?; } } Ok(total)"):
        unrec.append("ChunkSink::write: whole body")
    NEXT_CANON = ('let next: NextRequest = match beve_from_slice(&req.body) { Ok(v) => v, Err(_) => { return Ok(error_like( req, ErrorCode::InvalidBody, " ", )); } }; '
                  'let Some(session) = self.table.get(next.stream_id) else { return Ok(error_like( req, ErrorCode::InvalidQuery, format!(" ", next.stream_id), )); }; '
                  'let outcome = { let mut guard = session.lock().unwrap(); if guard.done { Err(" ".to_string()) } else { let pulled = guard.pull(); '
                  'if matches!(pulled, Ok((_, true)) | Err(_)) { guard.done = true; } pulled } }; match outcome { Ok((chunk, last)) => { if last { self.table.remove(next.stream_id); } '
                  'Ok(chunk_response(req, chunk, last)) } Err(msg) => { self.table.remove(next.stream_id); Ok(error_like(req, ErrorCode::InternalError, msg)) } }')
    if nb.replace("Err(_) | Ok((_, true))", "Ok((_, true)) | Err(_)") != NEXT_CANON: unrec.append("NextHandler::handle: whole body")
    if canon(al, lastv) != ("let body = next_request_body(stream_id)?; loop { let resp = client .svs_call( ROUTE_NEXT, QueryFormat::JsonPointer as u16, Some(&body), "
                            "BodyFormat::Beve as u16, ) .await?; let last = resp.query.first().copied() == Some(1); "
                            "if !resp.body.is_empty() && tx.send(resp.body).await.is_err() { return Ok(()); } if last { return Ok(()); } }"):
        unrec.append("pull_loop_async: whole body")
    # --- no timer, sleep, timeout, retry or non-blocking send/receive anywhere in the streaming code today: any that appears
    # (a reply timeout that re-issues `next`, a bounded wait that gives up on a slow consumer, a `try_send` of the terminal
    # marker) changes what a stalled peer sees and is listed
    stream_code = src[:src.find("fn write_file")] + src[src.find("struct ChunkReader"):src.find("struct TeeWriter")]
    for tok in ("sleep", "timeout", "Duration", "Instant", "try_send", "try_recv", "recv_timeout", "send_timeout", "retry", "interval", "deadline", "select!"):
        if re.search(r"\b" + re.escape(tok) + r"\b" if tok != "select!" else r"select!", stream_code):
            unrec.append(f"timer / retry arm in the streaming code: {tok}")
    # --- formats, routes ---------------------------------------------------------------------------
    consts = strip(read("src/constants.rs"))
    m = re.search(r"pub enum BodyFormat\s*\{([^}]*)\}", consts)
    if not m: raise ExtractError("enum BodyFormat")
    bf = {k: int(v) for k, v in re.findall(r"(\w+)\s*=\s*(\d+)", m.group(1))}
    eimpl = impl_block(src, r"impl\s+RouterValueStreamExt\s+for\s+Router\s*\{")
    fmts = []
    for name, fn in [("value", "with_value_stream"), ("typed", "with_typed_value_stream"),
                     ("complex", "with_complex_value_stream"), ("reader", "with_reader_stream")]:
        b = _ws(fn_body(eimpl, fn))
        m = re.search(r"BodyFormat::(\w+) as u16, opts,? \)$", b)
        if not m or m.group(1) not in bf: raise ExtractError(f"{fn}: format tag")
        fmts.append((name, bf[m.group(1)]))
    f["formats"] = sorted(fmts)
    routes = []
    for c in ("ROUTE_OPEN", "ROUTE_NEXT", "ROUTE_CANCEL"):
        m = re.search(r'pub const ' + c + r': &str = "([^"]*)";', raw)
        if not m: raise ExtractError(c)
        routes.append(m.group(1))
    f["routes"] = routes
    return f


def render(f):
    b = lambda x: "true" if x else "false"
    L = ["import RepeVerif.Model.Svs",
         "/-! GENERATED by /verif/extract/svs.py from /repo (src/value_stream.rs). -/",
         "namespace Repe.Gen",
         "def svsFacts : Repe.Svs.Facts :=",
         f"  {{ sinkFull := .{f['sinkFull']}, flushEmits := {b(f['flushEmits'])}, flushRemainingSkipsEmpty := {b(f['flushRemainingSkipsEmpty'])}, failSendsFail := {b(f['failSendsFail'])},",
         f"    doneChecked := {b(f['doneChecked'])}, doneOnLast := {b(f['doneOnLast'])}, doneOnErr := {b(f['doneOnErr'])}, removeOnLast := {b(f['removeOnLast'])}, removeOnErr := {b(f['removeOnErr'])},",
         f"    lastByte := {f['lastByte']}, syncLastIs := {f['syncLastIs']}, asyncLastIs := {f['asyncLastIs']}, asyncSkipsEmpty := {b(f['asyncSkipsEmpty'])} }}",
         "def svsPull : Repe.Svs.PullFacts :=",
         f"  {{ lookaheadFirst := {b(f['pull']['lookaheadFirst'])}, firstChunk := .{f['pull']['firstChunk']}, firstEnd := .{f['pull']['firstEnd']}, firstFail := .{f['pull']['firstFail']},",
         f"    peekChunk := .{f['pull']['peekChunk']}, peekEnd := .{f['pull']['peekEnd']}, peekFail := .{f['pull']['peekFail']}, closeIsFail := {b(f['pull']['closeIsFail'])} }}",
         "def svsUnrecognised : List String := [" + ", ".join('"' + u.replace('\\', '').replace('"', "'")[:120] + '"' for u in f["unrecognised"]) + "]",
         "def svsFormats : List (String × Nat) := [" + ", ".join(f'("{k}", {v})' for k, v in f["formats"]) + "]",
         "def svsRoutes : List String := [" + ", ".join(f'"{r}"' for r in f["routes"]) + "]",
         "end Repe.Gen"]
    return "\n".join(L) + "\n"


if __name__ == "__main__":
    import json
    f = extract(); print(json.dumps(f, indent=1)); print(render(f))
