"""Facts for Gen/Limits.lean (C17): the comparison in `check_outbound`, the length expression and the
report / notify-drop / id-carrying statements of `frame_outbound`, "every binary send on the server
side is what `frame_outbound` returned", and the client's measure-and-check-before-send."""
import re
from rustlex import *

GEN_FILE = "Limits.lean"
CMP = {">": "gt", ">=": "ge", "<": "lt", "<=": "le", "==": "eq", "!=": "ne"}
CODE_FIELD = {"Ok": "ok", "VersionMismatch": "versionMismatch", "InvalidHeader": "invalidHeader", "InvalidQuery": "invalidQuery",
              "InvalidBody": "invalidBody", "ParseError": "parseError", "MethodNotFound": "methodNotFound", "Timeout": "timeout",
              "ResourceExhausted": "resourceExhausted", "InternalError": "internalError"}


def len_terms(expr, var):
    terms = []
    for t in expr.split("+"):
        t = "".join(t.split())
        if t in ("HEADER_SIZE", "crate::constants::HEADER_SIZE", "crate::HEADER_SIZE", "constants::HEADER_SIZE"): terms.append("header")
        elif t == f"{var}.query.len()": terms.append("query")
        elif t == f"{var}.body.len()": terms.append("body")
        elif t == f"{var}.serialized_len()": terms += ["header", "query", "body"]
        else: return []      # not understood: pessimistic (measures nothing), never the default
    # a sum does not depend on the order of its summands: canonical order (duplicates are kept)
    return sorted(terms, key=["header", "query", "body"].index)


def binary_constructions(src):
    """(position, argument text) of every `WsMessage::Binary(..)` that is an expression, not a pattern."""
    out = []
    for m in re.finditer(r"WsMessage::Binary\(", src):
        depth, j = 1, m.end()
        while depth:
            depth += {"(": 1, ")": -1}.get(src[j], 0); j += 1
        arg = src[m.end():j - 1]
        if re.match(r"\s*(=>|\))", src[j:]) and re.fullmatch(r"\w+|_", arg.strip()) and re.match(r"\s*=>", src[j:]):
            continue   # match arm pattern
        out.append((m.start(), " ".join(arg.split())))
    return out


def extract():
    f = {}
    lim = test_mod_cut(strip(read("src/websocket_limits.rs")))
    body = fn_body(lim, "check_outbound")
    FLIP = {">": "<", "<": ">", ">=": "<=", "<=": ">=", "==": "==", "!=": "!="}
    OPS = r"(>=|<=|==|!=|>|<)"
    forms = [  # (regex, operands swapped?) — the recognised ways of writing the guard
        (r"match self\.assumed_peer_frame_limit\s*\{\s*Some\(limit\)\s+if\s+size\s*" + OPS + r"\s*limit\s*=>\s*Err\([^;]*?_\s*=>\s*Ok\(\(\)\),?\s*\}\s*$", False),
        (r"match self\.assumed_peer_frame_limit\s*\{\s*Some\(limit\)\s+if\s+limit\s*" + OPS + r"\s*size\s*=>\s*Err\([^;]*?_\s*=>\s*Ok\(\(\)\),?\s*\}\s*$", True),
        (r"if let Some\(limit\)\s*=\s*self\.assumed_peer_frame_limit\s*\{\s*if\s+size\s*" + OPS + r"\s*limit\s*\{\s*return Err\([^;]*\);\s*\}\s*\}\s*Ok\(\(\)\)\s*$", False),
        (r"if let Some\(limit\)\s*=\s*self\.assumed_peer_frame_limit\s*\{\s*if\s+limit\s*" + OPS + r"\s*size\s*\{\s*return Err\([^;]*\);\s*\}\s*\}\s*Ok\(\(\)\)\s*$", True),
    ]
    f["cmp"] = None
    for rx, swapped in forms:
        m = re.search(rx, body.strip(), re.S)
        if m and len(re.findall(r"=>", body)) <= 2:
            op = m.group(1)
            f["cmp"] = CMP[FLIP[op] if swapped else op]
            break
    if f["cmp"] is None:
        # the guard exists in a form that is not understood (extra terms, extra arms, other operands):
        # that is exactly where a wrong boundary would hide -> pessimistic fact, the proofs must not go through
        if "Err(" in body and "assumed_peer_frame_limit" in body: f["cmp"] = "lt"
        else: raise ExtractError("check_outbound: no guard found")

    srv = test_mod_cut(strip(read("src/websocket_server.rs")))
    fo = fn_body(srv, "frame_outbound")
    m = re.search(r"let frame_len\s*=([^;]*);", fo)
    if not (m and re.search(r"limits\.check_outbound\(frame_len\)", fo)):
        # the guard in frame_outbound is not the recognised `check_outbound(frame_len)` any more (e.g. an
        # inlined comparison): nothing the theorems rely on can be read off -> pessimistic facts
        f.update({"lenTerms": [], "reports": False, "notifyDrops": False, "keepsId": False, "replacementCode": "InternalError",
                  "writerGuarded": False, "binarySends": 0})
        m = None
    if m:
        f["lenTerms"] = len_terms(m.group(1), "m")
        if "serialized_len" in m.group(1):
            msg_src = test_mod_cut(strip(read("src/message.rs")))
            if "".join(fn_body(msg_src, "serialized_len").split()) != "HEADER_SIZE+self.query.len()+self.body.len()": f["lenTerms"] = []
        chk = re.search(r"let Err\(err\)\s*=\s*limits\.check_outbound\(frame_len\)\s*else\s*\{\s*return Some\(m\.into_wire_bytes\(\)\);\s*\};", fo)
        if not chk: raise ExtractError("frame_outbound: check/let-else form")
        rest = fo[chk.end():]
        p_rep = re.search(r"report_error\(\s*on_error,\s*ConnectionError::OutboundTooLarge\s*\{", rest)
        p_not = re.search(r"if m\.header\.notify != 0\s*\{\s*return None;\s*\}", rest)
        p_rpl = re.search(r"create_error_message\(\s*ErrorCode::(\w+)", rest)
        if not p_rpl: raise ExtractError("frame_outbound: replacement construction")
        if p_rpl.group(1) not in CODE_FIELD: raise ExtractError(f"frame_outbound: replacement code {p_rpl.group(1)}")
        f["replacementCode"] = p_rpl.group(1)
        first_return = re.search(r"\breturn\b", rest)
        f["reports"] = bool(p_rep) and p_rep.start() < p_rpl.start() and (first_return is None or p_rep.start() < first_return.start())
        f["notifyDrops"] = bool(p_not) and p_not.start() < p_rpl.start()
        keeps = re.search(r"let id\s*=\s*m\.header\.id;", rest) and re.search(r"replacement\.header\.id\s*=\s*id;", rest)
        if len(re.findall(r"replacement\.header\.id\s*=", rest)) != 1: keeps = None
        if not re.search(r"Some\(replacement\.into_wire_bytes\(\)\)\s*$", rest.strip()): raise ExtractError("frame_outbound: tail expression")
        f["keepsId"] = bool(keeps)
        # every binary send in the server file sends a `bytes` that can only have come from frame_outbound
        cons = binary_constructions(srv)
        guarded = len(cons) >= 3
        fn_starts = [m.start() for m in re.finditer(r"\bfn\s+\w+", srv)]
        for pos, arg in cons:
            start = max([p for p in fn_starts if p < pos], default=0)
            i = srv.find("{", start)
            encl = srv[i:match_brace(srv, i)]
            binds = re.findall(r"(\w[\w\s\(]*?)\bbytes\b\)?\s*(?::[^=]+)?=(?!=)\s*([^;{]*)", encl)
            def from_guard(rhs, encl=encl):
                rhs = rhs.strip()
                if rhs.startswith("frame_outbound("): return True
                mm = re.fullmatch(r"(\w+)\s*else", rhs) or re.fullmatch(r"(\w+)", rhs)   # `let Some(bytes) = framed else {..}`
                if not mm: return False
                src = re.findall(r"let\s+" + mm.group(1) + r"\s*(?::[^=]+)?=(?!=)\s*([^;{]*)", encl)
                return len(src) >= 1 and all(x.strip().startswith("frame_outbound(") for x in src)
            ok = arg == "bytes" and len(binds) >= 1 and all(from_guard(b[1]) and "Some(" in b[0] for b in binds)
            # nothing else in a sending function may serialise a message
            ok = ok and not re.search(r"into_wire_bytes\(|\.to_vec\(\)|\.encode\(\)|write_to\(", encl)
            guarded = guarded and bool(ok)
        f["writerGuarded"] = guarded
        f["binarySends"] = len(cons)
    # timers: `frame_outbound`, the proxy loop and `write_request` have none; the writer has exactly the three
    # `timeout_at` of its shutdown drain.  Anything else (a new timeout / sleep / retry arm) -> pessimistic.
    TIMER = r"tokio::time::timeout\(|\bsleep\(|\btimeout\(|\binterval\(|\bretry"
    wt = fn_body(srv, "writer_task")
    if (re.search(TIMER + r"|timeout_at\(|Instant::now|Duration::", fo) or re.search(TIMER + r"|timeout_at\(|Instant::now|Duration::", fn_body(srv, "proxy_connection_with_limits"))
            or re.search(TIMER, wt) or len(re.findall(r"timeout_at\(", wt)) != 3):
        f["writerGuarded"] = False

    cli = test_mod_cut(strip(read("src/websocket_client.rs")))
    wr = fn_body(cli, "write_request")
    m = re.search(r"let bytes\s*=\s*msg\.to_vec\(\);", wr)
    if not m: raise ExtractError("write_request: `let bytes = msg.to_vec();`")
    c = re.search(r"check_outbound\(", wr)
    if c:
        depth, j = 1, c.end()
        while depth:
            depth += {"(": 1, ")": -1}.get(wr[j], 0); j += 1
        inner = "".join(wr[c.end():j - 1].split())
        bound = re.search(r"let " + re.escape(inner) + r"\s*=\s*([^;]*);", wr) if re.fullmatch(r"\w+", inner) else None
        if bound: inner = "".join(bound.group(1).split())
        if inner == "bytes.len()": f["clientLenTerms"] = ["header", "query", "body"]
        elif inner == "msg.body.len()": f["clientLenTerms"] = ["body"]
        elif inner == "msg.query.len()+msg.body.len()": f["clientLenTerms"] = ["query", "body"]
        elif "HEADER_SIZE" in inner: f["clientLenTerms"] = len_terms(inner.replace("+", " + "), "msg")
        else: raise ExtractError(f"write_request: measured size `{inner}`")
        if not re.match(r"\s*\?;", wr[j:]): c = None     # result not propagated with `?`
    else:
        f["clientLenTerms"] = ["header", "query", "body"]
    s = re.search(r"\.send\(WsMessage::Binary\(bytes\)\)", wr)
    if not s: raise ExtractError("write_request: send")
    ccons = binary_constructions(cli)
    only_here = len(ccons) == 1 and "write_request(&msg)" in fn_body(cli, "call_with_body_and_timeout") and \
        "write_request(&msg)" in fn_body(cli, "notify_with_builder")
    f["clientChecksFirst"] = bool(c) and c.start() < s.start() and only_here and not re.search(r"\bsleep\(|\btimeout\(|timeout_at\(|\bretry|Duration::", wr)
    # ---- where the limit comes from
    limraw = test_mod_cut(strip(read("src/websocket_limits.rs")))
    def const(name):
        m = re.search(r"pub const " + name + r"\s*:\s*usize\s*=\s*(\d+)\s*<<\s*(\d+)\s*;", limraw)
        if not m: raise ExtractError(f"const {name}")
        return int(m.group(1)) << int(m.group(2))
    f["defaultFrame"], f["defaultMessage"] = const("DEFAULT_MAX_FRAME_SIZE"), const("DEFAULT_MAX_MESSAGE_SIZE")
    flat = lambda t: " ".join(t.split())
    dflt = flat(fn_body(impl_block(limraw, r"impl Default for WebSocketLimits\s*\{"), "default"))
    f["defaultIsDefaults"] = dflt == ("Self { max_incoming_frame_size: Some(DEFAULT_MAX_FRAME_SIZE), max_incoming_message_size: "
                                      "Some(DEFAULT_MAX_MESSAGE_SIZE), assumed_peer_frame_limit: Some(DEFAULT_MAX_FRAME_SIZE), }")
    wl = impl_block(limraw, r"impl WebSocketLimits\s*\{")
    f["unlimitedIsNone"] = flat(fn_body(wl, "unlimited")) == "Self { max_incoming_frame_size: None, max_incoming_message_size: None, assumed_peer_frame_limit: None, }"
    f["settersSetOwnField"] = all(flat(fn_body(wl, "with_" + n)) == f"self.{n} = bytes; self"
                                  for n in ("max_incoming_frame_size", "max_incoming_message_size", "assumed_peer_frame_limit"))
    f["guardReadsAssumed"] = bool(re.search(r"match self\.assumed_peer_frame_limit\s*\{", fn_body(wl, "check_outbound")))
    conv = flat(fn_body(limraw, "from"))
    f["transportGetsIncomingOnly"] = conv == "Self { max_frame_size: limits.max_incoming_frame_size, max_message_size: limits.max_incoming_message_size, ..Self::default() }"
    wss = impl_block(srv, r"impl WebSocketServer\s*\{")
    shared = impl_block(srv, r"impl SharedWebSocketServer\s*\{")
    hc = fn_body(srv, "handle_connection_with_config")
    f["serverThreadsLimits"] = (
        "limits: crate::WebSocketLimits::default()," in flat(fn_body(wss, "new"))
        and flat(fn_body(wss, "with_limits")) == "self.limits = limits; self"
        and "limits: self.limits," in flat(fn_body(wss, "into_shared"))
        and bool(re.search(r"writer_task\(\s*ws_writer,\s*outbound_rx,\s*shutdown_rx,\s*config\.limits,", hc))
        and flat(fn_body(shared, "limits")) == "self.config.limits"
        and "accept_with_limits(stream, path, self.config.limits)" in flat(fn_body(shared, "accept"))
        and "accept_with_limits(stream, path, crate::WebSocketLimits::default())" in flat(fn_body(wss, "accept")))
    f["proxyThreadsLimits"] = (
        flat(fn_body(srv, "proxy_connection")) == "proxy_connection_with_limits(ws_stream, upstream, crate::WebSocketLimits::default()).await"
        and "frame_outbound(response, &limits, &[])" in flat(fn_body(srv, "proxy_connection_with_limits")))
    wc = impl_block(cli, r"impl WebSocketClient\s*\{")
    cw = flat(fn_body(wc, "connect_with_limits"))
    f["clientThreadsLimits"] = (
        flat(fn_body(wc, "connect")) == "Self::connect_with_limits(url, crate::WebSocketLimits::default()).await"
        and bool(re.search(r"WebSocketClientInner \{[^}]*\blimits,", cw))
        and "self.inner.limits.check_outbound(" in wr)
    return f


def render(f):
    b = lambda x: "true" if x else "false"
    ts = lambda l: "[" + ", ".join("." + t for t in l) + "]"
    return "\n".join([
        "import RepeVerif.Model.Limits",
        "import RepeVerif.Gen.Dispatch",
        "/-! GENERATED by /verif/extract/limits.py from /repo (src/websocket_limits.rs, websocket_server.rs, websocket_client.rs). -/",
        "namespace Repe.Gen",
        "def limitFacts : LimitFacts :=",
        f"  {{ cmp := .{f['cmp']}",
        f"    lenTerms := {ts(f['lenTerms'])}",
        f"    reports := {b(f['reports'])}",
        f"    notifyDrops := {b(f['notifyDrops'])}",
        f"    keepsId := {b(f['keepsId'])}",
        f"    replacementCode := codes.{CODE_FIELD[f['replacementCode']]}",
        f"    writerGuarded := {b(f['writerGuarded'])}",
        f"    clientLenTerms := {ts(f['clientLenTerms'])}",
        f"    clientChecksFirst := {b(f['clientChecksFirst'])} }}",
        "def configFacts : ConfigFacts :=",
        f"  {{ defaultFrame := {f['defaultFrame']}",
        f"    defaultMessage := {f['defaultMessage']}",
        f"    defaultIsDefaults := {b(f['defaultIsDefaults'])}",
        f"    unlimitedIsNone := {b(f['unlimitedIsNone'])}",
        f"    settersSetOwnField := {b(f['settersSetOwnField'])}",
        f"    guardReadsAssumed := {b(f['guardReadsAssumed'])}",
        f"    transportGetsIncomingOnly := {b(f['transportGetsIncomingOnly'])}",
        f"    serverThreadsLimits := {b(f['serverThreadsLimits'])}",
        f"    proxyThreadsLimits := {b(f['proxyThreadsLimits'])}",
        f"    clientThreadsLimits := {b(f['clientThreadsLimits'])} }}",
        "end Repe.Gen"]) + "\n"


if __name__ == "__main__":
    import json
    f = extract()
    print(json.dumps(f, indent=1))
    print(render(f))
