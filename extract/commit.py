"""Facts for C10 (family `commit`) from src/value_stream.rs: the statement order of the five file-puller
shapes (consumer closure, `run_pull`'s `pull_res?`, the statements after the pull), the `TempFile`
guard's drop / commit discipline, `write_file` committing only on the Ok arm, `ChunkReader` reporting
EOF only after `last`, the temp suffix."""
import re
from rustlex import ExtractError, read, strip, test_mod_cut, fn_body, match_brace

GEN_FILE = "Commit.lean"

# recognised statement forms, in the vocabulary of Model/Commit.lean `Step`
FORMS = [
    ("create", r"TempFile\s*::\s*create\s*\("),
    ("copy", r"\bio\s*::\s*copy\s*\(|\bfill\s*\("),  # `fill` = the name of write_file's `Fill` parameter (substituted)
    ("intoTrailer", r"\.\s*into_trailer\s*\("),
    ("checkLast", r"if\s+!\s*\w+\s*\.\s*last_seen\s*\{"),
    ("flush", r"\.\s*file_mut\s*\(\s*\)\s*\.\s*flush\s*\("),
    ("sync", r"\.\s*file_mut\s*\(\s*\)\s*\.\s*sync_all\s*\("),
    ("verify", r"\bverify\s*\("),
    ("commit", r"\.\s*commit\s*\("),
]


def _after_call(body, open_paren):
    """Index just past the `)` matching body[open_paren] == '('."""
    depth = 0
    for j in range(open_paren, len(body)):
        if body[j] == "(":
            depth += 1
        elif body[j] == ")":
            depth -= 1
            if depth == 0:
                return j + 1
    raise ExtractError("unbalanced parentheses")


def order(body, fill_name="fill"):
    """Recognised statements of `body` in textual order.  A fallible step counts only when its result is
    propagated (`…?`); `commit` when it is propagated or is the value of the block / match arm.  A call whose
    result is dropped (`let _ = x.sync_all();`, `.ok();`, a bare `;`) is NOT a step — the pessimistic reading:
    the list then differs from the canonical one and the theorems that need the step break."""
    hits = []
    for name, rx in FORMS:
        if name == "copy":
            rx = rx.replace(r"\bfill\s*\(", r"\b" + re.escape(fill_name) + r"\s*\(")
        for m in re.finditer(rx, body):
            if name == "checkLast":
                # the guarded block must leave the function with an error
                k = body.find("{", m.end() - 1)
                blk = body[k:match_brace(body, k)]
                if re.search(r"return\s+Err\s*\(", blk):
                    hits.append((m.start(), name))
                continue
            end = _after_call(body, m.end() - 1)
            nxt = body[end:end + 40].lstrip()
            if nxt.startswith("?"):
                hits.append((m.start(), name))
            elif name == "commit" and (nxt == "" or nxt[0] in ",}"):
                hits.append((m.start(), name))
    hits.sort()
    return [n for _, n in hits]


def split_consumer(body, call):
    """(closure text, text after the call) of `call(client, resource, |reader| { … })…` in body."""
    m = re.search(r"\b" + call + r"\s*\(", body)
    if not m:
        raise ExtractError(f"{call} call not found")
    i = body.find("|", m.end())
    j = body.find("|", i + 1)
    k = body.find("{", j)
    if min(i, j, k) < 0:
        raise ExtractError(f"{call}: closure not found")
    e = match_brace(body, k)
    return body[k + 1:e - 1], body[e:]


def extract():
    src = test_mod_cut(strip(read("src/value_stream.rs")))
    # run_pull: `pull_res?;` before `match consume_res`
    rp = fn_body(src, "run_pull")
    # names are whatever the source calls them: `let P = pull_loop_async(..).await;`, `let T = ..spawn_blocking(..)`,
    # `let C = T.await;`
    pm = re.search(r"let\s+(\w+)\s*=\s*pull_loop_async\s*\(", rp)
    tm = re.search(r"let\s+(\w+)\s*=\s*tokio\s*::\s*task\s*::\s*spawn_blocking\s*\(", rp)
    if not pm or not tm:
        raise ExtractError("run_pull: pull_loop_async / spawn_blocking bindings not found")
    cm = re.search(r"let\s+(\w+)\s*=\s*" + re.escape(tm.group(1)) + r"\s*\.\s*await\s*;", rp)
    if not cm:
        raise ExtractError("run_pull: consumer result binding not found")
    pres, cres = pm.group(1), cm.group(1)
    a = re.search(r"\b" + re.escape(pres) + r"\s*\?\s*;", rp)
    b = re.search(r"\bmatch\s+" + re.escape(cres) + r"\b", rp)
    if not b:
        raise ExtractError("run_pull: match on the consumer result not found")
    pull_first = bool(a) and a.start() < b.start()
    # any use of the consumer's result before `pull_res?` (an early return of its value, `?`, `if let Ok`) defeats it
    if pull_first and re.search(r"\b" + re.escape(cres) + r"\b", rp[cm.end():a.start()]):
        pull_first = False
    pull_step = ["pullRes"] if pull_first else []
    # pull_consume_async forwards to run_pull; pull_consume (sync) runs the closure in place
    if not re.search(r"\brun_pull\s*\(", fn_body(src, "pull_consume_async")):
        raise ExtractError("pull_consume_async does not call run_pull")

    wf = fn_body(src, "write_file")
    wsig = src[re.search(r"\bfn\s+write_file\b", src).start():]
    fp = re.search(r"(\w+)\s*:\s*Fill\b", wsig[:wsig.find("{")] if "where" not in wsig[:wsig.find("{")] else wsig[:wsig.find("where")])
    steps = {"writeFile": order(wf, fp.group(1) if fp else "fill")}
    # the error arm of write_file must not commit: exactly one commit, inside `Ok(()) => guard.commit(`
    wf_commit_ok_only = len(re.findall(r"\.\s*commit\s*\(", wf)) == 1 and \
        re.search(r"Ok\s*\(\s*\(\s*\)\s*\)\s*=>\s*guard\s*\.\s*commit\s*\(", wf) is not None
    for key, fn, call, asyn in [("trailerSync", "pull_to_file_trailer_verified", "pull_consume", False),
                                ("fileAsync", "pull_to_file_async", "pull_consume_async", True),
                                ("verifiedAsync", "pull_to_file_verified_async", "pull_consume_async", True),
                                ("trailerAsync", "pull_to_file_trailer_verified_async", "pull_consume_async", True)]:
        body = fn_body(src, fn)
        clos, post = split_consumer(body, call)
        steps[key] = order(clos) + (pull_step if asyn else []) + order(post)
    # (a shape whose create / commit is not recognised — e.g. a commit whose result is dropped — is reported as
    # it is: the list then differs from the canonical one, which is the pessimistic outcome)

    # pull_stream's three file outputs all go through write_file
    ps = fn_body(src, "pull_stream")
    if len(re.findall(r"\bwrite_file\s*\(", ps)) != 3:
        raise ExtractError("pull_stream: expected three write_file call sites")

    # TempFile
    i = re.search(r"impl\s+TempFile\s*\{", src)
    if not i:
        raise ExtractError("impl TempFile not found")
    tf = src[i.end():match_brace(src, i.end() - 1)]
    # TempFile::create: `File::create(path)` (= O_CREAT|O_TRUNC). Anything else (OpenOptions …) is
    # recognised only if it spells `.truncate(true)`; otherwise the pessimistic fact `false`.
    create = fn_body(tf, "create")
    create_truncates = re.search(r"\bFile\s*::\s*create\s*\(\s*path\s*\)", create) is not None or \
        (re.search(r"OpenOptions", create) is not None and re.search(r"\.\s*truncate\s*\(\s*true\s*\)", create) is not None)
    # does anything open and sync the destination's parent directory after the rename? (recorded, no
    # theorem needs it: without it the *rename* is atomic but not itself durable)
    syncs_parent = re.search(r"\.\s*parent\s*\(\s*\)", src[i.end():match_brace(src, i.end() - 1)]) is not None and \
        re.search(r"sync_all|sync_data", fn_body(tf, "commit")) is not None
    commit = fn_body(tf, "commit")
    c_none = re.search(r"self\s*\.\s*file\s*=\s*None", commit)
    c_ren = re.search(r"fs\s*::\s*rename\s*\(", commit)
    closes_first = bool(c_none and c_ren and c_none.start() < c_ren.start())
    err_arm = commit[commit.find("Err"):] if "Err" in commit else ""
    removes_on_err = re.search(r"remove_file\s*\(\s*&\s*self\s*\.\s*path\s*\)", err_arm) is not None
    d = re.search(r"impl\s+Drop\s+for\s+TempFile\s*\{", src)
    if not d:
        raise ExtractError("impl Drop for TempFile not found")
    drop = src[d.end():match_brace(src, d.end() - 1)]
    drop_removes = re.search(r"if\s+self\s*\.\s*file\s*\.\s*is_some\s*\(\s*\)\s*\{[^}]*remove_file\s*\(\s*&\s*self\s*\.\s*path\s*\)", drop) is not None
    # ChunkReader: last_seen / finished only under `if last`, Ok(0) only under `if self.finished`
    cr = re.search(r"impl\s*<\s*'a\s*>\s*ChunkReader\s*<\s*'a\s*>\s*\{", src)
    if not cr:
        raise ExtractError("impl ChunkReader not found")
    fetch = fn_body(src, "fetch", cr.start())
    m = re.search(r"if\s+last\s*\{([^}]*)\}", fetch)
    sets = re.findall(r"self\s*\.\s*(last_seen|finished)\s*=\s*true", fetch)
    inside = re.findall(r"self\s*\.\s*(last_seen|finished)\s*=\s*true", m.group(1)) if m else []
    last_def = re.search(r"let\s+last\s*=\s*resp\s*\.\s*query\s*\.\s*first\s*\(\s*\)\s*\.\s*copied\s*\(\s*\)\s*==\s*Some\s*\(\s*1\s*\)", fetch) is not None
    rd = re.search(r"impl\s+Read\s+for\s+ChunkReader", src)
    read_body = fn_body(src, "read", rd.start()) if rd else ""
    eof_guarded = re.search(r"if\s+self\s*\.\s*finished\s*\{\s*return\s+Ok\s*\(\s*0\s*\)", read_body) is not None and \
        len(re.findall(r"Ok\s*\(\s*0\s*\)", read_body)) == 1
    reader_ok = last_def and sorted(sets) == sorted(inside) == ["finished", "last_seen"] and eof_guarded
    # pull_loop_async: the call's result is propagated (`.await?`), and the loop returns `Ok(())` in exactly two
    # places: when the consumer is gone (`… && tx.send(..).await.is_err()`) and under `if <last>` where <last> is
    # bound to the first-query-byte test. Anything else (a timeout arm, try_send, a third exit) is `false`.
    pl = fn_body(src, "pull_loop_async")
    oks = [m.start() for m in re.finditer(r"return\s+Ok\s*\(\s*\(\s*\)\s*\)", pl)]
    lm = re.search(r"let\s+(\w+)\s*=\s*(\w+)\s*\.\s*query\s*\.\s*first\s*\(\s*\)\s*\.\s*copied\s*\(\s*\)\s*==\s*Some\s*\(\s*1\s*\)", pl)
    gone = re.search(r"if\s+!\s*\w+\s*\.\s*body\s*\.\s*is_empty\s*\(\s*\)\s*&&\s*\w+\s*\.\s*send\s*\([^;{]*\)\s*\.\s*await\s*\.\s*is_err\s*\(\s*\)\s*\{[^}]*return\s+Ok", pl)
    lastret = re.search(r"if\s+" + (re.escape(lm.group(1)) if lm else "last") + r"\s*\{\s*return\s+Ok", pl) if lm else None
    call_prop = re.search(r"svs_call\s*\(", pl) is not None and re.search(r"\)\s*\.\s*await\s*\?\s*;", pl) is not None
    tail_ok = re.search(r"Ok\s*\(\s*\(\s*\)\s*\)\s*$", pl.strip()) is not None
    async_loop_ok = len(oks) == 2 and bool(lm) and bool(gone) and bool(lastret) and call_prop and not tail_ok and \
        not re.search(r"timeout|try_send|select!", pl) and len(re.findall(r"svs_call\s*\(", pl)) == 1
    # no timer, deadline, sleep or retry arm anywhere in the pull paths (blocking reader, async loop and its
    # driver, channel reader): a wait that gives up or asks again changes what a slow producer's stream means
    TIMER = r"\btimeout\b|\bsleep\b|\bInstant\b|\bDuration\b|\binterval\b|\bretry|\bRETRY|\bdeadline|select!|recv_timeout|try_recv"
    paths = [pl, fn_body(src, "run_pull")]
    crm = re.search(r"impl\s*<\s*'a\s*>\s*ChunkReader\s*<\s*'a\s*>\s*\{", src)
    if crm:
        paths.append(src[crm.end():match_brace(src, crm.end() - 1)])
    for hdr in (r"impl\s+Read\s+for\s+ChunkReader", r"impl\s+Read\s+for\s+ChannelReader"):
        hm = re.search(hdr, src)
        if hm:
            k0 = src.find("{", hm.end())
            paths.append(src[k0:match_brace(src, k0)])
    no_timers = not any(re.search(TIMER, t) for t in paths)
    # with_reader_stream drains the caller's source with std's `io::copy` (which propagates every error kind but
    # the retried `Interrupted`); a hand-written loop is `false`
    rs = re.search(r"fn\s+with_reader_stream\b[^{]*\{", src[re.search(r"impl\s+RouterValueStreamExt\s+for\s+Router", src).start():])
    rsb = ""
    if rs:
        base0 = re.search(r"impl\s+RouterValueStreamExt\s+for\s+Router", src).start()
        k0 = base0 + rs.end() - 1
        rsb = src[k0:match_brace(src, k0)]
    reader_copy = re.search(r"io\s*::\s*copy\s*\(\s*&mut\s+\w+\s*,\s*\w+\s*\)\s*\.\s*map\s*\(", rsb) is not None and \
        not re.search(r"\bloop\b|\bwhile\b|\.\s*read\s*\(|copy_\w+\s*\(", rsb)
    # TeeWriter::write hands every byte to both sinks: two `write_all(buf)?`
    tw = re.search(r"impl\s*<[^>]*>\s*Write\s+for\s+TeeWriter", src)
    tee_all = False
    if tw:
        twb = fn_body(src, "write", tw.start())
        tee_all = len(re.findall(r"\.\s*write_all\s*\(\s*buf\s*\)\s*\?", twb)) == 2 and not re.search(r"\.\s*write\s*\(", twb)
    # temp suffix (string literals are blanked by strip(): read the raw text of temp_sibling)
    raw = read("src/value_stream.rs")
    ts = re.search(r"fn\s+temp_sibling[^{]*\{(.*?)\n\}", raw, re.S)
    sm = re.search(r'name\s*\.\s*push\s*\(\s*"([^"]*)"\s*\)', ts.group(1)) if ts else None
    # recognised naming: take the whole file name, push a literal suffix, put it back with
    # `with_file_name`. Any other derivation (with_extension, set_extension, a fixed name, another
    # directory …) is the pessimistic fact `false`: distinct destinations may then share a temp file.
    tb = ts.group(1) if ts else ""
    appends = bool(sm) and re.search(r"\.\s*file_name\s*\(\s*\)", tb) is not None and \
        re.search(r"final_path\s*\.\s*with_file_name\s*\(\s*name\s*\)", tb) is not None and \
        not re.search(r"with_extension|set_extension|set_file_name|temp_dir|\.\s*join\s*\(", tb)
    suffix = sm.group(1) if sm else ""
    return {"steps": steps, "pullResFirst": pull_first, "tempSuffix": suffix, "tempAppendsToFileName": bool(appends),
            "dropRemovesUncommitted": drop_removes, "commitClosesBeforeRename": closes_first,
            "commitRemovesOnRenameError": removes_on_err, "writeFileCommitsOnlyOnOk": wf_commit_ok_only,
            "readerEofOnlyAfterLast": reader_ok, "tempCreateTruncates": create_truncates,
            "syncsParentDir": syncs_parent, "asyncLoopOkOnlyOnLastOrGone": bool(async_loop_ok),
            "teeWritesAll": bool(tee_all), "pullPathsHaveNoTimers": bool(no_timers),
            "readerProducerUsesIoCopy": bool(reader_copy)}


def render(f):
    b = lambda x: "true" if x else "false"
    lst = lambda v: "[" + ", ".join("." + s for s in v) + "]"
    st = f["steps"]
    return f"""import RepeVerif.Model.Commit
/-! GENERATED by /verif/extract/commit.py from /repo/src/value_stream.rs. -/
namespace Repe.Gen.Commit
open Repe.Commit

/-- Statement order of each file puller (consumer closure, then `run_pull`'s `pull_res?` for the async
ones, then the statements after the pull). -/
def steps : StepFacts :=
  {{ writeFile := {lst(st['writeFile'])},
    trailerSync := {lst(st['trailerSync'])},
    fileAsync := {lst(st['fileAsync'])},
    verifiedAsync := {lst(st['verifiedAsync'])},
    trailerAsync := {lst(st['trailerAsync'])} }}

/-- `run_pull`: `pull_res?;` precedes the `match consume_res`. -/
def pullResFirst : Bool := {b(f['pullResFirst'])}

/-- `temp_sibling`: the suffix pushed onto the destination's file name. -/
def tempSuffix : String := "{f['tempSuffix']}"

/-- … by `file_name()` → `name.push(suffix)` → `final_path.with_file_name(name)`: appended to the whole
file name, same directory (`tempSibling` of the model). Any other derivation is `false`. -/
def tempAppendsToFileName : Bool := {b(f['tempAppendsToFileName'])}

/-- `Drop for TempFile` removes the file while `self.file.is_some()`; `commit` sets `self.file = None`
before `fs::rename`, repoints `self.path` on success and calls `remove_file` on a rename error. -/
def dropRemovesUncommitted : Bool := {b(f['dropRemovesUncommitted'])}
def commitClosesBeforeRename : Bool := {b(f['commitClosesBeforeRename'])}
def commitRemovesOnRenameError : Bool := {b(f['commitRemovesOnRenameError'])}

/-- `write_file`: the error arm returns `Err` without committing; the `Ok` arm is `guard.commit(..)`. -/
def writeFileCommitsOnlyOnOk : Bool := {b(f['writeFileCommitsOnlyOnOk'])}

/-- `ChunkReader::fetch` sets `last_seen`/`finished` only under `if last`, `read` returns `Ok(0)` only
under `if self.finished`. -/
def readerEofOnlyAfterLast : Bool := {b(f['readerEofOnlyAfterLast'])}

/-- `TempFile::create` opens the temp path with create + truncate (`File::create`): a stale temp file
left by a killed pull cannot leak into what is published. -/
def tempCreateTruncates : Bool := {b(f['tempCreateTruncates'])}

/-- `commit` also opens and syncs the destination's parent directory (recorded; no theorem depends on
it — without it the rename is atomic but not yet durable when the pull returns). -/
def syncsParentDir : Bool := {b(f['syncsParentDir'])}

/-- `pull_loop_async` propagates a failed `next` call and returns `Ok(())` only on the `last` flag or when
the consumer dropped its receiver (no timeout arm, no `try_send`, no third exit). -/
def asyncLoopOkOnlyOnLastOrGone : Bool := {b(f['asyncLoopOkOnlyOnLastOrGone'])}

/-- `TeeWriter::write` hands the whole buffer to the file and to the digest (`write_all(buf)?` twice). -/
def teeWritesAll : Bool := {b(f['teeWritesAll'])}

/-- No timer, deadline, sleep or retry arm in the pull paths (`ChunkReader`, `pull_loop_async`, `run_pull`,
`ChannelReader`): a slow producer's stream means what a fast one's does. -/
def pullPathsHaveNoTimers : Bool := {b(f['pullPathsHaveNoTimers'])}

/-- `with_reader_stream` drains the caller's source with `io::copy` (every error kind but the retried
`Interrupted` ends the stream with `Fail`), not with a hand-written loop. -/
def readerProducerUsesIoCopy : Bool := {b(f['readerProducerUsesIoCopy'])}

end Repe.Gen.Commit
"""


if __name__ == "__main__":
    import json
    f = extract()
    print(json.dumps(f, indent=1))
    print(render(f))
