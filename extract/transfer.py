"""Facts for Gen/Transfer.lean (C11, C13), read off src/stream.rs:
the credit predicate of `wait_for_credit` (saturating_sub, `in_flight == 0 ||`, form of the sum
`in_flight + chunk_len`, comparison with the window), the ack cap of `record_ack` (file-index test,
`.min(sent_offset)`, `> acked_offset`), the eviction loop guard of `ReplayRing::push` and the sum in
`highest_end_offset`.  A closed set of forms is recognised; anything else raises ExtractError and the
check falls back to extract/defaults/Transfer.lean (the tie is then the correspondence alone)."""
import re
from rustlex import *

GEN_FILE = "Transfer.lean"
SRC = "src/stream.rs"


def _norm(s):
    """one space between tokens; rustfmt's line breaks inside method chains / call parentheses removed"""
    s = " ".join(s.split())
    s = re.sub(r"\s+\.(?!\.)", ".", s)
    s = re.sub(r"\(\s+", "(", s)
    s = re.sub(r"\s+\)", ")", s)
    s = re.sub(r",\s*\)", ")", s)
    return s


def _line_of(src, needle_regex):
    m = re.search(needle_regex, src)
    return src.count("\n", 0, m.start()) + 1 if m else None


def _split_or(cond):
    """split on top-level `||`"""
    parts, depth, cur, i = [], 0, [], 0
    while i < len(cond):
        ch = cond[i]
        if ch in "([{": depth += 1
        elif ch in ")]}": depth -= 1
        if depth == 0 and cond.startswith("||", i) and not _in_closure_bar(cond, i):
            parts.append("".join(cur).strip()); cur = []; i += 2; continue
        cur.append(ch); i += 1
    parts.append("".join(cur).strip())
    return parts


def _in_closure_bar(cond, i):
    return False  # closures live inside parentheses (depth > 0) in every recognised form


def suspicious_forms(src):
    """Shapes of the anchored source that are *known to be dangerous* for C11 / C13 (each one was a seeded or
    self-seeded breaking change, or a one-token variation of one). They are looked for independently of the
    closed set of recognised forms: when one is present the generated file lists it in `transferSuspicious`
    and `C11.no_suspicious_forms` / `C13.no_suspicious_forms` stop checking — instead of the extractor raising
    ExtractError and the check silently falling back to the committed defaults."""
    sus = []
    def body(block, name):
        try:
            return _norm(fn_body(block, name))
        except Exception:
            return None
    try:
        tc = impl_block(src, r"impl TransferControl\s*\{")
        ring = impl_block(src, r"impl ReplayRing\s*\{")
    except Exception:
        return sus
    b = body(tc, "wait_for_credit")
    if b:
        if re.search(r"in_flight = \w+\.sent_offset ?(-|\.wrapping_sub|\.abs_diff|\.checked_sub|\.max|\.min)", b):
            sus.append("wait_for_credit: in-flight is not `sent_offset.saturating_sub(acked_offset)`")
        k = b.find("let in_flight")
        m = re.search(r"if ((?:[^{}]|\{[^{}]*\})*?) \{ return Ok\(\(\)\); \}", b[k:]) if k >= 0 else None
        if m:
            parts = _split_or(m.group(1))
            if len(parts) > 2 or (len(parts) == 2 and parts[0] not in ("in_flight == 0", "0 == in_flight")):
                sus.append("wait_for_credit: the grant condition has a disjunct other than `in_flight == 0` and the fit test")
            fit = parts[-1]
            if re.search(r"wrapping_add|overflowing_add|unchecked_add|abs_diff| as u32| as i64| as u16| as usize", fit) or re.search(r"(>=|>) \w+\.window_bytes", fit) or "&&" in fit and "is_some_and" not in fit and "map_or" not in fit and "matches!" not in fit:
                sus.append("wait_for_credit: the fit test uses a wrapping / truncating sum or a reversed comparison")
        if len(re.findall(r"return Ok\(\(\)\)", b)) > 1:
            sus.append("wait_for_credit: more than one `return Ok(())`")
    b = body(tc, "record_ack")
    if b:
        m = re.search(r"if file_index (\S+) \w+\.current_file_index", b)
        if m and m.group(1) != "==":
            sus.append(f"record_ack: the file gate is `{m.group(1)}`, not `==`")
        if re.search(r"received_through_offset\.max\(", b) or re.search(r"if capped (<=|<|!=) ", b):
            sus.append("record_ack: the cap / the comparison with acked_offset is reversed")
    b = body(tc, "record_sent")
    if b and re.search(r"\w+\.sent_offset (=|\+=) ", b) and not re.search(r"if new_offset (>|>=) (\w+)\.sent_offset \{ \2\.sent_offset = new_offset; \}", b) \
            and not re.search(r"(\w+)\.sent_offset = \1\.sent_offset\.max\(new_offset\);", b):
        sus.append("record_sent: sent_offset is not kept as a high-water mark")
    b = body(ring, "push")
    if b:
        if not re.search(r"\bwhile\b", b) and re.search(r"if self\.bytes_held (>=|>) self\.capacity_bytes", b):
            sus.append("ReplayRing::push: the eviction is an `if`, not a loop")
        if "pop_back" in b:
            sus.append("ReplayRing::push: evicts with pop_back")
        mw = re.search(r"while [^{]*\{", b)
        if mw:
            i = b.find("{", mw.start())
            lb = b[i:match_brace(b, i)]
            for arg in re.findall(r"\.(?:saturating_sub|wrapping_sub|checked_sub)\((.*?)\);", lb) + re.findall(r"bytes_held -= (.*?);", lb):
                if "front" not in arg:
                    sus.append("ReplayRing::push: the eviction does not subtract the evicted chunk's own wire length")
    # third audit pass (class s): a timer / sleep / retry arm inside TransferControl or the ring that is not there
    # today (the only time arithmetic today is `deadline - now` / `Instant::now() + timeout` in the two waits)
    for blk, who in ((tc, "TransferControl"), (ring, "ReplayRing")):
        if re.search(r"Duration::from_|thread::sleep\s*\(|\.elapsed\s*\(\)|duration_since\s*\(|\.checked_duration_since", blk):
            sus.append(f"{who}: a duration literal / sleep / elapsed-time test appears in its methods (an internal timer arm)")
    for name in ("wait_for_credit", "wait_for_reconnect"):
        b = body(tc, name)
        if b and (len(re.findall(r"wait_timeout\(", b)) != 1 or re.search(r"wait_timeout\([^;]*\.(min|max)\(", b) or re.search(r"\.wait\(", b)):
            sus.append(f"{name}: the park is not the single `wait_timeout(guard, deadline - now)`")
    # (n) the stored cancel reason is written by `cancel` alone (the constructor initialises it): any other
    # method of TransferControl, public or private, that assigns / takes / replaces it is a second way to cancel
    for mfn in re.finditer(r"\bfn\s+(\w+)", tc):
        name = mfn.group(1)
        if name in ("cancel", "with_replay_capacity"):
            continue
        try:
            fb = _norm(fn_body(tc, name, mfn.start()))
        except Exception:
            continue
        if re.search(r"\.cancelled = |\.cancelled\.(take|replace|insert|get_or_insert\w*)\(|cancelled: (Some|None)", fb):
            sus.append(f"TransferControl::{name} writes the stored cancel reason (only `cancel` does today)")
    # shapes found in the second audit pass (classes g–m)
    if re.search(r"\btry_lock\s*\(", tc):
        sus.append("TransferControl: a method uses try_lock (an observer that gives up under contention reports a stale state)")
    if re.search(r"\bpanicking\s*\(\s*\)", src):
        sus.append("stream.rs: behaviour depends on std::thread::panicking()")
    b = body(ring, "replay_from")
    if b and re.search(r"\.(take|skip|step_by|take_while|skip_while)\(", b):
        sus.append("ReplayRing::replay_from: the tail is truncated / thinned (take, skip, …)")
    b = body(tc, "record_ack")
    if b and len(re.findall(r"\.acked_offset = ", b)) > 1:
        sus.append("record_ack: acked_offset is written in more than one place")
    b = body(tc, "record_sent")
    if b and re.search(r"acked_offset = ", b):
        sus.append("record_sent: writes acked_offset")
    b = body(ring, "covers")
    if b:
        if re.search(r"\.offset (<=|>=|<|>|!=) offset|offset (<=|>=|<|>|!=) \w+\.offset", b) or re.search(r"is_empty\(\) \{ return true", b) \
                or re.search(r"highest_end_offset\(\) (>=|<=|>|<|!=)", b):
            sus.append("ReplayRing::covers: a test other than equality with a chunk start / the trailing edge / 0 on an empty ring")
    b = body(ring, "replay_from")
    if b and re.search(r"\.offset (>|<=|<|==|!=) offset", b):
        sus.append("ReplayRing::replay_from: the filter is not `offset >= requested`")
    b = body(tc, "wait_for_reconnect")
    if b and ".pending_resume.take()" not in b and re.search(r"pending_resume\.(clone\(\)|as_ref\(\)|as_mut\(\))|&\w+\.pending_resume", b):
        sus.append("wait_for_reconnect: the pending resume is read without being taken")
    b = body(tc, "request_resume")
    if b:
        if re.search(r"if \w+\.replay\.covers\(", b) and not re.search(r"if !\w+\.replay\.covers\(", b):
            sus.append("request_resume: the ring test is not negated")
        m = re.search(r"if file_index (\S+) \w+\.current_file_index", b)
        if m and m.group(1) != "!=":
            sus.append(f"request_resume: the file test is `{m.group(1)}`, not `!=`")
        if ".cancelled" not in b:
            sus.append("request_resume: cancelled is not tested")
    return sus


def extract():
    """Facts + the list of known-dangerous shapes. An unrecognised form raises ExtractError (→ committed
    defaults) only when no dangerous shape was seen; otherwise the defaults are generated *with* the list, so the
    `no_suspicious_forms` theorems fail instead of the check falling back silently."""
    src = test_mod_cut(strip(read(SRC)))
    sus = suspicious_forms(src)
    try:
        facts = _extract()
    except ExtractError as ex:
        if not sus:
            raise
        facts = {"fallback": True, "unrecognised": str(ex)}
    facts["suspicious"] = sus
    return facts


def _extract():
    full = strip(read(SRC))
    src = test_mod_cut(full)
    facts, where = {}, {}
    tc = impl_block(src, r"impl TransferControl\s*\{")

    # ---- wait_for_credit -------------------------------------------------------------------
    b = fn_body(tc, "wait_for_credit")
    m = re.search(r"let in_flight\s*=\s*(\w+)\.sent_offset\.saturating_sub\(\s*\1\.acked_offset\s*\)\s*;", b)
    if not m: raise ExtractError("wait_for_credit: `let in_flight = G.sent_offset.saturating_sub(G.acked_offset)` not found")
    g = m.group(1)
    # cancel test precedes the credit test, deadline test follows it
    m_if = re.search(r"if\s+((?:[^{}]|\{[^{}]*\})*?)\s*\{\s*return\s+Ok\(\(\)\)\s*;\s*\}", b[m.end():])
    if not m_if: raise ExtractError("wait_for_credit: `if <credit predicate> { return Ok(()); }` not found")
    pos_cancel, pos_pred, pos_deadline = b.find("cancelled"), m.end() + m_if.start(), b.find(">= deadline")
    if not (0 <= pos_cancel < pos_pred < pos_deadline):
        raise ExtractError("wait_for_credit: order (cancel test, credit test, deadline test) not recognised")
    cond = _norm(m_if.group(1))
    parts = _split_or(cond)
    if len(parts) == 2 and re.fullmatch(r"in_flight == 0", parts[0]):
        facts["creditZero"], fit = True, parts[1]
    elif len(parts) == 1:
        facts["creditZero"], fit = False, parts[0]
    else:
        raise ExtractError(f"wait_for_credit: predicate `{cond}` not recognised")
    W = re.escape(g) + r"\.window_bytes"
    mu = re.fullmatch(r"in_flight \+ chunk_len (<=|<) " + W, fit)
    ms = re.fullmatch(r"in_flight\.saturating_add\(chunk_len\) (<=|<) " + W, fit)
    mc = (re.fullmatch(r"in_flight\.checked_add\(chunk_len\)\.is_some_and\(\|(\w+)\| \1 (<=|<) " + W + r"\)", fit)
          or re.fullmatch(r"in_flight\.checked_add\(chunk_len\)\.map_or\(false, \|(\w+)\| \1 (<=|<) " + W + r"\)", fit)
          or re.fullmatch(r"matches!\(in_flight\.checked_add\(chunk_len\), Some\((\w+)\) if \1 (<=|<) " + W + r"\)", fit))
    if mu: facts["creditAdd"], op = "unchecked", mu.group(1)
    elif ms: facts["creditAdd"], op = "saturating", ms.group(1)
    elif mc: facts["creditAdd"], op = "checked", mc.group(2)
    else: raise ExtractError(f"wait_for_credit: fit test `{fit}` not recognised")
    facts["creditLe"] = (op == "<=")

    # ---- record_ack ------------------------------------------------------------------------
    b = fn_body(tc, "record_ack")
    mg = re.search(r"let mut (\w+) = self\.inner\.lock\(\)", b)
    if not mg: raise ExtractError("record_ack: guard binding not found")
    g = re.escape(mg.group(1))
    if re.search(r"if\s+file_index\s*==\s*" + g + r"\.current_file_index\s*\{", b):
        facts["ackFileTest"] = True
    elif "file_index" not in b:
        facts["ackFileTest"] = False
    else:
        raise ExtractError("record_ack: file-index test not recognised")
    if re.search(r"let capped\s*=\s*received_through_offset\.min\(\s*" + g + r"\.sent_offset\s*\)\s*;", b):
        facts["ackCap"] = True
    elif re.search(r"let capped\s*=\s*received_through_offset\s*;", b):
        facts["ackCap"] = False
    else:
        raise ExtractError("record_ack: `let capped = …` not recognised")
    mcmp = re.search(r"if\s+capped\s*(>=|>)\s*" + g + r"\.acked_offset\s*\{", b)
    if not mcmp: raise ExtractError("record_ack: `if capped > G.acked_offset` not recognised")
    facts["ackStrict"] = (mcmp.group(1) == ">")
    if not re.search(g + r"\.acked_offset\s*=\s*capped\s*;", b):
        raise ExtractError("record_ack: `G.acked_offset = capped;` not found")

    # ---- ReplayRing::push eviction loop, highest_end_offset --------------------------------
    ring = impl_block(src, r"impl ReplayRing\s*\{")
    b = fn_body(ring, "push")
    mw = re.search(r"while\s+([^{]*)\{", b)
    if not mw: raise ExtractError("ReplayRing::push: eviction loop not found")
    guard = _norm(mw.group(1))
    m2 = re.fullmatch(r"self\.bytes_held (>=|>) self\.capacity_bytes && self\.chunks\.len\(\) > 1", guard)
    m1 = re.fullmatch(r"self\.bytes_held (>=|>) self\.capacity_bytes", guard)
    if m2: facts["evictHeldGt"], facts["evictKeepOne"] = (m2.group(1) == ">"), True
    elif m1: facts["evictHeldGt"], facts["evictKeepOne"] = (m1.group(1) == ">"), False
    else: raise ExtractError(f"ReplayRing::push: loop guard `{guard}` not recognised")
    i = b.find("{", mw.start())
    loop_body = b[i:match_brace(b, i)]
    if "pop_front" not in loop_body or "pop_back" in loop_body:
        raise ExtractError("ReplayRing::push: the loop does not evict with pop_front")
    if not re.search(r"self\.chunks\.push_back\(", b[:mw.start()]):
        raise ExtractError("ReplayRing::push: push_back before the eviction loop not found")

    b = _norm(fn_body(ring, "highest_end_offset"))
    if re.fullmatch(r"self\.chunks\.back\(\)\.map\(\|(\w+)\| \1\.offset \+ \1\.data_len\)", b):
        facts["edgeAdd"] = "unchecked"
    elif re.fullmatch(r"self\.chunks\.back\(\)\.and_then\(\|(\w+)\| \1\.offset\.checked_add\(\1\.data_len\)\)", b):
        facts["edgeAdd"] = "checked"
    elif re.fullmatch(r"self\.chunks\.back\(\)\.map\(\|(\w+)\| \1\.offset\.saturating_add\(\1\.data_len\)\)", b):
        facts["edgeAdd"] = "saturating"
    else:
        raise ExtractError(f"highest_end_offset: `{b}` not recognised")

    # ---- request_resume implicit ACK, wait_for_reconnect test order, advance_to_file resets ----------
    b = _norm(fn_body(tc, "request_resume"))
    if re.search(r"if last_received_offset > (\w+)\.acked_offset && last_received_offset <= \1\.sent_offset \{ \1\.acked_offset = last_received_offset; \}", b):
        facts["resumeCap"] = True
    elif re.search(r"if last_received_offset > (\w+)\.acked_offset \{ \1\.acked_offset = last_received_offset; \}", b):
        facts["resumeCap"] = False
    else:
        raise ExtractError("request_resume: implicit ACK `if last_received_offset > G.acked_offset [&& … <= G.sent_offset] { G.acked_offset = … }` not recognised")
    b = fn_body(tc, "wait_for_reconnect")
    pc, pp = b.find(".cancelled"), b.find(".pending_resume.take()")
    if pc < 0 or pp < 0:
        raise ExtractError("wait_for_reconnect: cancel test / pending_resume.take() not found")
    facts["reconnCancelFirst"] = pc < pp
    # ---- cancel: the reason is written only while none is stored (`if G.cancelled.is_none() { … }`) --------
    b = _norm(fn_body(tc, "cancel"))
    writes = re.findall(r"(\w+)\.cancelled = ", b)
    if not writes or "notify_all()" not in b:
        raise ExtractError("cancel: no `G.cancelled = …` write / no notify_all() found")
    # recognised first-writer-wins forms: the write under `if G.cancelled.is_none() { … }`, or after an early
    # `if G.cancelled.is_some() { return; }`. Known-dangerous shapes — a guard that looks at the stored string or
    # has an alternative (`is_none_or`, `is_empty`, `trim`, `as_deref`, `map_or`, `||`), no test of `cancelled` at
    # all, more than one write — read as "a later cancel may replace the reason". Anything else: not recognised.
    form_a = re.search(r"if (\w+)\.cancelled\.is_none\(\) \{ \1\.cancelled = Some\(reason\.into\(\)\); self\.cv\.notify_all\(\); \}", b)
    form_b = re.search(r"if (\w+)\.cancelled\.is_some\(\) \{ return; \} \1\.cancelled = Some\(reason\.into\(\)\); self\.cv\.notify_all\(\);", b)
    guard_m = re.search(r"if ([^{]*cancelled[^{]*)\{", b)
    if len(writes) == 1 and (form_a or form_b):
        facts["cancelFirstWins"] = True
    elif len(writes) > 1 or guard_m is None or re.search(r"is_none_or|is_empty|trim\(|as_deref|map_or|\|\||is_some_and|== Some|!= Some|len\(\)", guard_m.group(1)):
        facts["cancelFirstWins"] = False
    else:
        raise ExtractError("cancel: the guard of `G.cancelled = …` is neither a recognised first-writer-wins form nor a known overwriting one")
    b = fn_body(tc, "advance_to_file")
    sts = statements(b)
    facts["advanceDropsPending"] = any(re.fullmatch(r"\w+\.pending_resume = None;", st) for st in sts)
    facts["advanceKeepsCancel"] = "cancelled" not in b
    for need in (r"\.sent_offset = 0;", r"\.acked_offset = 0;", r"\.replay\.clear\(\);", r"\.current_file_index = next_file_index;"):
        if not any(re.fullmatch(r"\w+" + need, st) for st in sts):
            raise ExtractError(f"advance_to_file: top-level statement `G{need}` not found")

    # ---- DEFAULT_* constants, `new` = with_replay_capacity(window, DEFAULT_REPLAY_RING_BYTES) -------------
    def const_u64(name):
        m = re.search(r"pub const " + name + r"\s*:\s*u64\s*=\s*([0-9_\s\*]+);", src)
        if not m: raise ExtractError(f"const {name}: `N * N * …` form not recognised")
        v = 1
        for t in m.group(1).split("*"):
            v *= int(t.strip().replace("_", ""))
        return v
    def const_secs(name):
        m = re.search(r"pub const " + name + r"\s*:\s*Duration\s*=\s*Duration::from_secs\(\s*(\d+)\s*\)\s*;", src)
        if not m: raise ExtractError(f"const {name}: Duration::from_secs(N) not recognised")
        return int(m.group(1))
    facts["defaultWindowBytes"] = const_u64("DEFAULT_WINDOW_BYTES")
    facts["defaultReplayRingBytes"] = const_u64("DEFAULT_REPLAY_RING_BYTES")
    facts["defaultBackpressureSecs"] = const_secs("DEFAULT_BACKPRESSURE_TIMEOUT")
    facts["defaultIdleSecs"] = const_secs("DEFAULT_IDLE_TIMEOUT")
    facts["defaultReconnectSecs"] = const_secs("DEFAULT_RECONNECT_TIMEOUT")
    facts["newUsesDefaultRing"] = _norm(fn_body(tc, "new")) == "Self::with_replay_capacity(window_bytes, DEFAULT_REPLAY_RING_BYTES)"
    # the watchdog touches a transfer only through is_cancelled / timestamps / cancel
    wl = fn_body(src, "watchdog_loop")
    calls = sorted(set(re.findall(r"\bcontrol\s*\.\s*(\w+)\s*\(", wl)))
    facts["watchdogCalls"] = calls
    facts["watchdogOnlyCancels"] = set(calls) <= {"is_cancelled", "timestamps", "cancel"} and "cancel" in calls

    # ---- lock regions of every method of TransferControl ------------------------------------
    # Recognised form: every method that reaches the shared state does so through exactly the guard of
    # `self.inner.lock()`; the number of acquisitions per body is reported (1 = the method is one critical
    # section). A guard that is explicitly dropped, re-bound or scoped away before a second acquisition shows
    # up as a count of 2; `self.inner` used in any other way is not a recognised form.
    lock_calls, guard_drops = [], []
    for mfn in re.finditer(r"\bpub\s+fn\s+(\w+)", tc):
        name = mfn.group(1)
        body = fn_body(tc, name, mfn.start())
        n = len(re.findall(r"\bself\s*\.\s*inner\s*\.\s*lock\s*\(\s*\)", body))
        other = len(re.findall(r"\bself\s*\.\s*inner\b", body)) - n
        if other:
            raise ExtractError(f"TransferControl::{name} reaches self.inner other than through self.inner.lock()")
        if re.search(r"\btry_lock\s*\(", body):
            raise ExtractError(f"TransferControl::{name} uses try_lock")
        if n == 0:
            continue
        lock_calls.append((name, n))
        guards = set(re.findall(r"let\s+(?:mut\s+)?(\w+)\s*=\s*self\s*\.\s*inner\s*\.\s*lock\s*\(\s*\)", body))
        nd = sum(len(re.findall(r"\bdrop\s*\(\s*" + re.escape(gn) + r"\s*\)", body)) for gn in guards)
        guard_drops.append((name, nd))
    required = ["set_peer", "peer", "push_replay", "replay_chunks_from", "request_resume", "wait_for_reconnect",
                "wait_for_credit", "record_sent", "record_ack", "cancel", "is_cancelled", "cancel_reason",
                "advance_to_file", "offsets"]
    for r in required:
        if r not in [n for n, _ in lock_calls]:
            raise ExtractError(f"TransferControl::{r} does not take self.inner.lock()")
    facts["lockCalls"], facts["guardDrops"] = lock_calls, guard_drops

    pats = {"cancel guard": r"pub fn cancel\(", "credit predicate": r"let in_flight\s*=", "ack cap": r"let capped\s*=",
            "eviction guard": r"while\s+self\.bytes_held", "trailing edge": r"fn highest_end_offset"}
    facts["where"] = {k: SRC + ":" + str(_line_of(full, v)) for k, v in pats.items()}
    return facts


def render(f):
    b = lambda x: "true" if x else "false"
    sus_line = "def transferSuspicious : List String := [" + ", ".join('"' + x.replace('\\', '').replace('"', "'") + '"' for x in f.get("suspicious", [])) + "]"
    if f.get("fallback"):
        import os
        text = open(os.path.join(os.path.dirname(os.path.abspath(__file__)), "defaults", GEN_FILE)).read()
        return re.sub(r"def transferSuspicious : List String := \[.*?\]\n", lambda _: sus_line + "\n", text, count=1)
    return "\n".join([
        "import RepeVerif.Model.Transfer",
        "/-! GENERATED by /verif/extract/transfer.py from /repo (src/stream.rs). -/",
        "namespace Repe.Gen",
        "def transferFacts : Transfer.Facts :=",
        f"  {{ creditZero := {b(f['creditZero'])}, creditAdd := .{f['creditAdd']}, creditLe := {b(f['creditLe'])},",
        f"    ackFileTest := {b(f['ackFileTest'])}, ackCap := {b(f['ackCap'])}, ackStrict := {b(f['ackStrict'])},",
        f"    evictHeldGt := {b(f['evictHeldGt'])}, evictKeepOne := {b(f['evictKeepOne'])}, edgeAdd := .{f['edgeAdd']},",
        f"    resumeCap := {b(f['resumeCap'])}, reconnCancelFirst := {b(f['reconnCancelFirst'])},",
        f"    advanceDropsPending := {b(f['advanceDropsPending'])}, advanceKeepsCancel := {b(f['advanceKeepsCancel'])},",
        f"    cancelFirstWins := {b(f['cancelFirstWins'])} }}",
        "/-- For every method of `TransferControl` that takes the mutex: how many times its body calls",
        "`self.inner.lock()` (one acquisition = the whole method is one critical section). -/",
        "def transferLockCalls : List (String × Nat) := [" + ", ".join(f'("{n}", {c})' for n, c in f["lockCalls"]) + "]",
        f"def defaultWindowBytes : Nat := {f['defaultWindowBytes']}",
        f"def defaultReplayRingBytes : Nat := {f['defaultReplayRingBytes']}",
        f"def defaultBackpressureSecs : Nat := {f['defaultBackpressureSecs']}",
        f"def defaultIdleSecs : Nat := {f['defaultIdleSecs']}",
        f"def defaultReconnectSecs : Nat := {f['defaultReconnectSecs']}",
        "/-- `TransferControl::new(w)` is `with_replay_capacity(w, DEFAULT_REPLAY_RING_BYTES)` -/",
        f"def newUsesDefaultRing : Bool := {b(f['newUsesDefaultRing'])}",
        "/-- the only methods `watchdog_loop` calls on a transfer are `is_cancelled`, `timestamps`, `cancel` -/",
        f"def watchdogOnlyCancels : Bool := {b(f['watchdogOnlyCancels'])}",
        "/-- shapes of the source known to be dangerous for C11 / C13 that the extractor saw (`extract/transfer.py`, `suspicious_forms`) -/",
        sus_line,
        "/-- … and how many times it explicitly drops that guard. -/",
        "def transferGuardDrops : List (String × Nat) := [" + ", ".join(f'("{n}", {c})' for n, c in f["guardDrops"]) + "]",
        "end Repe.Gen",
    ]) + "\n"


if __name__ == "__main__":
    import json
    f = extract()
    print(json.dumps(f, indent=1))
    print(render(f))
