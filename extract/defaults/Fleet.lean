import RepeVerif.Model.Fleet
/-! DEFAULT facts (used only when extract/fleet.py does not recognise the source): the tables with BrokenPipe, canonical loops. -/
namespace Repe.Gen.Fleet
open Repe.Fleet
def retryableKinds : List IoKind := [.timedOut, .connectionRefused, .connectionReset, .connectionAborted, .notConnected, .unexpectedEof, .wouldBlock, .interrupted, .brokenPipe]
def asyncRetryableKinds : List IoKind := [.timedOut, .connectionRefused, .connectionReset, .connectionAborted, .notConnected, .unexpectedEof, .wouldBlock, .interrupted, .brokenPipe]
def serverRetry : Bool := false
def otherRetry : Bool := false
def asyncServerRetry : Bool := false
def asyncOtherRetry : Bool := false
def loopJson : LoopForm := ⟨false, true, true⟩
def loopMessage : LoopForm := ⟨false, true, true⟩
def asyncLoopJson : LoopForm := ⟨false, true, true⟩
def asyncLoopMessage : LoopForm := ⟨false, true, true⟩
def filter : FilterForm := .requestedSubsetOfNode
def asyncFilter : FilterForm := .requestedSubsetOfNode
def fanOutOverTargets : Bool := true
def asyncFanOutOverTargets : Bool := true
def policy : Policy := ⟨retryableKinds, serverRetry, otherRetry⟩
def asyncPolicy : Policy := ⟨asyncRetryableKinds, asyncServerRetry, asyncOtherRetry⟩
end Repe.Gen.Fleet
