import RepeVerif.Model.Fleet
/-! DEFAULT facts (used only when extract/fleet.py does not recognise the source): tables with BrokenPipe, canonical loops, dead client = BrokenPipe (blocking) / NotConnected or BrokenPipe (async). -/
namespace Repe.Gen.Fleet
open Repe.Fleet
def retryableKinds : List IoKind := [.timedOut, .connectionRefused, .connectionReset, .connectionAborted, .notConnected, .unexpectedEof, .brokenPipe, .wouldBlock, .interrupted]
def asyncRetryableKinds : List IoKind := [.timedOut, .connectionRefused, .connectionReset, .connectionAborted, .notConnected, .unexpectedEof, .brokenPipe, .wouldBlock, .interrupted]
def serverRetry : Bool := false
def otherRetry : Bool := false
def asyncServerRetry : Bool := false
def asyncOtherRetry : Bool := false
def loopJson : LoopForm := ⟨false, true, true⟩
def loopMessage : LoopForm := ⟨false, true, true⟩
def asyncLoopJson : LoopForm := ⟨false, true, true⟩
def asyncLoopMessage : LoopForm := ⟨false, true, true⟩
def healthForm : HealthForm := ⟨true, true⟩
def asyncHealthForm : HealthForm := ⟨true, true⟩
def nodeTimeout : Bool := true
def asyncNodeTimeout : Bool := true
def filter : FilterForm := .requestedSubsetOfNode
def asyncFilter : FilterForm := .requestedSubsetOfNode
def fanOutOverTargets : Bool := true
def asyncFanOutOverTargets : Bool := true
def invalidateUnconditional : Bool := true
def asyncInvalidateUnconditional : Bool := true
def ensureConnectedCaches : Bool := true
def asyncEnsureConnectedCaches : Bool := true
def resultsKeyedByNode : Bool := true
def asyncResultsKeyedByNode : Bool := true
def maxAttemptsValidated : Bool := true
def asyncMaxAttemptsValidated : Bool := true
def namesDistinctAtConstruction : Bool := true
def asyncNamesDistinctAtConstruction : Bool := true
def namesDistinctAtAdd : Bool := true
def asyncNamesDistinctAtAdd : Bool := true
def deadKinds : List IoKind := [.brokenPipe]
def asyncDeadKinds : List IoKind := [.notConnected, .brokenPipe]
def refusalKind : Option IoKind := none
def asyncRefusalKind : Option IoKind := some .notConnected
def policy : Policy := ⟨retryableKinds, serverRetry, otherRetry, deadKinds.headD .brokenPipe⟩
def asyncPolicy : Policy := ⟨asyncRetryableKinds, asyncServerRetry, asyncOtherRetry, asyncDeadKinds.headD .brokenPipe⟩
end Repe.Gen.Fleet
