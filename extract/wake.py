"""Facts for Gen/Wake.lean (C12), read off `impl TransferControl` in src/stream.rs:

* per signalling method: does it contain `self.cv.notify_all()` (or `notify_one()`: one waiter, same
  thing) and inside which `if` conditions — the *notify table*;
* the order of the four statements in the `loop` of `wait_for_credit` and `wait_for_reconnect`:
  cancel test, condition test, deadline test, `cv.wait_timeout`;
* whether each loop holds the mutex without a gap from its tests to `wait_timeout`
  (`creditAtomic`, `reconnectAtomic`): a second `.lock()`, a scoped guard or a `drop(..)` inside the
  loop is extracted as `false` (a fact the proofs then reject), not as an unrecognised form.

Closed set of recognised forms.  For the notify table an unrecognised guard is NOT an extraction error:
it is recorded as the condition `unknown` ("reached only under a condition we do not understand"), which
the model reads pessimistically, so `source_facts`/`wake_obligation` stop checking.  Structural surprises
(method missing, loop statements not found) raise ExtractError (=> committed defaults, tie by the
correspondence alone).
"""
import re
from rustlex import *

GEN_FILE = "Wake.lean"

METHODS = [("sent", "record_sent"), ("ack", "record_ack"), ("cancel", "cancel"),
           ("advance", "advance_to_file"), ("resume", "request_resume"), ("push", "push_replay")]

NOTIFY = re.compile(r"self\s*\.\s*(\w+)\s*\.\s*notify_(all|one)\s*\(\s*\)")
WAITCV = re.compile(r"self\s*\.\s*(\w+)\s*\.\s*wait_timeout\w*\s*\(")
READERS = ["set_peer", "peer", "replay_chunks_from", "is_cancelled", "cancel_reason", "timestamps", "offsets"]


def norm(s):
    return " ".join(s.split())


def enclosing_headers(body, pos):
    """Texts of the block headers (`if …`, `loop`, …) of every `{` open at body[pos]."""
    stack, start = [], 0
    for i in range(pos):
        ch = body[i]
        if ch == "{":
            stack.append(norm(body[start:i]))
            start = i + 1
        elif ch == "}":
            if not stack:
                raise ExtractError("unbalanced braces")
            stack.pop()
            start = i + 1
        elif ch == ";":
            start = i + 1
    return stack


def cond_of(method, header, body):
    """Map the text of an enclosing `if` to a Cond constructor of Model/Condvar.lean."""
    m = re.fullmatch(r"if (.*)", header)
    if not m:
        # `else`, a `match` arm, a loop …: reached only under a condition we cannot name
        return "unknown"
    c = m.group(1)
    g = r"\w+"
    if method == "record_ack" and re.fullmatch(r"file_index == " + g + r"\.current_file_index", c):
        return "fileMatches"
    if method == "record_ack" and re.fullmatch(r"capped > " + g + r"\.acked_offset", c):
        if not re.search(r"let capped = received_through_offset\.min\(" + g + r"\.sent_offset\);", norm(body)):
            return "unknown"
        return "ackAdvances"
    if method == "cancel" and re.fullmatch(g + r"\.cancelled\.is_none\(\)", c):
        return "notCancelled"
    # An unrecognised guard around a notify is exactly the dangerous case: never fall back to the default
    # table for it.  The fact becomes "notifies only under an unknown condition", which no proof accepts.
    return "unknown"


def notify_entry(imp, method):
    body = fn_body(imp, method)
    sites = list(NOTIFY.finditer(body))
    if not sites:
        return None, []
    entries = []
    for s in sites:
        heads = enclosing_headers(body, s.start())
        conds = [cond_of(method, h, body) for h in heads]
        # every `return` that precedes the call on its own path must be an error return: otherwise a
        # success path skips the notification and the table entry would not describe it
        before = body[:s.start()]
        for r in re.finditer(r"\breturn\b\s*([A-Za-z_:]*)", before):
            if not r.group(1).startswith("Err"):
                conds = conds + ["unknown"]     # a success path leaves before the call
                break
        entries.append(conds)
    # several call sites: the method notifies when any fires; representable only if one is unconditional
    best = min(entries, key=len)
    if len(entries) > 1 and best:
        best = ["unknown"]                       # a disjunction of guards is not representable: pessimistic
    return best, [s.group(2) for s in sites]


class DangerousShape(Exception):
    """A wait loop of a shape that is exactly what C12 is about (no unbounded `loop`, a wait outside it, a
    `*_while` wait that re-tests a private predicate, a test hidden inside another `if`): not a fallback to
    the defaults but the pessimistic fact `loop = []` (nothing is known to be tested), which no proof accepts."""


def hoisted(imp, method):
    """A shared field the condition depends on is read in the wait function outside its loop."""
    b = fn_body(imp, method)
    m = re.search(r"\bloop\s*\{", b)
    if not m:
        return False
    outside = b[:m.start()] + b[match_brace(b, m.end() - 1):]
    return re.search(r"\b(sent_offset|acked_offset|window_bytes|cancelled|pending_resume)\b", outside) is not None


def loop_order(imp, method, pred_re):
    # FACT (pessimistic): the shared fields the condition depends on are read on every pass, i.e. nowhere in
    # the function outside the loop (a value hoisted out of the loop goes stale while the waiter sleeps)
    if hoisted(imp, method):
        return [], False, False
    try:
        return loop_order_(imp, method, pred_re)
    except DangerousShape:
        return [], False, False


def loop_order_(imp, method, pred_re):
    body = fn_body(imp, method)
    m = re.search(r"\bloop\s*\{", body)
    if not m:
        raise DangerousShape(f"{method}: no `loop`")
    end = match_brace(body, m.end() - 1)
    lb = body[m.end():end - 1]
    # the wait must be inside the loop, and nowhere else
    if len(re.findall(r"\.\s*wait_timeout\s*\(", body)) != 1 or not re.search(r"\.\s*wait_timeout\s*\(", lb):
        raise DangerousShape(f"{method}: `wait_timeout` not (only) inside the loop")
    if re.search(r"\.\s*wait\s*\(|wait_while|wait_timeout_while", body):
        raise DangerousShape(f"{method}: other condvar wait form")
    n = norm(lb)
    forms = {
        "cancel": r"if let Some\(\w+\) = \w+\.cancelled\.clone\(\) \{ (?:[^{}]*; )?return [\w:]*\(?[\w:]*Cancelled\(\w+\)\)?;? \}",
        "pred": pred_re,
        # any test that returns Timeout / any argument of the wait: WHICH test and WHICH argument is the
        # clock fact below
        "deadline": r"if ([^{}]*) \{ (?:[^{}]*; )?return [\w:]*\(?[\w:]*Timeout\)?;? \}",
        # the argument may be any expression (a clamp, a slice, an `if`): WHICH one is the clock fact
        "park": r"\. ?wait_timeout\( ?\w+, ?(.*?) ?\) ?\. ?expect\(",
    }
    pos, grp = {}, {}
    for name, rx in forms.items():
        ms = list(re.finditer(rx, n))
        if len(ms) != 1:
            raise ExtractError(f"{method}: loop statement `{name}` found {len(ms)} times")
        pos[name] = ms[0].start()
        grp[name] = ms[0].group(1).strip() if ms[0].groups() else ""
    # every one of them must be a statement of the loop body itself or of a bare `{ … }` block in it
    # (a scoped guard); anything else (if/match/inner loop) is not a recognised form
    scoped = False
    for name in forms:
        raw = re.search(forms[name].replace(" ", r"\s*"), lb)
        if raw is None:
            raise ExtractError(f"{method}: `{name}` not locatable")
        heads = enclosing_headers(lb, raw.start())
        if any(h != "" for h in heads):
            raise DangerousShape(f"{method}: `{name}` is nested in `{heads}`")
        scoped = scoped or bool(heads)
    # FACT: is the mutex held without a gap from the tests to `wait_timeout`?  Recognised as: exactly one
    # `.lock()` in the function, taken before the loop; no statement of the loop is in a scoped block; the
    # guard is never dropped or re-bound by a second lock inside the loop.
    locks = [mm.start() for mm in re.finditer(r"\.lock\(\)", body)]
    atomic = (len(locks) == 1 and locks[0] < m.start() and not scoped
              and not re.search(r"\bdrop\s*\(", lb) and not re.search(r"\.lock\(\)", lb))
    if not locks:
        raise ExtractError(f"{method}: no `.lock()`")
    # FACT: the deadline is re-derived from the monotonic clock on every pass: `let now = Instant::now();`
    # inside the loop before the test `now >= deadline`, and the wait gets `deadline - now` (directly or via
    # `let timeout = deadline - now;`).  Every other form (a sticky `timed_out()` flag, a duration computed
    # once before the loop, …) is the pessimistic fact `false`.
    mnow = re.search(r"let now = (?:std::time::)?Instant::now\(\);", n)
    arg = grp["park"]
    arg_ok = arg in ("deadline - now", "deadline.saturating_duration_since(now)", "deadline.duration_since(now)") or (arg == "timeout" and re.search(r"let timeout = deadline - now;", n) is not None)
    # … and `deadline` itself must be the call's own: the `deadline: Instant` parameter (never re-bound), or the
    # local `let deadline = Instant::now() + timeout;` computed from the call's `timeout` parameter before the
    # loop.  A deadline read from shared state (a field that outlives the call) is the pessimistic fact too.
    sig = re.search(r"\bfn\s+" + method + r"\s*\(([^)]*)\)", imp)
    params = norm(sig.group(1)) if sig else ""
    nb = norm(body)
    binds = re.findall(r"let (?:mut )?deadline\b[^;]*;", nb)
    if re.search(r"\bdeadline: Instant\b", params):
        own_deadline = not binds
    else:
        own_deadline = (re.search(r"\btimeout: Duration\b", params) is not None
                        and len(binds) == 1
                        and re.fullmatch(r"let deadline = (?:std::time::)?Instant::now\(\) \+ timeout;", binds[0]) is not None
                        and nb.find(binds[0]) < nb.find("loop"))
    clock = (mnow is not None and mnow.start() < pos["deadline"] and grp["deadline"] in ("now >= deadline", "deadline <= now") and arg_ok
             and len(re.findall(r"Instant::now\(\)", n)) == 1 and own_deadline
             and not re.search(r"\bdeadline\s*=[^=]", n)
             # (s) any other timer, slice, sleep or retry arm inside the loop is pessimistic too
             and not re.search(r"sleep\s*\(|timed_out|Duration::|park_timeout|from_secs|from_millis|\.elapsed\(|\.min\(|\.max\(", n))
    return [k for k, _ in sorted(pos.items(), key=lambda kv: kv[1])], atomic, clock


def extract():
    src = test_mod_cut(strip(read("src/stream.rs")))
    imp = impl_block(src, r"impl TransferControl\s*\{")
    facts = {"table": {}, "notify_calls": {}}
    for key, method in METHODS:
        conds, kinds = notify_entry(imp, method)
        facts["table"][key] = conds            # None = never, [] = unconditional
        facts["notify_calls"][method] = kinds
    facts["notifyAll"] = all(k == "all" for ks in facts["notify_calls"].values() for k in ks)
    # FACT (pessimistic): each signalling method is ONE critical section taken with a blocking `.lock()`.
    # Two regions, a `try_lock`, no lock at all: the call may notify without (or apart from) its state
    # change, so nothing can rest on its notification.
    for key, method in METHODS:
        b = fn_body(imp, method)
        if len(re.findall(r"\.lock\(\)", b)) != 1 or re.search(r"try_lock|try_write|try_read", b):
            if facts["table"][key] is not None:
                facts["table"][key] = facts["table"][key] + ["unknown"]
    # FACT (pessimistic): one condition variable.  A waiter parked on one condvar is not woken by a notify on
    # another: if the two waits and the notify sites do not all name the same field, no notification counts.
    cvs = set(m.group(1) for _, method in METHODS for m in NOTIFY.finditer(fn_body(imp, method)))
    for w in ("wait_for_credit", "wait_for_reconnect"):
        cvs |= set(m.group(1) for m in WAITCV.finditer(fn_body(imp, w)))
    facts["condvars"] = sorted(cvs)
    if len(cvs) != 1:
        for key in facts["table"]:
            if facts["table"][key] is not None and "unknown" not in facts["table"][key]:
                facts["table"][key] = facts["table"][key] + ["unknown"]
    # FACT: every read-only method (and set_peer) is one critical section: an observation is a state the
    # control really was in
    facts["readersAtomic"] = all(len(re.findall(r"\.lock\(\)", fn_body(imp, r))) == 1
                                 and not re.search(r"try_lock|Atomic|\.load\(", fn_body(imp, r)) for r in READERS)
    facts["creditLoop"], facts["creditAtomic"], facts["creditClock"] = loop_order(
        imp, "wait_for_credit",
        r"if \w+ == 0 \|\| [^{}]*window_bytes[^{}]*\{ (?:[^{}]*; )?return Ok\(\(\)\);? \}")
    facts["reconnectLoop"], facts["reconnectAtomic"], facts["reconnectClock"] = loop_order(
        imp, "wait_for_reconnect",
        r"if let Some\(pending\) = \w+\.pending_resume\.take\(\) \{ (?:[^{}]*; )?return [\w:]*ResumeReady\(pending\);? \}")
    cb = norm(fn_body(imp, "wait_for_credit"))
    if facts["creditLoop"] and not re.search(r"let \w+ = \w+.sent_offset.saturating_sub\(\w+\.acked_offset\);", cb):
        raise ExtractError("wait_for_credit: in_flight is not sent_offset.saturating_sub(acked_offset)")
    return facts


def render(f):
    def ent(c):
        return ".never" if c is None else ".when [" + ", ".join("." + x for x in c) + "]"
    t = f["table"]
    lp = lambda l: "[" + ", ".join("." + x for x in l) + "]"
    return "\n".join([
        "import RepeVerif.Model.Condvar",
        "/-! GENERATED by /verif/extract/wake.py from /repo/src/stream.rs (impl TransferControl). -/",
        "namespace Repe.Gen.Wake",
        "open Repe.Condvar",
        "/-- per method: is `self.cv.notify_all()` reached, and inside which `if`s -/",
        "def table : NotifyTable :=",
        f"  {{ sent := {ent(t['sent'])},",
        f"    ack := {ent(t['ack'])},",
        f"    cancel := {ent(t['cancel'])},",
        f"    advance := {ent(t['advance'])},",
        f"    resume := {ent(t['resume'])},",
        f"    push := {ent(t['push'])} }}",
        "/-- order of the statements in the `loop` of wait_for_credit / wait_for_reconnect -/",
        f"def creditLoop : List WStep := {lp(f['creditLoop'])}",
        f"def reconnectLoop : List WStep := {lp(f['reconnectLoop'])}",
        "/-- is the mutex held from the tests to `wait_timeout` without a gap -/",
        f"def creditAtomic : Bool := {'true' if f['creditAtomic'] else 'false'}",
        f"def reconnectAtomic : Bool := {'true' if f['reconnectAtomic'] else 'false'}",
        "/-- does the deadline test re-read the monotonic clock on every pass (and the wait get `deadline - now`) -/",
        f"def creditClock : Bool := {'true' if f['creditClock'] else 'false'}",
        f"def reconnectClock : Bool := {'true' if f['reconnectClock'] else 'false'}",
        "/-- is every notification `notify_all` -/",
        f"def notifyAll : Bool := {'true' if f['notifyAll'] else 'false'}",
        "/-- is every read-only method (and set_peer) one critical section -/",
        f"def readersAtomic : Bool := {'true' if f['readersAtomic'] else 'false'}",
        "def cfg : Cfg := ⟨table, creditLoop, reconnectLoop, creditAtomic, reconnectAtomic, creditClock, reconnectClock, notifyAll, readersAtomic⟩",
        "end Repe.Gen.Wake",
    ]) + "\n"


if __name__ == "__main__":
    import json
    f = extract()
    print(json.dumps(f, indent=1))
    print(render(f))
