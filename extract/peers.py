"""Facts for C18 (family `peers`) from src/peer.rs: how many times each method of `PeerRegistry` takes
the registry lock (one `self.lock()` per body = the method is one critical section), and the shape
of `broadcast_each` (no lock of its own, one `self.peers()` snapshot, send loop over that snapshot)."""
import re
from rustlex import ExtractError, read, strip, test_mod_cut, impl_block, fn_body, match_brace

GEN_FILE = "Peers.lean"
REQUIRED = ["len", "get", "alias", "get_by", "key_for", "aliases_for", "insert", "remove", "peers"]


def top_level_fns(imp):
    """Names of the `fn`s declared directly in an impl body (depth 0)."""
    names, depth, i = [], 0, 0
    while i < len(imp):
        c = imp[i]
        if c == "{":
            depth += 1
        elif c == "}":
            depth -= 1
        elif depth == 0:
            m = re.match(r"fn\s+(\w+)", imp[i:])
            if m and (i == 0 or not (imp[i - 1].isalnum() or imp[i - 1] == "_")):
                names.append(m.group(1))
                i += len(m.group(0))
                continue
        i += 1
    return names


def extract():
    src = test_mod_cut(strip(read("src/peer.rs")))
    imp = impl_block(src, r"impl PeerRegistry\s*\{")
    lock_calls = []
    for name in top_level_fns(imp):
        body = fn_body(imp, name)
        n = len(re.findall(r"\bself\s*\.\s*lock\s*\(\s*\)", body))
        if n and (name in REQUIRED or name == "is_empty"):
            # only the methods the property observes; other helpers are not the property's business
            lock_calls.append((name, n))
        if name != "lock" and re.search(r"\bself\s*\.\s*inner\b", body) and name not in ("new",):
            raise ExtractError(f"fn {name} reaches self.inner without going through self.lock()")
    for r in REQUIRED:
        if r not in [n for n, _ in lock_calls]:
            raise ExtractError(f"PeerRegistry::{r} does not call self.lock()")
    b = fn_body(imp, "broadcast_each")
    snap = re.findall(r"let\s+(\w+)\s*=\s*self\s*\.\s*peers\s*\(\s*\)\s*;", b)
    loops = bool(snap) and re.search(r"\bfor\s+\w+\s+in\s+" + re.escape(snap[0]) + r"\s*\{", b) is not None
    sends = len(re.findall(r"\.send_notify\s*\(", b))
    if sends != 1:
        raise ExtractError(f"broadcast_each: {sends} send_notify call sites")
    # the lock() helper must lock the one mutex
    if not re.search(r"self\s*\.\s*inner\s*\.\s*lock\s*\(\s*\)", fn_body(imp, "lock")):
        raise ExtractError("fn lock does not lock self.inner")
    facts = {
        "lockCalls": lock_calls,
        "broadcastLockCalls": len(re.findall(r"\bself\s*\.\s*lock\s*\(\s*\)", b)),
        "broadcastSnapshotCalls": len(re.findall(r"\bself\s*\.\s*peers\s*\(\s*\)", b)),
        "broadcastLoopsOverSnapshot": loops,
    }
    facts.update(forms(src, imp, b, snap))
    return facts


def forms(src, imp, bcast, snap):
    """Syntactic forms of the branches the model mirrors. A recognised *deviating* form becomes a
    pessimistic fact (the theorem `source_forms` then fails); anything unrecognised raises
    ExtractError (fallback to the committed defaults: the tie is then the correspondence alone)."""
    f = {}
    # ---- NotifyBody::body_format arms and BodyFormat discriminants
    consts = strip(read("src/constants.rs"))
    m = re.search(r"pub enum BodyFormat\s*\{([^}]*)\}", consts)
    if not m:
        raise ExtractError("enum BodyFormat")
    disc = {n: int(v) for n, v in re.findall(r"(\w+)\s*=\s*(\d+)", m.group(1))}
    nb = impl_block(src, r"impl NotifyBody\s*\{")
    arms = re.findall(r"NotifyBody::(\w+)\(([^)]*)\)\s*=>\s*([^,]+),", fn_body(nb, "body_format"))
    tag = {}
    for var, binds, rhs in arms:
        rhs = rhs.strip()
        m1 = re.fullmatch(r"BodyFormat::(\w+)", rhs)
        if m1 and m1.group(1) in disc:
            tag[var] = disc[m1.group(1)]
        elif re.fullmatch(r"\*\s*(\w+)", rhs) and re.fullmatch(r"\*\s*(\w+)", rhs).group(1) in [x.strip() for x in binds.split(",")]:
            tag[var] = None          # the caller's format, passed through
        else:
            raise ExtractError(f"body_format arm {var} => {rhs}")
    helper = []
    for h in ("broadcast_notify_json", "broadcast_notify_beve", "broadcast_notify_utf8", "broadcast_notify_raw"):
        body = fn_body(imp, h)
        vs = set(re.findall(r"NotifyBody::(\w+)\s*\(", body))
        if len(vs) != 1 or next(iter(vs)) not in tag:
            raise ExtractError(f"{h}: NotifyBody variants {vs}")
        v = next(iter(vs))
        code = tag[v]
        if code is None:
            # Raw: the second constructor argument is the helper's own `body_format` parameter (passed
            # through) or a literal `BodyFormat::X`
            lit = re.search(r"NotifyBody::Raw\s*\([^;]*,\s*BodyFormat::(\w+)\s*\)", body)
            if re.search(r"NotifyBody::Raw\s*\([^;]*,\s*body_format\s*\)", body) and re.search(r"\bbody_format\s*:\s*BodyFormat\b", imp[imp.find("fn " + h):imp.find("fn " + h) + 400]):
                code = None
            elif lit and lit.group(1) in disc:
                code = disc[lit.group(1)]
            else:
                raise ExtractError(f"{h}: Raw format argument")
        if len(re.findall(r"self\s*\.\s*broadcast_each\s*\(", body)) != 1:
            raise ExtractError(f"{h}: broadcast_each calls")
        helper.append((h, code))
    f["helperFormat"] = helper
    # ---- the send loop of broadcast_each: no guard may skip a peer of the snapshot
    mloop = re.search(r"\bfor\s+\w+\s+in\s+" + re.escape(snap[0]) + r"\s*\{", bcast) if snap else None
    if mloop:
        i = bcast.find("{", mloop.end() - 1)
        loop = bcast[i + 1:match_brace(bcast, i) - 1]
        f["broadcastLoopGuards"] = len(re.findall(r"\b(if|continue|break|match|return|while)\b|\?", loop))
        f["broadcastResultInserts"] = len(re.findall(r"\.insert\s*\(", loop))
    else:
        f["broadcastLoopGuards"] = 1
        f["broadcastResultInserts"] = 0
    # ---- alias
    al = fn_body(imp, "alias")
    pos_check = re.search(r"if\s*!\s*inner\s*\.\s*peers\s*\.\s*contains_key\s*\(\s*&\s*peer_id\s*\)\s*\{", al)
    pos_insert = re.search(r"inner\s*\.\s*aliases\s*\.\s*insert\s*\(", al)
    if not pos_insert:
        raise ExtractError("alias: forward insert not found")
    if pos_check:
        f["aliasPresenceCheckFirst"] = pos_check.start() < pos_insert.start()
    elif "contains_key" not in al and not re.search(r"peers\s*\.\s*get\s*\(", al):
        f["aliasPresenceCheckFirst"] = False      # no presence check at all
    elif re.search(r"self\s*\.\s*lock\s*\(\s*\)\s*\.\s*peers\s*\.\s*contains_key", al):
        f["aliasPresenceCheckFirst"] = False      # checked under a different lock acquisition
    else:
        raise ExtractError("alias: presence check form")
    has_prev = bool(re.search(r"alias_index\s*\.\s*get_mut\s*\(\s*&\s*prev\s*\)", al))
    if re.search(r"keys\s*\.\s*retain\s*\(\s*\|\s*k\s*\|\s*k\s*!=\s*&\s*key\s*\)", al):
        f["aliasDetachForm"] = "retain"
    elif re.search(r"swap_remove\s*\(", al):
        f["aliasDetachForm"] = "swap_remove"
    elif re.search(r"keys\s*\.\s*remove\s*\(", al):
        f["aliasDetachForm"] = "remove_at"
    elif "retain" not in al:
        f["aliasDetachForm"] = "none"             # nothing is taken out of the previous owner's list
    else:
        raise ExtractError("alias: detach form")
    if has_prev:
        f["aliasDetachesPrevOwner"] = True
    elif re.search(r"alias_index\s*\.\s*get_mut\s*\(\s*&\s*peer_id\s*\)", al) or "get_mut" not in al:
        f["aliasDetachesPrevOwner"] = False       # detaches from the wrong list / from none
    else:
        raise ExtractError("alias: detach target")
    if re.search(r"entry\s*\(\s*peer_id\s*\)\s*\.\s*or_default\s*\(\s*\)\s*\.\s*push\s*\(\s*key\s*\)", al):
        f["aliasPushForm"] = "push"
    elif re.search(r"or_default\s*\(\s*\)\s*\.\s*insert\s*\(\s*0\s*,", al):
        f["aliasPushForm"] = "insert_front"
    else:
        raise ExtractError("alias: push form")
    if re.search(r"Some\s*\(\s*prev\s*\)\s*if\s+prev\s*==\s*peer_id\s*=>\s*return\s+true", al):
        f["aliasSameOwnerEarlyReturn"] = True
    elif not re.search(r"prev\s*==\s*peer_id|peer_id\s*==\s*prev|prev\s*!=\s*peer_id", al):
        f["aliasSameOwnerEarlyReturn"] = False    # the same-owner case is not distinguished
    else:
        raise ExtractError("alias: same-owner form")
    # ---- remove
    rm = fn_body(imp, "remove")
    if not re.search(r"peers\s*\.\s*remove\s*\(\s*&\s*id\s*\)", rm):
        raise ExtractError("remove: primary removal form")
    f["removeDropsPeer"] = True
    if re.search(r"if\s+let\s+Some\s*\(\s*keys\s*\)\s*=\s*inner\s*\.\s*alias_index\s*\.\s*remove\s*\(\s*&\s*id\s*\)\s*\{", rm):
        f["removeTakesIndexEntry"] = True
    elif re.search(r"alias_index\s*\.\s*get\s*\(\s*&\s*id\s*\)", rm) or "alias_index" not in rm or re.search(r"alias_index\s*\.\s*remove\s*\(\s*&\s*id\s*\)\s*\.\s*filter", rm):
        f["removeTakesIndexEntry"] = False        # entry left behind / ignored
    else:
        raise ExtractError("remove: reverse-index form")
    if re.search(r"if\s+inner\s*\.\s*aliases\s*\.\s*get\s*\(\s*&\s*key\s*\)\s*==\s*Some\s*\(\s*&\s*id\s*\)\s*\{\s*inner\s*\.\s*aliases\s*\.\s*remove\s*\(\s*&\s*key\s*\)\s*;\s*\}", rm):
        f["removePurgeGuard"] = "forward_eq_id"
    elif re.search(r"aliases\s*\.\s*remove\s*\(\s*&\s*key\s*\)", rm) and len(re.findall(r"\bif\b", rm)) <= 1:
        f["removePurgeGuard"] = "none"            # purges without the ownership check
    elif re.search(r"aliases\s*\.\s*remove\s*\(\s*&\s*key\s*\)", rm):
        f["removePurgeGuard"] = "other"           # a different guard decides what is purged
    else:
        raise ExtractError("remove: purge form")
    # ---- lookups
    kf = fn_body(imp, "key_for")
    if re.search(r"keys\s*\.\s*first\s*\(\s*\)", kf):
        f["keyForPick"] = "first"
    elif re.search(r"keys\s*\.\s*last\s*\(\s*\)", kf):
        f["keyForPick"] = "last"
    else:
        raise ExtractError("key_for: pick form")
    gb = fn_body(imp, "get_by")
    f["getByThroughPeers"] = bool(re.search(r"aliases\s*\.\s*get\s*\(\s*key\s*\)\s*\?", gb) and re.search(r"peers\s*\.\s*get\s*\(\s*&\s*id\s*\)", gb))
    if not f["getByThroughPeers"]:
        if re.search(r"peers\s*\.\s*get\s*\(", gb) or re.search(r"\.\s*resolve\s*\(", gb):
            f["getByThroughPeers"] = True      # still goes through some helper / the peer map: unknown but harmless form
            f.setdefault("unrecognised", []).append("get_by")
        elif re.search(r"aliases\s*\.\s*get\s*\(", gb):
            f["getByThroughPeers"] = False     # resolves the alias without consulting the peer map
        else:
            raise ExtractError("get_by: unrecognised form")
    return f


def render(f):
    lc = ", ".join(f'("{n}", {c})' for n, c in f["lockCalls"])
    hf = ", ".join(f'("{n}", {"none" if c is None else "some " + str(c)})' for n, c in f["helperFormat"])
    b = lambda x: "true" if x else "false"
    f = {k: v for k, v in f.items() if k != "unrecognised"}
    return "\n".join([
        "/-! GENERATED by /verif/extract/peers.py from /repo/src/peer.rs (impl PeerRegistry, impl NotifyBody) and src/constants.rs. -/",
        "namespace Repe.Gen.Peers",
        "",
        "/-- For every method of `PeerRegistry` that takes the registry lock: how many times its body calls",
        "`self.lock()` (one call = the whole method is one critical section). -/",
        f"def lockCalls : List (String × Nat) := [{lc}]",
        "",
        "/-- `broadcast_each`: `self.lock()` calls of its own, `self.peers()` snapshot calls, whether the send",
        "loop iterates over that snapshot, control-flow tokens inside the loop body that could skip a peer",
        "(`if`/`continue`/`break`/`match`/`return`/`?`), result-map inserts in the loop body. -/",
        f"def broadcastLockCalls : Nat := {f['broadcastLockCalls']}",
        f"def broadcastSnapshotCalls : Nat := {f['broadcastSnapshotCalls']}",
        f"def broadcastLoopsOverSnapshot : Bool := {b(f['broadcastLoopsOverSnapshot'])}",
        f"def broadcastLoopGuards : Nat := {f['broadcastLoopGuards']}",
        f"def broadcastResultInserts : Nat := {f['broadcastResultInserts']}",
        "",
        "/-- helper -> format code its `NotifyBody` advertises (`NotifyBody::body_format` arm composed with the",
        "`BodyFormat` discriminant); `none` = the caller's `body_format` argument passed through. -/",
        f"def helperFormat : List (String × Option Nat) := [{hf}]",
        "",
        "/-- forms of the branches of `alias`, `remove`, `key_for`, `get_by` -/",
        f"def aliasPresenceCheckFirst : Bool := {b(f['aliasPresenceCheckFirst'])}",
        f"def aliasSameOwnerEarlyReturn : Bool := {b(f['aliasSameOwnerEarlyReturn'])}",
        f"def aliasDetachesPrevOwner : Bool := {b(f['aliasDetachesPrevOwner'])}",
        f"def aliasDetachForm : String := \"{f['aliasDetachForm']}\"",
        f"def aliasPushForm : String := \"{f['aliasPushForm']}\"",
        f"def removeDropsPeer : Bool := {b(f['removeDropsPeer'])}",
        f"def removeTakesIndexEntry : Bool := {b(f['removeTakesIndexEntry'])}",
        f"def removePurgeGuard : String := \"{f['removePurgeGuard']}\"",
        f"def keyForPick : String := \"{f['keyForPick']}\"",
        f"def getByThroughPeers : Bool := {b(f['getByThroughPeers'])}",
        "",
        "end Repe.Gen.Peers", ""])


if __name__ == "__main__":
    import json
    f = extract()
    print(json.dumps(f, indent=1))
    print(render(f))
