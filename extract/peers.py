"""Facts for C18 (family `peers`) from src/peer.rs: how many times each method of `PeerRegistry` takes
the registry lock (one `self.lock()` per body = the method is one critical section), and the shape
of `broadcast_each` (no lock of its own, one `self.peers()` snapshot, send loop over that snapshot)."""
import re
from rustlex import ExtractError, read, strip, test_mod_cut, impl_block, fn_body, match_brace

GEN_FILE = "Peers.lean"
REQUIRED = ["len", "get", "alias", "get_by", "key_for", "aliases_for", "insert", "remove", "peers"]


def top_level_fns(imp):
    """Names of the `fn`s declared directly in an impl body (depth 0)."""
    names, depth, i = [], 0, 0
    while i < len(imp):
        c = imp[i]
        if c == "{":
            depth += 1
        elif c == "}":
            depth -= 1
        elif depth == 0:
            m = re.match(r"fn\s+(\w+)", imp[i:])
            if m and (i == 0 or not (imp[i - 1].isalnum() or imp[i - 1] == "_")):
                names.append(m.group(1))
                i += len(m.group(0))
                continue
        i += 1
    return names


def extract():
    src = test_mod_cut(strip(read("src/peer.rs")))
    imp = impl_block(src, r"impl PeerRegistry\s*\{")
    lock_calls = []
    for name in top_level_fns(imp):
        body = fn_body(imp, name)
        n = len(re.findall(r"\bself\s*\.\s*lock\s*\(\s*\)", body))
        if n and (name in REQUIRED or name == "is_empty"):
            # only the methods the property observes; other helpers are not the property's business
            lock_calls.append((name, n))
        if name != "lock" and re.search(r"\bself\s*\.\s*inner\b", body) and name not in ("new",):
            raise ExtractError(f"fn {name} reaches self.inner without going through self.lock()")
    for r in REQUIRED:
        if r not in [n for n, _ in lock_calls]:
            raise ExtractError(f"PeerRegistry::{r} does not call self.lock()")
    b = fn_body(imp, "broadcast_each")
    snap = re.findall(r"let\s+(\w+)\s*=\s*self\s*\.\s*peers\s*\(\s*\)\s*;", b)
    # `for peer in snapshot {`, `… in snapshot.into_iter() {`, `… in snapshot.iter() {`, `… in &snapshot {` are the
    # same loop; any other adapter on it (take/skip/filter/rev/step_by/…) may leave peers out
    LOOP_HEAD = r"\bfor\s+\w+\s+in\s+&?\s*%s\s*(\.\s*(into_iter|iter)\s*\(\s*\))?\s*\{"
    loops = bool(snap) and re.search(LOOP_HEAD % re.escape(snap[0]), b) is not None
    sends = len(re.findall(r"\.send_notify\s*\(", b))
    if sends != 1:
        raise ExtractError(f"broadcast_each: {sends} send_notify call sites")
    # the lock() helper must lock the one mutex
    if not re.search(r"self\s*\.\s*inner\s*\.\s*lock\s*\(\s*\)", fn_body(imp, "lock")):
        raise ExtractError("fn lock does not lock self.inner")
    facts = {
        "lockCalls": lock_calls,
        "broadcastLockCalls": len(re.findall(r"\bself\s*\.\s*lock\s*\(\s*\)", b)),
        "broadcastSnapshotCalls": len(re.findall(r"\bself\s*\.\s*peers\s*\(\s*\)", b)),
        "broadcastLoopsOverSnapshot": loops,
    }
    facts.update(forms(src, imp, b, snap))
    return facts


GOOD = {
    "broadcastLoopGuards": 0, "broadcastResultInserts": 1,
    "aliasPresenceCheckFirst": True, "aliasSameOwnerEarlyReturn": True, "aliasDetachesPrevOwner": True,
    "aliasDetachForm": "retain", "aliasPushForm": "push", "removeDropsPeer": True,
    "removeTakesIndexEntry": True, "removePurgeGuard": "forward_eq_id", "keyForPick": "first",
    "getByThroughPeers": True, "lockRecoversPoison": True, "registryTimersOrThreads": 0,
}
W = r"[A-Za-z_]\w*"


def forms(src, imp, bcast, snap):
    """Syntactic forms of the branches the model mirrors, one recogniser per fact.  A recognised
    *deviating* form becomes a pessimistic fact (`source_forms` / `broadcast_entry_points` then fail);
    a form the recogniser does not know raises ExtractError *for that fact only*: the fact keeps its
    committed default and is listed under `unrecognised` in the evidence (tie = correspondence alone)."""
    f = {}
    unrec = []

    def fact(name, fn):
        try:
            f[name] = fn()
        except ExtractError as e:
            f[name] = GOOD[name]
            unrec.append(f"{name}: {e}")

    f["helperFormat"] = helper_formats(src, imp)      # its own failure falls back as a whole (raises)
    # ---- the send loop of broadcast_each: nothing may skip a peer of the snapshot
    mloop = re.search(r"\bfor\s+\w+\s+in\s+&?\s*" + re.escape(snap[0]) + r"\s*(\.\s*(into_iter|iter)\s*\(\s*\))?\s*\{", bcast) if snap else None
    if mloop:
        i = bcast.find("{", mloop.end() - 1)
        loop = bcast[i + 1:match_brace(bcast, i) - 1]
        jumps = len(re.findall(r"\b(continue|break|return)\b|\?", loop))
        # is the send or the result insert nested in a block of its own (an `if`, a `match` arm, ...)?
        nested = 0
        depth = 0
        for j, ch in enumerate(loop):
            if ch == "{":
                depth += 1
            elif ch == "}":
                depth -= 1
            elif depth > 0 and (loop.startswith(".send_notify", j) or loop.startswith("out.insert", j)):
                nested += 1
        f["broadcastLoopGuards"] = jumps + nested
        f["broadcastResultInserts"] = len(re.findall(r"\.insert\s*\(", loop))
    else:
        f["broadcastLoopGuards"] = 1
        f["broadcastResultInserts"] = 0
    al = fn_body(imp, "alias")
    rm = fn_body(imp, "remove")
    kf = fn_body(imp, "key_for")
    gb = fn_body(imp, "get_by")

    def presence():
        pos_insert = re.search(r"aliases\s*\.\s*insert\s*\(", al)
        if not pos_insert:
            raise ExtractError("forward insert not found")
        checks = [re.search(r"if\s*!\s*" + W + r"\s*\.\s*peers\s*\.\s*contains_key\s*\(\s*&\s*peer_id\s*\)\s*\{", al),
                  re.search(r"let\s+Some\s*\([^)]*\)\s*=\s*" + W + r"\s*\.\s*peers\s*\.\s*get\s*\(\s*&\s*peer_id\s*\)\s*else\s*\{\s*return\s+false", al),
                  re.search(r"if\s+" + W + r"\s*\.\s*peers\s*\.\s*get\s*\(\s*&\s*peer_id\s*\)\s*\.\s*is_none\s*\(\s*\)\s*\{", al)]
        checks = [c for c in checks if c]
        if checks:
            return min(c.start() for c in checks) < pos_insert.start()
        if re.search(r"self\s*\.\s*lock\s*\(\s*\)\s*\.\s*peers\s*\.\s*(contains_key|get)\s*\(", al):
            return False                      # checked under a different lock acquisition
        if not re.search(r"peers\s*\.\s*(contains_key|get)\s*\(", al):
            return False                      # no presence check at all
        raise ExtractError("presence check form")

    def detach_form():
        m = re.search(r"\.\s*retain\s*\(\s*\|\s*(" + W + r")\s*\|\s*(.*?)\)\s*;", al, re.S)
        if m:
            v, body = m.group(1), " ".join(m.group(2).split())
            ne = [f"{v} != &key", f"*{v} != key", f"{v}.as_str() != key", f"{v}.as_str() != key.as_str()", f"&key != {v}", f"{v} != &key.clone()"]
            eq = [x.replace("!=", "==") for x in ne]
            if body in ne:
                return "retain"
            if body in eq:
                return "retain_inverted"
            raise ExtractError(f"retain closure `{body}`")
        if re.search(r"swap_remove\s*\(", al):
            return "swap_remove"
        if re.search(r"\.\s*clear\s*\(\s*\)", al):
            return "clear"
        if re.search(r"\.\s*(pop|truncate|drain|dedup)\s*\(", al):
            return "other"
        if re.search(r"position\s*\(", al) and re.search(r"\.\s*remove\s*\(", al):
            return "remove_at"               # order-preserving Vec::remove at the found position
        if "retain" not in al:
            return "none"                     # nothing is taken out of the previous owner's list
        raise ExtractError("detach form")

    def detach_target():
        if re.search(r"alias_index\s*\.\s*get_mut\s*\(\s*&\s*prev\s*\)", al):
            # a second statement that drops a whole list in this branch is not part of the modelled form
            if re.search(r"alias_index\s*\.\s*remove\s*\(", al):
                return False
            return True
        if re.search(r"alias_index\s*\.\s*get_mut\s*\(\s*&\s*peer_id\s*\)", al) or "get_mut" not in al:
            return False                      # detaches from the wrong list / from none
        raise ExtractError("detach target")

    def push_form():
        pushes = len(re.findall(r"\.\s*push\s*\(", al))
        if re.search(r"entry\s*\(\s*peer_id\s*\)\s*\.\s*or_default\s*\(\s*\)", al) and re.search(r"\.\s*push\s*\(\s*key(\.clone\(\))?\s*\)", al):
            return "push" if pushes == 1 else "push_twice"
        if re.search(r"\.\s*insert\s*\(\s*0\s*,", al):
            return "insert_front"
        raise ExtractError("push form")

    def same_owner():
        if re.search(r"Some\s*\(\s*prev\s*\)\s*if\s+prev\s*==\s*peer_id\s*=>\s*(return\s+true|\{\s*return\s+true\s*;?\s*\})", al):
            return True
        if re.search(r"if\s+prev\s*==\s*peer_id\s*\{\s*return\s+true\s*;?\s*\}", al):
            return True
        if not re.search(r"prev\s*==\s*peer_id|peer_id\s*==\s*prev|prev\s*!=\s*peer_id|peer_id\s*!=\s*prev", al):
            return False                      # the same-owner case is not distinguished
        raise ExtractError("same-owner form")

    def drops_peer():
        if re.search(r"peers\s*\.\s*remove\s*\(\s*&\s*id\s*\)", rm):
            return True
        if "peers" not in rm:
            return False
        raise ExtractError("primary removal form")

    def index_entry():
        if re.search(r"alias_index\s*\.\s*remove\s*\(\s*&\s*id\s*\)\s*\.\s*filter", rm):
            return False
        if re.search(r"alias_index\s*\.\s*remove\s*\(\s*&\s*id\s*\)", rm):
            return True
        if re.search(r"alias_index\s*\.\s*get(_mut)?\s*\(\s*&\s*id\s*\)", rm) or "alias_index" not in rm:
            return False                      # entry left behind / ignored
        raise ExtractError("reverse-index form")

    def purge_guard():
        if not re.search(r"aliases\s*\.\s*remove\s*\(\s*&?\s*key\s*\)", rm):
            if re.search(r"aliases\s*\.\s*retain\s*\(\s*\|\s*_\s*,\s*(" + W + r")\s*\|\s*\*?\s*\1\s*!=\s*id\s*\)", rm):
                return "forward_eq_id"        # `aliases.retain(|_, v| *v != id)`: the same set of keys
            if "aliases" not in rm:
                return "never"                # the forward map is not purged at all
            raise ExtractError("purge form")
        if re.search(r"if\s+" + W + r"\s*\.\s*aliases\s*\.\s*get\s*\(\s*&\s*key\s*\)\s*==\s*Some\s*\(\s*&\s*id\s*\)\s*\{\s*" + W + r"\s*\.\s*aliases\s*\.\s*remove\s*\(\s*&\s*key\s*\)\s*;\s*\}", rm):
            return "forward_eq_id"
        # is the remove call guarded by any condition at all?
        m = re.search(r"for\s+key\s+in\s+keys\s*\{", rm)
        if m:
            i = rm.find("{", m.end() - 1)
            body = rm[i + 1:match_brace(rm, i) - 1]
            if not re.search(r"\b(if|match)\b", body):
                return "none"                 # purges without the ownership check (a no-op under the invariant)
            return "other"                    # a different guard decides what is purged
        raise ExtractError("purge loop form")

    def key_pick():
        if re.search(r"\.\s*first\s*\(\s*\)|\.\s*get\s*\(\s*0\s*\)|\.\s*iter\s*\(\s*\)\s*\.\s*next\s*\(\s*\)", kf):
            return "first"
        if re.search(r"\.\s*last\s*\(\s*\)|next_back\s*\(\s*\)|\.\s*iter\s*\(\s*\)\s*\.\s*(last|max|min)\s*\(", kf):
            return "last"
        raise ExtractError("pick form")

    def get_by_form():
        if re.search(r"aliases\s*\.\s*get\s*\(\s*key\s*\)", gb) and re.search(r"peers\s*\.\s*get\s*\(\s*&?\s*\*?\s*id\s*\)", gb):
            return True
        if re.search(r"peers\s*\.\s*get\s*\(", gb) or re.search(r"\.\s*resolve\s*\(", gb):
            raise ExtractError("goes through a helper")     # unknown but it does consult something else: keep default
        if re.search(r"aliases\s*\.\s*get\s*\(", gb):
            return False                      # resolves the alias without consulting the peer map
        raise ExtractError("unrecognised form")

    fact("aliasPresenceCheckFirst", presence)
    fact("aliasDetachForm", detach_form)
    fact("aliasDetachesPrevOwner", detach_target)
    fact("aliasPushForm", push_form)
    fact("aliasSameOwnerEarlyReturn", same_owner)
    fact("removeDropsPeer", drops_peer)
    fact("removeTakesIndexEntry", index_entry)
    fact("removePurgeGuard", purge_guard)
    fact("keyForPick", key_pick)
    fact("getByThroughPeers", get_by_form)

    def poison_form():
        lk = fn_body(imp, "lock")
        if re.search(r"into_inner\s*\(\s*\)", lk) and re.search(r"self\s*\.\s*inner\s*\.\s*lock\s*\(\s*\)", lk):
            return True                       # match … Err(p) => p.into_inner() / unwrap_or_else(|e| e.into_inner())
        if re.search(r"\.\s*lock\s*\(\s*\)\s*\.\s*(unwrap|expect)\s*\(", lk) or re.search(r"Err\s*\([^)]*\)\s*=>\s*(panic!|unreachable!|std::process::abort)", lk):
            return False                      # a poisoned mutex takes the registry down for good
        raise ExtractError("lock form")

    fact("lockRecoversPoison", poison_form)
    # (s) any timer / sleep / timeout / retry / thread hand-off inside the registry's methods is not there today:
    # whatever form it takes, it is a pessimistic fact
    f["registryTimersOrThreads"] = len(re.findall(r"\b(sleep|timeout|Instant|Duration|elapsed|recv_timeout|park_timeout|wait_timeout|thread\s*::\s*(spawn|scope)|spawn_blocking|rayon|retry|retries|attempts?)\b", imp))
    if unrec:
        f["unrecognised"] = unrec
    return f


def helper_formats(src, imp):
    consts = strip(read("src/constants.rs"))
    m = re.search(r"pub enum BodyFormat\s*\{([^}]*)\}", consts)
    if not m:
        raise ExtractError("enum BodyFormat")
    disc = {n: int(v) for n, v in re.findall(r"(\w+)\s*=\s*(\d+)", m.group(1))}
    nb = impl_block(src, r"impl NotifyBody\s*\{")
    arms = re.findall(r"NotifyBody::(\w+)\(([^)]*)\)\s*=>\s*([^,]+),", fn_body(nb, "body_format"))
    tag = {}
    for var, binds, rhs in arms:
        rhs = rhs.strip()
        m1 = re.fullmatch(r"BodyFormat::(\w+)", rhs)
        if m1 and m1.group(1) in disc:
            tag[var] = disc[m1.group(1)]
        elif re.fullmatch(r"\*\s*(\w+)", rhs) and re.fullmatch(r"\*\s*(\w+)", rhs).group(1) in [x.strip() for x in binds.split(",")]:
            tag[var] = None          # the caller's format, passed through
        else:
            raise ExtractError(f"body_format arm {var} => {rhs}")
    helper = []
    for h in ("broadcast_notify_json", "broadcast_notify_beve", "broadcast_notify_utf8", "broadcast_notify_raw"):
        body = fn_body(imp, h)
        vs = set(re.findall(r"NotifyBody::(\w+)\s*\(", body))
        delegates = re.findall(r"self\s*\.\s*(broadcast_notify_\w+)\s*\(", body)
        if delegates:
            # a helper that hands (some of) its work to another helper does not have one format of its own
            helper.append((h, 999))
            continue
        if len(vs) != 1 or next(iter(vs)) not in tag:
            raise ExtractError(f"{h}: NotifyBody variants {vs}")
        v = next(iter(vs))
        code = tag[v]
        if code is None:
            lit = re.search(r"NotifyBody::Raw\s*\([^;]*,\s*BodyFormat::(\w+)\s*\)", body)
            if re.search(r"NotifyBody::Raw\s*\([^;]*,\s*body_format\s*\)", body) and re.search(r"\bbody_format\s*:\s*BodyFormat\b", imp[imp.find("fn " + h):imp.find("fn " + h) + 400]):
                code = None
            elif lit and lit.group(1) in disc:
                code = disc[lit.group(1)]
            else:
                raise ExtractError(f"{h}: Raw format argument")
        if len(re.findall(r"self\s*\.\s*broadcast_each\s*\(", body)) != 1:
            raise ExtractError(f"{h}: broadcast_each calls")
        helper.append((h, code))
    return helper


def render(f):
    lc = ", ".join(f'("{n}", {c})' for n, c in f["lockCalls"])
    hf = ", ".join(f'("{n}", {"none" if c is None else "some " + str(c)})' for n, c in f["helperFormat"])
    b = lambda x: "true" if x else "false"
    f = {k: v for k, v in f.items() if k != "unrecognised"}
    return "\n".join([
        "/-! GENERATED by /verif/extract/peers.py from /repo/src/peer.rs (impl PeerRegistry, impl NotifyBody) and src/constants.rs. -/",
        "namespace Repe.Gen.Peers",
        "",
        "/-- For every method of `PeerRegistry` that takes the registry lock: how many times its body calls",
        "`self.lock()` (one call = the whole method is one critical section). -/",
        f"def lockCalls : List (String × Nat) := [{lc}]",
        "",
        "/-- `broadcast_each`: `self.lock()` calls of its own, `self.peers()` snapshot calls, whether the send",
        "loop iterates over that snapshot, control-flow tokens inside the loop body that could skip a peer",
        "(`if`/`continue`/`break`/`match`/`return`/`?`), result-map inserts in the loop body. -/",
        f"def broadcastLockCalls : Nat := {f['broadcastLockCalls']}",
        f"def broadcastSnapshotCalls : Nat := {f['broadcastSnapshotCalls']}",
        f"def broadcastLoopsOverSnapshot : Bool := {b(f['broadcastLoopsOverSnapshot'])}",
        f"def broadcastLoopGuards : Nat := {f['broadcastLoopGuards']}",
        f"def broadcastResultInserts : Nat := {f['broadcastResultInserts']}",
        "",
        "/-- helper -> format code its `NotifyBody` advertises (`NotifyBody::body_format` arm composed with the",
        "`BodyFormat` discriminant); `none` = the caller's `body_format` argument passed through. -/",
        f"def helperFormat : List (String × Option Nat) := [{hf}]",
        "",
        "/-- forms of the branches of `alias`, `remove`, `key_for`, `get_by` -/",
        f"def aliasPresenceCheckFirst : Bool := {b(f['aliasPresenceCheckFirst'])}",
        f"def aliasSameOwnerEarlyReturn : Bool := {b(f['aliasSameOwnerEarlyReturn'])}",
        f"def aliasDetachesPrevOwner : Bool := {b(f['aliasDetachesPrevOwner'])}",
        f"def aliasDetachForm : String := \"{f['aliasDetachForm']}\"",
        f"def aliasPushForm : String := \"{f['aliasPushForm']}\"",
        f"def removeDropsPeer : Bool := {b(f['removeDropsPeer'])}",
        f"def removeTakesIndexEntry : Bool := {b(f['removeTakesIndexEntry'])}",
        f"def removePurgeGuard : String := \"{f['removePurgeGuard']}\"",
        f"def keyForPick : String := \"{f['keyForPick']}\"",
        f"def getByThroughPeers : Bool := {b(f['getByThroughPeers'])}",
        "",
        "/-- `lock()` recovers the guard from a poisoned mutex (a caller that panicked while holding it) -/",
        f"def lockRecoversPoison : Bool := {b(f['lockRecoversPoison'])}",
        "",
        "/-- occurrences of timer / sleep / timeout / retry / thread hand-off tokens inside `impl PeerRegistry` -/",
        f"def registryTimersOrThreads : Nat := {f['registryTimersOrThreads']}",
        "",
        "end Repe.Gen.Peers", ""])


if __name__ == "__main__":
    import json
    f = extract()
    print(json.dumps(f, indent=1))
    print(render(f))
