"""Facts for Gen/Lifecycle.lean: where `handle_connection_with_config` spawns the writer, declares the
DisconnectGuard, runs the connect-hook loops and starts the reader; the order inside
`DisconnectGuard::drop`; and whether the writer handle is wrapped in an aborting guard."""
import re
from rustlex import *

GEN_FILE = "Lifecycle.lean"
SRC = "src/websocket_server.rs"
FIELDS = ["writerBeforeGuard", "guardBeforeHooks", "guardInReaderBlock", "hooksBeforeReader", "cancelBeforeHooks", "abortOnDrop"]


def _line(src, pos):
    return src.count("\n", 0, pos) + 1


def _enclosing_block(s, pos):
    """(start, end) of the innermost `{…}` of `s` that contains `pos` (end = index just past `}`)."""
    depth = 0
    for i in range(pos - 1, -1, -1):
        if s[i] == "}": depth += 1
        elif s[i] == "{":
            if depth == 0:
                return i, match_brace(s, i)
            depth -= 1
    raise ExtractError("no enclosing block")


def _one(rx, s, what):
    ms = list(re.finditer(rx, s))
    if len(ms) != 1:
        raise ExtractError(f"{what}: expected exactly one occurrence, found {len(ms)}")
    return ms[0]


def extract():
    whole = test_mod_cut(strip(read(SRC)))
    m = re.search(r"\basync\s+fn\s+handle_connection_with_config\b", whole)
    if not m: raise ExtractError("fn handle_connection_with_config not found")
    b0 = whole.find("{", m.end())      # neither the parameter list nor the where-clause contains a brace
    b1 = match_brace(whole, b0)
    body = whole[b0 + 1:b1 - 1]
    off = b0 + 1

    spawn = _one(r"let\s+(\w+)\s*=\s*(AbortOnDrop\s*\(\s*)?tokio::spawn\s*\(\s*writer_task\s*\(", body, "writer spawn")
    writer_var, wrapped = spawn.group(1), bool(spawn.group(2))
    guard = _one(r"let\s+(\w+)\s*=\s*DisconnectGuard\s*\{", body, "DisconnectGuard construction")
    guard_named = guard.group(1) != "_"
    h1 = _one(r"for\s+hook\s+in\s+config\.on_connect\.iter\(\)", body, "plain connect-hook loop")
    h2 = _one(r"for\s+hook\s+in\s+config\.on_connect_ctx\.iter\(\)", body, "handshake connect-hook loop")
    rd = _one(r"\breader_task\s*\(", body, "reader_task call")
    sig = _one(r"\bshutdown_tx\.send\s*\(", body, "shutdown signal")
    aw = _one(r"\b" + re.escape(writer_var) + r"\.await\b", body, "writer await")
    sel = re.search(r"tokio::select!\s*\{", body)
    if not sel: raise ExtractError("select! over the reader not found")
    sel_end = match_brace(body, sel.end() - 1)
    if not (sel.start() < rd.start() < sel_end): raise ExtractError("reader_task is not an arm of the select!")
    if not re.search(r"conn_token\.cancelled\(\)", body[sel.start():sel_end]): raise ExtractError("select! has no cancelled() arm")
    # each loop body calls the hook
    for h, nm in ((h1, "plain"), (h2, "ctx")):
        lb = body.find("{", h.end())
        if "hook(" not in body[lb:match_brace(body, lb)]: raise ExtractError(f"{nm} connect loop does not call hook(")

    try:
        blk_s, blk_e = _enclosing_block(body, guard.start())
        in_block = (guard_named and blk_s < h1.start() < blk_e and blk_s < h2.start() < blk_e and blk_s < rd.start() < blk_e
                    and blk_e <= sig.start() and guard.start() < rd.start())
    except ExtractError:
        in_block = False      # the guard is a local of the function body itself

    dimpl = impl_block(whole, r"impl\s+Drop\s+for\s+DisconnectGuard\s*\{")
    dbody = fn_body(dimpl, "drop")
    c = re.search(r"self\.cancel\.cancel\s*\(\s*\)", dbody)
    l = re.search(r"for\s+hook\s+in\s+self\.hooks\.iter\(\)", dbody)
    if not l: raise ExtractError("DisconnectGuard::drop: hook loop not found")
    lb = dbody.find("{", l.end())
    if "hook(self.peer_id)" not in re.sub(r"\s+", "", dbody[lb:match_brace(dbody, lb)]): raise ExtractError("DisconnectGuard::drop: loop does not call hook(self.peer_id)")
    if not c: raise ExtractError("DisconnectGuard::drop: cancel() call not found")

    abort_impl = False
    mm = re.search(r"impl\s*<\s*T\s*>\s*Drop\s+for\s+AbortOnDrop\s*<\s*T\s*>\s*\{", whole)
    if mm:
        ab = fn_body(whole[mm.start():match_brace(whole, mm.end() - 1)], "drop")
        abort_impl = bool(re.search(r"self\.0\.abort\s*\(\s*\)", ab))

    # the handshake's path check: `request.uri().path() == self.expected` guarding the only `Ok(response)`,
    # and the three branches of normalize_path
    vimpl = impl_block(whole, r"impl\s+Callback\s+for\s+WebSocketPathValidator\s*\{")
    vb = re.sub(r"\s+", " ", fn_body(vimpl, "on_request"))
    path_exact = bool(re.search(r"if request\.uri\(\)\.path\(\) == self\.expected \{", vb)) and vb.count("Ok(response)") == 1 \
        and bool(re.search(r"\} else \{ Err\(path_not_found_response\(request\)\) \}", vb))
    nb = re.sub(r"\s+", " ", fn_body(whole, "normalize_path"))
    norm_form = bool(re.fullmatch(
        r' ?if path\.is_empty\(\) \|\| path == "\s*" \{ "\s*"\.to_string\(\) \} else if path\.starts_with\(\' \'\) \{ path\.trim_end_matches\(\' \'\)\.to_string\(\) \} else \{ format!\("\s*", path\.trim_end_matches\(\' \'\)\) \} ?', nb))
    # the literals are blanked by strip(); read them from the raw source
    raw = read(SRC)
    rn = raw[raw.index("fn normalize_path"):]
    rn = rn[:rn.index("\n}\n") + 3]
    norm_lits = rn.count("'/'") == 3 and '"/".to_string()' in rn and 'path == "/"' in rn and 'format!("/{}"' in rn
    # accept_and_serve: exactly one report per outcome
    ab = re.sub(r"\s+", " ", fn_body(whole, "accept_and_serve"))
    one_report = ab.count("self.report_error(") == 2 and "ConnectionError::Connection(err)" in ab and "ConnectionError::Handshake(err)" in ab

    # peer ids: one atomic read-modify-write on the shared counter
    id_fetch_add = bool(re.search(r"let\s+peer_id_value\s*=\s*config\.peer_id_counter\.fetch_add\(\s*1\s*,", body)) \
        and not re.search(r"peer_id_counter\s*\.\s*(store|load|swap|compare_exchange)", body)
    # with_peer_registry appends its two hooks through the ordinary registrars, which push at the end
    wb = re.sub(r"\s+", " ", fn_body(whole, "with_peer_registry"))
    appended = bool(re.search(r"self\.on_peer_connect\(move \|peer\| insert_registry\.insert\(peer\)\) \.on_peer_disconnect\(move \|id\| \{ remove_registry\.remove\(id\); \}\)", wb)) \
        and ".insert(" not in wb.replace("insert_registry.insert(peer)", "") \
        and "self.on_connect.push(" in fn_body(whole, "on_peer_connect") and "self.on_disconnect.push(" in fn_body(whole, "on_peer_disconnect") \
        and "self.on_connect_ctx.push(" in fn_body(whole, "on_peer_connect_with_handshake")

    src = read(SRC)
    facts = {
        "writerBeforeGuard": spawn.start() < guard.start(),
        "guardBeforeHooks": guard_named and guard.start() < min(h1.start(), h2.start()),
        "guardInReaderBlock": bool(in_block),
        "hooksBeforeReader": max(h1.start(), h2.start()) < rd.start() and h1.start() < h2.start() and sig.start() < aw.start() and rd.start() < sig.start(),
        "cancelBeforeHooks": c.start() < l.start(),
        "abortOnDrop": wrapped and abort_impl and writer_var != "_",
        "pathCheckExact": path_exact,
        "normalizeThreeBranches": norm_form and norm_lits,
        "oneErrorReportPerOutcome": one_report,
        "peerIdFetchAdd": id_fetch_add,
        "hooksInRegistrationOrder": appended,
        "anchors": {"writer_spawn": f"{SRC}:{_line(src, off + spawn.start())}", "guard": f"{SRC}:{_line(src, off + guard.start())}",
                    "connect_loops": f"{SRC}:{_line(src, off + h1.start())},{_line(src, off + h2.start())}",
                    "reader": f"{SRC}:{_line(src, off + rd.start())}", "shutdown_signal": f"{SRC}:{_line(src, off + sig.start())}"},
    }
    return facts


def render(f):
    b = lambda x: "true" if x else "false"
    L = ["import RepeVerif.Model.Lifecycle",
         "/-! GENERATED by /verif/extract/lifecycle.py from /repo/src/websocket_server.rs",
         "(`handle_connection_with_config`, `impl Drop for DisconnectGuard`, `AbortOnDrop`). -/",
         "namespace Repe.Gen.Lifecycle",
         "",
         "def facts : Repe.Lifecycle.Facts where"]
    for k in FIELDS:
        L.append(f"  {k} := {b(f[k])}")
    L += ["",
          "/-- `WebSocketPathValidator::on_request` answers `Ok(response)` exactly under `request.uri().path() == self.expected` -/",
          f"def pathCheckExact : Bool := {b(f['pathCheckExact'])}",
          "/-- `normalize_path` has the three recognised branches (empty or \"/\" ↦ \"/\"; leading slash ↦ trim trailing; else prepend) -/",
          f"def normalizeThreeBranches : Bool := {b(f['normalizeThreeBranches'])}",
          "/-- `accept_and_serve` calls `report_error` once in the handshake-error arm and once under `if let Err(err)` of the serve result -/",
          f"def oneErrorReportPerOutcome : Bool := {b(f['oneErrorReportPerOutcome'])}",
          "/-- the connection's PeerId is `config.peer_id_counter.fetch_add(1, ..)` and the counter is not otherwise loaded/stored there -/",
          f"def peerIdFetchAdd : Bool := {b(f['peerIdFetchAdd'])}",
          "/-- every registrar pushes at the end of its chain and `with_peer_registry` registers through them: hooks run in registration order -/",
          f"def hooksInRegistrationOrder : Bool := {b(f['hooksInRegistrationOrder'])}",
          "", "end Repe.Gen.Lifecycle"]
    return "\n".join(L) + "\n"


if __name__ == "__main__":
    import json
    f = extract(); print(json.dumps(f, indent=1)); print(render(f))
