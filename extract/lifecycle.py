"""Facts for Gen/Lifecycle.lean: where `handle_connection_with_config` spawns the writer, declares the
DisconnectGuard, runs the connect-hook loops and starts the reader; the order inside
`DisconnectGuard::drop`; and whether the writer handle is wrapped in an aborting guard."""
import re
from rustlex import *

GEN_FILE = "Lifecycle.lean"
SRC = "src/websocket_server.rs"
FIELDS = ["writerBeforeGuard", "guardBeforeHooks", "guardInReaderBlock", "hooksBeforeReader", "cancelBeforeHooks", "abortOnDrop"]


def _line(src, pos):
    return src.count("\n", 0, pos) + 1


def _enclosing_block(s, pos):
    """(start, end) of the innermost `{…}` of `s` that contains `pos` (end = index just past `}`)."""
    depth = 0
    for i in range(pos - 1, -1, -1):
        if s[i] == "}": depth += 1
        elif s[i] == "{":
            if depth == 0:
                return i, match_brace(s, i)
            depth -= 1
    raise ExtractError("no enclosing block")


def _one(rx, s, what):
    ms = list(re.finditer(rx, s))
    if len(ms) != 1:
        raise ExtractError(f"{what}: expected exactly one occurrence, found {len(ms)}")
    return ms[0]


def extract():
    whole = test_mod_cut(strip(read(SRC)))
    m = re.search(r"\basync\s+fn\s+handle_connection_with_config\b", whole)
    if not m: raise ExtractError("fn handle_connection_with_config not found")
    b0 = whole.find("{", m.end())      # neither the parameter list nor the where-clause contains a brace
    b1 = match_brace(whole, b0)
    body = whole[b0 + 1:b1 - 1]
    off = b0 + 1

    # ---- anchors inside handle_connection_with_config.  An anchor that cannot be located (moved into a closure
    # or a spawned task, duplicated, replaced by another construct) makes every fact that depends on it FALSE:
    # the structure the proofs are about is no longer visibly there.  Only a missing function is "unknown source"
    # (ExtractError -> committed defaults, correspondence only).
    unrecognised = []

    def anchor(rx, what):
        ms = list(re.finditer(rx, body))
        if len(ms) != 1:
            unrecognised.append(f"{what}: {len(ms)} occurrences")
            return None
        return ms[0]

    LOOP = r"(?:for\s+hook\s+in\s+(?:&\*?\s*)?config\.%s(?:\.iter\(\)|\.as_slice\(\)|\.as_ref\(\))?\s*\{|config\.%s\.iter\(\)\.for_each\s*\()"
    spawn = anchor(r"let\s+(\w+)\s*=\s*(AbortOnDrop(?:::new)?\s*\(\s*)?tokio::(?:task::)?spawn\s*\(\s*writer_task\s*\(", "writer spawn")
    guard = anchor(r"let\s+(\w+)\s*=\s*DisconnectGuard\s*(?:\{|::new\s*\()", "DisconnectGuard construction")
    h1 = anchor(LOOP % ("on_connect", "on_connect"), "plain connect-hook loop")
    h2 = anchor(LOOP % ("on_connect_ctx", "on_connect_ctx"), "handshake connect-hook loop")
    rd = anchor(r"\breader_task\s*\(", "reader_task call")
    sig = anchor(r"\bshutdown_tx\.send\s*\(", "shutdown signal")
    writer_var = spawn.group(1) if spawn else None
    wrapped = bool(spawn and spawn.group(2))
    aw = anchor(r"\b" + re.escape(writer_var) + r"\.await\b", "writer await") if writer_var else None
    guard_named = bool(guard) and guard.group(1) != "_"

    def pos(*ms):
        if any(m is None for m in ms): raise ExtractError("anchor missing")
        return [m.start() for m in ms]

    def fact(f):
        try:
            return bool(f())
        except Exception as ex:        # pessimistic: an unlocatable structure is not a harmless one
            unrecognised.append(f"{type(ex).__name__}: {ex}")
            return False

    def f_writer_before_guard():
        s, g = pos(spawn, guard); return s < g

    def f_guard_before_hooks():
        g, a, b_ = pos(guard, h1, h2); return guard_named and g < min(a, b_)

    def f_hooks_before_reader():
        a, b_, r, s, w = pos(h1, h2, rd, sig, aw)
        sel = re.search(r"tokio::select!\s*\{", body)
        sel_end = match_brace(body, sel.end() - 1)
        if not (sel.start() < r < sel_end): raise ExtractError("reader_task is not an arm of the select!")
        if not re.search(r"conn_token\.cancelled\(\)", body[sel.start():sel_end]): raise ExtractError("select! has no cancelled() arm")
        for h in (h1, h2):                 # each loop body calls the hook, synchronously
            lb = body.find("{", h.start()) if "for_each" not in h.group(0) else body.find("(", h.end() - 1)
            seg = body[lb:match_brace(body, lb)] if body[lb] == "{" else body[lb:lb + 200]
            if "hook(" not in seg: raise ExtractError("connect loop does not call hook(")
            if re.search(r"\bspawn(_blocking)?\s*\(", seg): raise ExtractError("connect loop spawns")
        return max(a, b_) < r and a < b_ and s < w and r < s

    def f_guard_in_block():
        g, a, b_, r, s = pos(guard, h1, h2, rd, sig)
        try:
            blk_s, blk_e = _enclosing_block(body, g)
        except ExtractError:
            return False                   # the guard is a local of the function body itself
        return guard_named and blk_s < a < blk_e and blk_s < b_ < blk_e and blk_s < r < blk_e and blk_e <= s and g < r

    def f_cancel_before_hooks():
        dimpl = impl_block(whole, r"impl\s+Drop\s+for\s+DisconnectGuard\s*\{")
        dbody = fn_body(dimpl, "drop")
        c = re.search(r"self\.cancel\.cancel\s*\(\s*\)", dbody)
        l = re.search(r"for\s+hook\s+in\s+(?:&\*?\s*)?self\.hooks(?:\.iter\(\)|\.as_slice\(\))?\s*\{", dbody)
        if not l or not c: raise ExtractError("DisconnectGuard::drop: cancel() or the hook loop not found")
        if re.search(r"\.rev\(\)", dbody): raise ExtractError("DisconnectGuard::drop iterates in reverse")
        lb = dbody.find("{", l.start())
        if "hook(self.peer_id)" not in re.sub(r"\s+", "", dbody[lb:match_brace(dbody, lb)]): raise ExtractError("loop does not call hook(self.peer_id)")
        if re.search(r"\bif\b|\bpanicking\b|\breturn\b", dbody[:l.start()]): raise ExtractError("DisconnectGuard::drop: conditional before the hook loop")
        return c.start() < l.start()

    def f_abort_on_drop():
        mm = re.search(r"impl\s*<\s*T\s*>\s*Drop\s+for\s+AbortOnDrop\s*<\s*T\s*>\s*\{", whole)
        ab = fn_body(whole[mm.start():match_brace(whole, mm.end() - 1)], "drop")
        return wrapped and writer_var != "_" and bool(re.search(r"self\.0\.abort\s*\(\s*\)", ab))

    def f_path_exact():
        vimpl = impl_block(whole, r"impl\s+Callback\s+for\s+WebSocketPathValidator\s*\{")
        vb = re.sub(r"\s+", " ", fn_body(vimpl, "on_request"))
        return bool(re.search(r"if (?:request\.uri\(\)\.path\(\) == self\.expected|self\.expected == request\.uri\(\)\.path\(\)) \{", vb)) \
            and vb.count("Ok(response)") == 1 and bool(re.search(r"\} else \{ Err\(path_not_found_response\(request\)\) \}", vb))

    def f_norm():
        nb = re.sub(r"\s+", " ", fn_body(whole, "normalize_path"))
        norm_form = bool(re.fullmatch(
            r' ?if path\.is_empty\(\) \|\| path == "\s*" \{ "\s*"\.to_string\(\) \} else if path\.starts_with\(\' \'\) \{ path\.trim_end_matches\(\' \'\)\.to_string\(\) \} else \{ format!\("\s*", path\.trim_end_matches\(\' \'\)\) \} ?', nb))
        raw = read(SRC)                     # the literals are blanked by strip(); read them from the raw source
        rn = raw[raw.index("fn normalize_path"):]
        rn = rn[:rn.index("\n}\n") + 3]
        return norm_form and rn.count("'/'") == 3 and '"/".to_string()' in rn and 'path == "/"' in rn and 'format!("/{}"' in rn

    def f_one_report():
        ab = re.sub(r"\s+", " ", fn_body(whole, "accept_and_serve"))
        return ab.count("report_error(") == 2 and "ConnectionError::Connection(err)" in ab and "ConnectionError::Handshake(err)" in ab

    def f_cancel_races_reader():
        # `select! { r = reader_task(..) => r, _ = conn_token.cancelled() => .. }`: the token is raced against the
        # WHOLE reader future, so it is observed at every await point of the reader (next(), outbound_tx.send(..))
        r, = pos(rd)
        sel = re.search(r"tokio::select!\s*\{", body)
        sel_end = match_brace(body, sel.end() - 1)
        arms = body[sel.start():sel_end]
        if not (sel.start() < r < sel_end): raise ExtractError("reader_task is not an arm of the select!")
        if not re.search(r"=\s*reader_task\s*\(", arms) or not re.search(r"_\s*=\s*conn_token\.cancelled\(\)\s*=>", arms): raise ExtractError("select! arms")
        return True

    def f_no_timers():
        # neither the connection task nor the reader loop has a timer / sleep / timeout / retry arm: the model's
        # reader only moves on frames, the token and the channel.  (The writer's drain deadlines bound delivery,
        # which the property does not speak about.)
        rb = fn_body(whole, "reader_task")
        TIMER = r"\b(sleep|sleep_until|timeout|timeout_at|interval|interval_at|Instant|Duration|Sleep|Interval)\b"
        if re.search(TIMER, body) or re.search(TIMER, rb): raise ExtractError("timer construct in the connection task / reader loop")
        sel = re.search(r"tokio::select!\s*\{", body)
        arms = body[sel.end():match_brace(body, sel.end() - 1) - 1]
        if len(re.findall(r"=>", arms)) != 2: raise ExtractError("select! does not have exactly two arms")
        if re.search(r"\bselect!\s*\{", rb): raise ExtractError("select! inside reader_task")
        return True

    def f_fetch_add():
        return bool(re.search(r"let\s+peer_id_value\s*=\s*config\s*\.\s*peer_id_counter\s*\.\s*fetch_add\(\s*1\s*,", body)) \
            and not re.search(r"peer_id_counter\s*\.\s*(store|load|swap|compare_exchange|fetch_update)", body)

    def f_appended():
        wb = re.sub(r"\s+", " ", fn_body(whole, "with_peer_registry"))
        return bool(re.search(r"self\.on_peer_connect\(move \|peer\| insert_registry\.insert\(peer\)\) \.on_peer_disconnect\(move \|id\| \{ remove_registry\.remove\(id\); \}\)", wb)) \
            and ".insert(" not in wb.replace("insert_registry.insert(peer)", "") \
            and all(f"self.{chain}.push(" in fn_body(whole, fn) and ".insert(" not in fn_body(whole, fn)
                    for chain, fn in (("on_connect", "on_peer_connect"), ("on_disconnect", "on_peer_disconnect"), ("on_connect_ctx", "on_peer_connect_with_handshake")))

    src = read(SRC)
    line_of = lambda m: _line(src, off + m.start()) if m else "?"
    facts = {
        "writerBeforeGuard": fact(f_writer_before_guard),
        "guardBeforeHooks": fact(f_guard_before_hooks),
        "guardInReaderBlock": fact(f_guard_in_block),
        "hooksBeforeReader": fact(f_hooks_before_reader),
        "cancelBeforeHooks": fact(f_cancel_before_hooks),
        "abortOnDrop": fact(f_abort_on_drop),
        "pathCheckExact": fact(f_path_exact),
        "normalizeThreeBranches": fact(f_norm),
        "oneErrorReportPerOutcome": fact(f_one_report),
        "peerIdFetchAdd": fact(f_fetch_add),
        "hooksInRegistrationOrder": fact(f_appended),
        "cancelRacesWholeReader": fact(f_cancel_races_reader),
        "noTimersInConnectionLoops": fact(f_no_timers),
        "unrecognised": unrecognised,
        "anchors": {"writer_spawn": f"{SRC}:{line_of(spawn)}", "guard": f"{SRC}:{line_of(guard)}",
                    "connect_loops": f"{SRC}:{line_of(h1)},{line_of(h2)}",
                    "reader": f"{SRC}:{line_of(rd)}", "shutdown_signal": f"{SRC}:{line_of(sig)}"},
    }
    return facts


def render(f):
    b = lambda x: "true" if x else "false"
    L = ["import RepeVerif.Model.Lifecycle",
         "/-! GENERATED by /verif/extract/lifecycle.py from /repo/src/websocket_server.rs",
         "(`handle_connection_with_config`, `impl Drop for DisconnectGuard`, `AbortOnDrop`). -/",
         "namespace Repe.Gen.Lifecycle",
         "",
         "def facts : Repe.Lifecycle.Facts where"]
    for k in FIELDS:
        L.append(f"  {k} := {b(f[k])}")
    L += ["",
          "/-- `WebSocketPathValidator::on_request` answers `Ok(response)` exactly under `request.uri().path() == self.expected` -/",
          f"def pathCheckExact : Bool := {b(f['pathCheckExact'])}",
          "/-- `normalize_path` has the three recognised branches (empty or \"/\" ↦ \"/\"; leading slash ↦ trim trailing; else prepend) -/",
          f"def normalizeThreeBranches : Bool := {b(f['normalizeThreeBranches'])}",
          "/-- `accept_and_serve` calls `report_error` once in the handshake-error arm and once under `if let Err(err)` of the serve result -/",
          f"def oneErrorReportPerOutcome : Bool := {b(f['oneErrorReportPerOutcome'])}",
          "/-- the connection's PeerId is `config.peer_id_counter.fetch_add(1, ..)` and the counter is not otherwise loaded/stored there -/",
          f"def peerIdFetchAdd : Bool := {b(f['peerIdFetchAdd'])}",
          "/-- every registrar pushes at the end of its chain and `with_peer_registry` registers through them: hooks run in registration order -/",
          f"def hooksInRegistrationOrder : Bool := {b(f['hooksInRegistrationOrder'])}",
          "/-- the connection token is raced against the whole `reader_task(..)` future in one `select!` (so a reader suspended in `outbound_tx.send` is abandoned on cancel) -/",
          f"def cancelRacesWholeReader : Bool := {b(f['cancelRacesWholeReader'])}",
          "/-- no timer / sleep / timeout arm in `handle_connection_with_config` or `reader_task`; the `select!` has exactly two arms -/",
          f"def noTimersInConnectionLoops : Bool := {b(f['noTimersInConnectionLoops'])}",
          "", "end Repe.Gen.Lifecycle"]
    return "\n".join(L) + "\n"


if __name__ == "__main__":
    import json
    f = extract(); print(json.dumps(f, indent=1)); print(render(f))
