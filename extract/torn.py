"""Facts for C05 (family `torn`): what the write path of each of the six endpoints looks like.

Per endpoint an `Obs` record (see Model/WriterDiscipline.lean):
  singleWriter       the write half is created inside the connection function and stays there (servers)
  lockRegions        acquisitions of the writer lock inside the frame-writing function (clients)
  writesOutsideLock  frame writes / helpers handed the locked writer anywhere else in the file
  wholeWrites        every part of a frame goes out with `write_all` or as one whole `WsMessage::Binary`
  ignoredResults     write/flush/send/timeout results that are dropped (`.ok()`, `let _ =`, empty or
                     `continue` arm, a short-write count thrown away)
  errorEnds          a failed or timed-out write leaves the connection failed (`?`/`return Err`/`break`
                     out of the connection function, or an explicit shutdown)
  cancelSafe         a writing future that is dropped cannot be followed by another frame

Only today's forms are recognised.  A *dangerous* deviation (a write outside the lock region, an
ignored result, no shutdown/marker) is reported as a pessimistic fact, so that `C05.endpoints_disciplined`
stops checking; anything else that is not recognised raises ExtractError (committed defaults, tie =
correspondence only)."""
import re
from rustlex import ExtractError, read, strip, test_mod_cut, fn_body

GEN_FILE = "Torn.lean"


def norm(s):
    return " ".join(s.split())


def src_of(rel):
    return test_mod_cut(strip(read(rel)))


def call_spans(text, name_regex):
    """(start, end) of every call `name(` … matching `)` in text."""
    out = []
    for m in re.finditer(name_regex + r"\s*\(", text):
        depth, j = 0, m.end() - 1
        while j < len(text):
            if text[j] == "(":
                depth += 1
            elif text[j] == ")":
                depth -= 1
                if depth == 0:
                    break
            j += 1
        out.append((m.start(), j + 1))
    return out


def result_use(text, start, end):
    """How the value of the call text[start:end] is used: propagated | ignored | bound | other."""
    post = text[end:end + 60]
    pre = text[max(0, start - 40):start]
    if re.match(r"(\s*\.\s*await)?(\s*\.\s*map_err\s*\([^()]*\))?\s*\?", post):
        return "propagated"
    if re.match(r"(\s*\.\s*await)?\s*\.\s*ok\s*\(\s*\)", post) or re.search(r"let\s+_\s*=\s*$", pre):
        return "ignored"
    if re.match(r"(\s*\.\s*await)?\s*;", post) and not re.search(r"=\s*$", pre):
        return "ignored"  # value dropped by `;`
    if re.search(r"let\s+(mut\s+)?\w+\s*=\s*$", pre):
        return "bound"
    return "other"


def fns_in(text):
    """(name, body) of every fn in text (nested ones included)."""
    out = []
    for m in re.finditer(r"\bfn\s+(\w+)", text):
        try:
            out.append((m.group(1), fn_body(text, m.group(1), m.start())))
        except Exception:
            pass
    return out


def part_writes_whole(body):
    """Inside a framing helper: every `.write…(` is `write_all(` (no hand-rolled short-write handling)."""
    kinds = re.findall(r"\.\s*(write\w*)\s*\(", body)
    return all(k == "write_all" for k in kinds)


def framing_helpers_whole():
    io = src_of("src/io.rs")
    aio = src_of("src/async_io.rs")
    ok = part_writes_whole(fn_body(io, "write_message")) and part_writes_whole(fn_body(io, "write_message_streaming"))
    ok = ok and part_writes_whole(fn_body(aio, "write_message_async"))
    return ok


# ------------------------------------------------------------------------------------------------
def blocking_client(helpers_whole):
    src = src_of("src/client.rs")
    body = norm(fn_body(src, "write_request"))
    locks = len(re.findall(r"\.\s*writer\s*\.\s*lock\s*\(", body))
    lock_pos = body.find(".lock(")
    writes = call_spans(body, r"\bwrite_message") + call_spans(body, r"\bwriter\s*\.\s*flush") + call_spans(body, r"\.\s*write_all")
    if not writes:
        raise ExtractError("blocking client: write_request writes nothing")
    before_lock = sum(1 for s, _ in writes if s < lock_pos)
    released = len(re.findall(r"\bdrop\s*\(\s*writer\s*\)", body))
    # any other function of the file that writes to the locked writer
    outside = 0
    for name, b in fns_in(src):
        if name == "write_request" or ".writer" not in b or ".lock(" not in b:
            continue
        if re.search(r"\bwrite_message\s*\(|\.\s*write_all\s*\(|\.\s*write\s*\(|\.\s*flush\s*\(", b):
            outside += 1
    ignored, error_ends = 0, False
    # form A (today): let written = write_message(..).and_then(|()| writer.flush()..); if written.is_err() { .. shutdown(..) } written
    mA = re.search(r"let (\w+) = write_message\s*\(.*?\)\s*\.\s*and_then\s*\(.*?writer\s*\.\s*flush\s*\(\s*\).*?\)\s*;\s*if \1\s*\.\s*is_err\s*\(\s*\)\s*\{(.*?)\}\s*\1\s*$", body)
    if mA:
        error_ends = re.search(r"\.\s*shutdown\s*\(", mA.group(2)) is not None
    else:
        uses = [result_use(body, s, e) for s, e in writes]
        ignored = uses.count("ignored")
        if "propagated" in uses:
            # `write_message(..)?; …`: that error returns to the caller before any shutdown: the socket stays in service
            error_ends = False
        elif ignored == 0:
            raise ExtractError("blocking client: unrecognised error handling in write_request")
    return dict(singleWriter=False, lockRegions=locks, writesOutsideLock=outside + before_lock + released,
                wholeWrites=helpers_whole, ignoredResults=ignored, errorEnds=error_ends, cancelSafe=True)


def async_client(helpers_whole):
    src = src_of("src/async_client.rs")
    body = norm(fn_body(src, "write_request"))
    locks = len(re.findall(r"\.\s*writer\s*\.\s*lock\s*\(\s*\)\s*\.\s*await", body))
    lock_pos = body.find(".lock(")
    writes = call_spans(body, r"\bwrite_message_async") + call_spans(body, r"\.\s*flush") + call_spans(body, r"\.\s*write_all")
    helper_calls = [m.group(1) for m in re.finditer(r"\b(?:Self\s*::\s*|self\s*\.\s*)(\w+)\s*\([^()]*\bwriter\b", body)]
    outside = sum(1 for s, _ in writes if s < lock_pos) + len(re.findall(r"\bdrop\s*\(\s*writer\s*\)", body))
    # every other function that takes the writer lock may only shut the writer down
    for name, b in fns_in(src):
        if name == "write_request" or ".writer" not in b or not re.search(r"\.\s*writer\s*\.\s*lock\s*\(", b):
            continue
        nb = norm(b)
        uses = re.findall(r"\bwriter\b\s*(?:\.\s*\w+\s*(?:\(\s*\))?\s*)*\.\s*(\w+)\s*\(", nb)
        handed = re.findall(r"\(\s*&mut\s+\*?\s*writer\b|,\s*&mut\s+\*?\s*writer\b", nb)
        if any(u not in ("lock", "shutdown") for u in uses) or handed:
            outside += 1
    # the abandoned-frame marker may only be lowered by the writer that raised it
    for name, b in fns_in(src):
        if name not in ("write_request", "connect") and name not in helper_calls and re.search(r"mid_frame\s*=\s*false", b):
            outside += 1
    if helper_calls:
        # the write was moved into a helper that is handed the locked writer: who else calls it?
        for h in set(helper_calls):
            callers = [n for n, b in fns_in(src) if re.search(r"\b" + h + r"\s*\(", b) and n not in ("write_request", h)]
            outside += len(callers)
            hb = norm(fn_body(src, h))
            body = body + " /*helper*/ " + hb
            writes = call_spans(body, r"\bwrite_message_async") + call_spans(body, r"\.\s*flush") + call_spans(body, r"\.\s*write_all")
    if not writes:
        raise ExtractError("async client: write_request writes nothing")
    uses = [result_use(body, s, e) for s, e in writes]
    ignored = uses.count("ignored")
    first_write = min(s for s, _ in writes)
    last_write = max(e for _, e in writes)
    chk = re.search(r"if writer\s*\.\s*mid_frame\s*\{(.*?)\}\s*writer\s*\.\s*mid_frame\s*=\s*true\s*;", body)
    set_pos = body.find("mid_frame = true")
    clr_pos = body.rfind("mid_frame = false")
    marker = (chk is not None and re.search(r"\breturn\s+Err\b", chk.group(1)) is not None
              and "mid_frame = false" not in chk.group(1)
              and 0 <= set_pos < first_write and clr_pos > last_write
              and body.count("mid_frame = false") == 1)
    if marker:
        closes = re.search(r"\.\s*shutdown\s*\(", chk.group(1)) is not None
        error_ends = all(u == "propagated" for u in uses)  # an error leaves the marker set
        cancel_safe = closes or True
    else:
        # no marker: a dropped future releases the lock with a partial frame written; an error is only returned
        error_ends = False
        cancel_safe = False
    return dict(singleWriter=False, lockRegions=locks, writesOutsideLock=outside, wholeWrites=helpers_whole,
                ignoredResults=ignored, errorEnds=error_ends, cancelSafe=cancel_safe)


def ws_client():
    src = src_of("src/websocket_client.rs")
    body = norm(fn_body(src, "write_request"))
    locks = len(re.findall(r"\.\s*writer\s*\.\s*lock\s*\(\s*\)\s*\.\s*await", body))
    sends = call_spans(body, r"\.\s*send")
    feeds = call_spans(body, r"\.\s*feed")
    whole = (len(sends) == 1 and not feeds
             and re.search(r"let (\w+) = msg\b[^;]*\.\s*(to_vec|into_wire_bytes)\s*\(\s*\)\s*;", body) is not None
             and re.search(r"\.\s*send\s*\(\s*WsMessage\s*::\s*Binary\s*\(\s*" + re.search(r"let (\w+) = msg\b", body).group(1) + r"\s*\)\s*\)", body) is not None)
    lock_pos = body.find(".lock(")
    outside = sum(1 for s, _ in sends if s < lock_pos)
    for name, b in fns_in(src):
        if name != "write_request" and re.search(r"WsMessage\s*::\s*Binary\s*\(", b) and re.search(r"\.\s*(send|feed)\s*\(", b):
            outside += 1
    uses = [result_use(body, s, e) for s, e in sends]
    return dict(singleWriter=False, lockRegions=locks, writesOutsideLock=outside, wholeWrites=whole,
                ignoredResults=uses.count("ignored"), errorEnds=all(u == "propagated" for u in uses),
                # a whole message is queued by the transport before any byte is written
                cancelSafe=whole)


def owns_writer(body, ctor_regex):
    """`let mut writer = <ctor>` inside the connection function, never moved into a task or shared."""
    if not re.search(r"let mut writer = " + ctor_regex, body):
        return False
    return re.search(r"\bspawn\s*\([^;]*\bwriter\b|Arc\s*::\s*new\s*\([^;]*\bwriter\b|\bwriter\s*\.\s*clone\s*\(", body) is None


def blocking_server(helpers_whole):
    src = src_of("src/server.rs")
    body = norm(fn_body(src, "handle_connection"))
    single = owns_writer(body, r"BufWriter\s*::\s*new\s*\(")
    writes = call_spans(body, r"\bwrite_message_streaming") + call_spans(body, r"\bwrite_message\b") + call_spans(body, r"\bwriter\s*\.\s*flush")
    if not writes:
        raise ExtractError("blocking server: handle_connection writes nothing")
    uses = [result_use(body, s, e) for s, e in writes]
    ignored = uses.count("ignored")
    whole = helpers_whole
    for s, e in call_spans(body, r"\bwrite_message_streaming"):
        call = body[s:e]
        kinds = re.findall(r"\.\s*(write\w*)\s*\(", call)
        if any(k != "write_all" for k in kinds):
            whole = False  # e.g. `w.write(&body).map(drop)`: the count of a short write is thrown away
    if any(u == "other" or u == "bound" for u in uses):
        raise ExtractError("blocking server: unrecognised use of a write result")
    error_ends = all(u == "propagated" for u in uses) and re.search(r"-> Result<", norm(src[src.find("fn handle_connection"):src.find("fn handle_connection") + 600])) is not None
    return dict(singleWriter=single, lockRegions=0, writesOutsideLock=0, wholeWrites=whole, ignoredResults=ignored,
                errorEnds=error_ends, cancelSafe=True)


def async_server():
    src = src_of("src/async_server.rs")
    body = norm(fn_body(src, "handle_connection"))
    single = owns_writer(body, r"BufWriter\s*::\s*new\s*\(")
    whole = part_writes_whole(fn_body(src, "write_view_response"))
    sites = call_spans(body, r"\bwrite_view_response") + call_spans(body, r"\bwriter\s*\.\s*flush")
    if not sites:
        raise ExtractError("async server: handle_connection writes nothing")
    ignored, ends = 0, 0
    # a timed-out (or failed) write whose arm neither returns nor breaks out of the connection
    first = min(s for s, _ in sites)
    soft_arms = re.findall(r"Err\s*\(\s*_\w*\s*\)\s*(?:if\b[^=]*?)?=>(?!\s*(?:return|break)\b)", body[max(0, first - 200):])
    if soft_arms:
        return dict(singleWriter=single, lockRegions=0, writesOutsideLock=0, wholeWrites=whole, ignoredResults=len(soft_arms),
                    errorEnds=False, cancelSafe=True)
    for s, e in sites:
        call = re.escape(body[s:e])
        post = body[e:e + 200]
        pre = body[max(0, s - 40):s]
        if re.match(r"\s*\.\s*await\s*\?\s*;", post):
            ends += 1
            continue
        mt = re.search(r"match timeout\s*\(\s*\w+\s*,\s*$", pre)
        if mt:
            arms = re.match(r"\s*\)\s*\.\s*await\s*\{\s*Ok\s*\(\s*(\w+)\s*\)\s*=>\s*(.*?),\s*Err\s*\(\s*_\w*\s*\)\s*=>\s*(.*?),?\s*\}", post)
            if not arms:
                raise ExtractError("async server: unrecognised match on a timed write")
            ok_arm, err_arm = arms.group(2).strip(), arms.group(3).strip()
            good_ok = re.fullmatch(re.escape(arms.group(1)) + r"\s*\?", ok_arm) is not None
            good_err = re.match(r"return\s+(Err\s*\(|Ok\s*\(\s*\(\s*\)\s*\))", err_arm) is not None or err_arm.startswith("break")
            if good_ok and good_err:
                ends += 1
            elif re.fullmatch(r"\{\s*\}|\(\s*\)|continue", err_arm) or re.fullmatch(r"\{\s*\}|\(\s*\)", ok_arm) or ok_arm.startswith("drop") or ".ok()" in ok_arm:
                ignored += 1
            else:
                raise ExtractError("async server: unrecognised arms around a timed write")
            continue
        if re.search(r"timeout\s*\(\s*\w+\s*,\s*$", pre) and re.match(r"\s*\)\s*\.\s*await\s*\.\s*ok\s*\(\s*\)", post):
            ignored += 1
            continue
        u = result_use(body, s, e)
        if u == "ignored":
            ignored += 1
        else:
            raise ExtractError("async server: unrecognised use of a write result")
    return dict(singleWriter=single, lockRegions=0, writesOutsideLock=0, wholeWrites=whole, ignoredResults=ignored,
                errorEnds=(ends == len(sites)), cancelSafe=True)


def ws_server():
    src = src_of("src/websocket_server.rs")
    wt = norm(fn_body(src, "writer_task"))
    hc = norm(fn_body(src, "handle_connection_with_config"))
    # the sink half goes to writer_task and nowhere else
    split = re.search(r"let \((\w+), (\w+)\) = ws_stream\s*\.\s*split\s*\(\s*\)\s*;", hc)
    if not split:
        raise ExtractError("ws server: split() not found")
    w = split.group(1)
    single = len(re.findall(r"\b" + w + r"\b", hc)) == 2 and re.search(r"writer_task\s*\(\s*" + w + r"\b", hc) is not None
    fo = norm(fn_body(src, "frame_outbound"))
    rets = re.findall(r"Some\s*\(\s*(\w+)\s*\.\s*(\w+)\s*\(\s*\)\s*\)", fo)
    whole_frames_built = bool(rets) and all(meth in ("into_wire_bytes", "to_vec") for _, meth in rets)
    names = re.findall(r"let Some\s*\(\s*(\w+)\s*\)\s*=\s*frame_outbound\s*\(", wt)
    n_frames = len(names)
    bin_sends = re.findall(r"\.\s*send\s*\(\s*WsMessage\s*::\s*Binary\s*\(\s*(\w+)\s*\)\s*\)", wt)
    feeds = call_spans(wt, r"\.\s*feed")
    whole = whole_frames_built and n_frames > 0 and len(bin_sends) == n_frames and all(b in names for b in bin_sends) and not feeds
    ignored, ends = 0, 0
    for m in re.finditer(r"(\w+)\s*\.\s*send\s*\(\s*WsMessage\s*::\s*Binary\s*\(\s*\w+\s*\)\s*\)", wt):
        pre = wt[max(0, m.start() - 40):m.start()]
        post = wt[m.end():m.end() + 260]
        if re.search(r"if let Err\s*\(\s*\w+\s*\)\s*=\s*$", pre):
            blk = re.match(r"\s*\.\s*await\s*\{([^{}]*)\}", post)
            if blk and re.search(r"\b(break|return)\b", blk.group(1)):
                ends += 1
            else:
                ignored += 1  # the send error is noted (or not) and the writer carries on
        elif re.search(r"let (\w+) = $", pre):
            fut = re.search(r"let (\w+) = $", pre).group(1)
            mm = re.search(r"match tokio\s*::\s*time\s*::\s*timeout_at\s*\(\s*\w+\s*,\s*" + fut + r"\s*\)\s*\.\s*await\s*\{\s*Ok\s*\(\s*Ok\s*\(\s*\(\s*\)\s*\)\s*\)\s*=>\s*\{\s*\}\s*,?\s*Ok\s*\(\s*Err\s*\(\s*\w+\s*\)\s*\)\s*=>\s*\{[^{}]*\bbreak\s*;\s*\}\s*,?\s*Err\s*\(\s*_\s*\)\s*=>\s*break\s*,?\s*\}", post)
            if mm:
                ends += 1
            else:
                raise ExtractError("ws server: unrecognised handling of a timed send")
        elif result_use(wt, m.start(), m.end()) == "ignored":
            ignored += 1
        elif result_use(wt, m.start(), m.end()) == "propagated":
            ends += 1
        else:
            raise ExtractError("ws server: unrecognised use of a send result")
    n_sends = len(bin_sends)
    return dict(singleWriter=single, lockRegions=0, writesOutsideLock=0, wholeWrites=whole, ignoredResults=ignored,
                errorEnds=(n_sends > 0 and ends + ignored == n_sends and ignored == 0), cancelSafe=whole)


def ws_proxy():
    """`proxy_connection_with_limits`: the relay loop owns the sink half; one whole Binary message per
    upstream response, send error propagated with `?`."""
    src = src_of("src/websocket_server.rs")
    b = norm(fn_body(src, "proxy_connection_with_limits"))
    split = re.search(r"let \(mut (\w+), mut (\w+)\) = ws_stream\s*\.\s*split\s*\(\s*\)\s*;", b)
    if not split:
        raise ExtractError("ws proxy: split() not found")
    w = split.group(1)
    single = re.search(r"\bspawn\s*\([^;]*\b" + w + r"\b|\b" + w + r"\s*\.\s*clone\s*\(", b) is None
    fo = norm(fn_body(src, "frame_outbound"))
    rets = re.findall(r"Some\s*\(\s*(\w+)\s*\.\s*(\w+)\s*\(\s*\)\s*\)", fo)
    built = bool(rets) and all(meth in ("into_wire_bytes", "to_vec") for _, meth in rets)
    pnames = re.findall(r"if let Some\s*\(\s*(\w+)\s*\)\s*=\s*frame_outbound\s*\(", b)
    n_frames = len(pnames)
    sends = [m for m in re.finditer(w + r"\s*\.\s*send\s*\(\s*WsMessage\s*::\s*Binary\s*\(\s*(\w+)\s*\)\s*\)", b)]
    whole = built and n_frames > 0 and len(sends) == n_frames and all(m.group(1) in pnames for m in sends) and not call_spans(b, r"\.\s*feed")
    uses = [result_use(b, m.start(), m.end()) for m in sends]
    if any(u in ("other", "bound") for u in uses):
        raise ExtractError("ws proxy: unrecognised use of a send result")
    return dict(singleWriter=single, lockRegions=0, writesOutsideLock=0, wholeWrites=whole, ignoredResults=uses.count("ignored"),
                errorEnds=bool(uses) and all(u == "propagated" for u in uses), cancelSafe=whole)


TIMER = r"\b(sleep|sleep_until|interval|interval_at|timeout|timeout_at|recv_timeout|park_timeout|retry\w*|backoff\w*)\s*\("

# timers in the write paths today: (file, function) -> number of timer/sleep/timeout/retry call sites
TIMERS_TODAY = {
    ("src/client.rs", "write_request"): 0,
    ("src/async_client.rs", "write_request"): 0,
    ("src/websocket_client.rs", "write_request"): 0,
    ("src/server.rs", "handle_connection"): 0,
    ("src/async_server.rs", "handle_connection"): 3,      # read timeout, write timeout, flush timeout
    ("src/async_server.rs", "write_view_response"): 0,
    ("src/websocket_server.rs", "writer_task"): 3,        # drain deadline on queued sends, on Close, on close()
    ("src/websocket_server.rs", "frame_outbound"): 0,
    ("src/websocket_server.rs", "proxy_connection_with_limits"): 0,
    ("src/io.rs", "write_message"): 0,
    ("src/io.rs", "write_message_streaming"): 0,
    ("src/async_io.rs", "write_message_async"): 0,
}
OWNER = {"src/client.rs": "blockingClient", "src/async_client.rs": "asyncClient", "src/websocket_client.rs": "wsClient",
         "src/server.rs": "blockingServer", "src/async_server.rs": "asyncServer", "src/io.rs": "blockingServer", "src/async_io.rs": "asyncServer"}


def new_timers():
    """A timer, sleep, timeout or retry arm that is not there today, inside a function the write path runs through,
    is reported as one more ignored result for that endpoint (pessimistic): what a delayed retry does to a frame
    in progress cannot be read off the form."""
    extra = {}
    for (rel, fn), today in TIMERS_TODAY.items():
        try:
            body = fn_body(src_of(rel), fn)
        except Exception:
            continue
        n = len(re.findall(TIMER, body))
        if n > today:
            if rel == "src/websocket_server.rs":
                owner = "wsProxy" if fn == "proxy_connection_with_limits" else "wsServer"
            else:
                owner = OWNER[rel]
            extra[owner] = extra.get(owner, 0) + (n - today)
    return extra


def disciplined(single):
    return dict(singleWriter=single, lockRegions=0 if single else 1, writesOutsideLock=0, wholeWrites=True, ignoredResults=0,
                errorEnds=True, cancelSafe=True)


def extract():
    timers = new_timers()
    try:
        facts = extract_forms()
    except ExtractError:
        if not timers:
            raise
        # the forms are not recognised AND a timer appeared in a write path: that is not a harmless rewrite
        facts = {n: disciplined(n in ("blockingServer", "asyncServer", "wsServer", "wsProxy")) for n in ORDER}
    for owner, n in timers.items():
        facts[owner]["ignoredResults"] += n
    return facts


def extract_forms():
    hw = framing_helpers_whole()
    return {
        "blockingClient": blocking_client(hw),
        "asyncClient": async_client(hw),
        "wsClient": ws_client(),
        "blockingServer": blocking_server(hw),
        "asyncServer": async_server(),
        "wsServer": ws_server(),
        "wsProxy": ws_proxy(),
    }


ORDER = ["blockingClient", "asyncClient", "wsClient", "blockingServer", "asyncServer", "wsServer", "wsProxy"]
FIELDS = ["singleWriter", "lockRegions", "writesOutsideLock", "wholeWrites", "ignoredResults", "errorEnds", "cancelSafe"]


def render(f):
    def v(x):
        return ("true" if x else "false") if isinstance(x, bool) else str(x)
    lines = [
        "import RepeVerif.Model.WriterDiscipline",
        "/-! GENERATED by /verif/extract/torn.py from /repo/src/{client,async_client,websocket_client,server,async_server,websocket_server,io,async_io}.rs:",
        "what the write path of each endpoint looks like (see `Repe.WD.Obs`). -/",
        "namespace Repe.Gen.Torn",
        "open Repe.WD",
        "",
    ]
    for name in ORDER:
        o = f[name]
        lines.append(f"def {name} : Obs := {{ " + ", ".join(f"{k} := {v(o[k])}" for k in FIELDS) + " }")
    lines += [
        "",
        "/-- endpoint number of the `torn` family (0 blocking client … 5 WebSocket server, 6 WebSocket proxy) → observations -/",
        "def obs : Nat → Option Obs",
    ] + [f"  | {i} => some {n}" for i, n in enumerate(ORDER)] + [
        "  | _ => none",
        "",
        "end Repe.Gen.Torn", ""]
    return "\n".join(lines)


if __name__ == "__main__":
    import json
    print(json.dumps(extract(), indent=1))
