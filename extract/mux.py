"""Facts for C04/C06 (family `mux`) from src/client.rs, src/async_client.rs, src/websocket_client.rs:

* register-before-write: in the call path (`call_with_body_and_timeout`) the pending entry is inserted
  (`pending.insert(` / `PendingRequestGuard::register(`) textually before `self.write_request(`;
* duplicate-id policy of the registration (`contains_key` + early `return Err` = reject, else replace);
* notify-flag-before-pending (WebSocket reader): the `header.notify != 0` branch precedes
  `pending.remove(` in `spawn_response_loop`; the TCP readers do not test the flag at all;
* the statements of `fail_all_pending` in order: writer shutdown (`.shutdown(` / `close_writer(`),
  `take_notify_sender(`, `.drain()`, the error `send(` loop;
* the reader `break`s (does not `continue`) after `fail_all_pending`, and calls it on every read error arm;
* timeout path removes the entry (blocking: `remove_pending` in the `Timeout` arm; async/ws: the
  `PendingRequestGuard` is alive across the wait and only `disarm`ed after a value was received);
  guard `Drop` removes the entry unless disarmed; a failed write removes the entry.

Anything not recognised raises ExtractError (=> committed defaults, correspondence only)."""
import re
from rustlex import ExtractError, read, strip, test_mod_cut, fn_body, impl_block

GEN_FILE = "Mux.lean"

FILES = [("blocking", "src/client.rs", "Client"), ("async", "src/async_client.rs", "AsyncClient"),
         ("ws", "src/websocket_client.rs", "WebSocketClient")]


def _pos(rx, text, what, required=True):
    m = re.search(rx, text)
    if not m:
        if required:
            raise ExtractError(f"{what}: /{rx}/ not found")
        return None
    return m.start()


def _line(src, body, pos):
    """1-based line of body[pos] inside src (body is a substring of src)."""
    base = src.find(body)
    return src.count("\n", 0, base + pos) + 1 if base >= 0 else 0


def extract_one(kind, path, ty):
    src = test_mod_cut(strip(read(path)))
    f = {"file": path}
    imp = impl_block(src, r"impl " + ty + r"\s*\{")
    call = fn_body(imp, "call_with_body_and_timeout")
    # --- registration vs write ---------------------------------------------------------------
    guard_based = "PendingRequestGuard::register" in call
    reg = _pos(r"PendingRequestGuard::register\s*\(|pending\s*\.\s*insert\s*\(", call, f"{kind}: registration in call path")
    # the write = the first use of the built message (`msg`) after its `let`, whatever the writing
    # function is called; a renamed writer is still recognised, a reordering is still seen
    lm = re.search(r"let\s+msg\s*=[^;]*;", call)
    if not lm:
        raise ExtractError(f"{kind}: `let msg = …;` not found in the call path")
    um = re.compile(r"\bmsg\b").search(call, lm.end())
    if not um:
        raise ExtractError(f"{kind}: the built message is never used")
    wr = um.start()
    alloc = _pos(r"self\s*\.\s*next_request_id\s*\(", call, f"{kind}: id allocation in call path")
    if not alloc < reg:
        raise ExtractError(f"{kind}: id allocated after registration")
    f["regBeforeWrite"] = reg < wr
    f["regLine"] = _line(src, call, reg)
    f["writeLine"] = _line(src, call, wr)
    nid = fn_body(imp, "next_request_id")
    if not re.search(r"next_id\s*\.\s*fetch_add\s*\(\s*1\s*,", nid):
        raise ExtractError(f"{kind}: next_request_id is not next_id.fetch_add(1, ..)")
    # --- duplicate policy ------------------------------------------------------------------------
    if guard_based:
        gimp = impl_block(src, r"impl PendingRequestGuard\s*\{")
        rbody = fn_body(gimp, "register")
        ck = _pos(r"contains_key\s*\(", rbody, "guard register", required=False)
        ins = _pos(r"pending\s*\.\s*insert\s*\(", rbody, f"{kind}: guard register insert")
        f["rejectDup"] = ck is not None and ck < ins and re.search(r"return\s+Err", rbody[ck:ins]) is not None
    else:
        f["rejectDup"] = False
    # --- removal paths ---------------------------------------------------------------------------
    if guard_based:
        dimp = impl_block(src, r"impl Drop for PendingRequestGuard\s*\{")
        dbody = fn_body(dimp, "drop")
        rm = _pos(r"pending\s*\.\s*remove\s*\(\s*&\s*self\s*\.\s*request_id\s*\)", dbody, "guard drop", required=False)
        dis = _pos(r"if\s+self\s*\.\s*disarmed\s*\{\s*return\s*;", dbody, "guard drop disarm test", required=False)
        # any other condition or early return in `drop` (an inverted test, an extra flag) is read
        # pessimistically: the removal might be skipped
        other_ifs = len(re.findall(r"\bif\b", dbody)) - (1 if dis is not None else 0)
        other_returns = len(re.findall(r"\breturn\b", dbody)) - (1 if dis is not None else 0)
        drop_removes = rm is not None and (dis is None or dis < rm) and other_ifs == 0 and other_returns == 0
        # guard must be bound to a named variable (alive until the end of the call) and disarmed only after the value
        bound = re.search(r"let\s+mut\s+(\w+)\s*=\s*PendingRequestGuard::register", call)
        if not bound or bound.group(1).startswith("_") and bound.group(1) == "_":
            drop_removes = False
        gname = bound.group(1) if bound else None
        disarm = _pos(re.escape(gname) + r"\s*\.\s*disarm\s*\(", call, "disarm", required=False) if gname else None
        received = _pos(r"let\s+\w+\s*=\s*received\s*\?\s*;", call, "received?", required=False)
        early_disarm = disarm is not None and (received is None or disarm < received)
        alive = drop_removes and not early_disarm
        f["timeoutRemoves"] = alive
        f["cancelRemoves"] = alive
        f["writeErrRemoves"] = alive and re.search(r"self\s*\.\s*write_request\s*\([^;]*\)\s*\.\s*await\s*\?\s*;", call) is not None
    else:
        wait = fn_body(imp, "wait_for_response")
        arm = re.search(r"RecvTimeoutError::Timeout\s*\)\s*=>\s*\{", wait)
        if not arm:
            raise ExtractError("blocking: Timeout arm")
        from rustlex import match_brace
        j = match_brace(wait, arm.end() - 1)
        f["timeoutRemoves"] = re.search(r"self\s*\.\s*remove_pending\s*\(", wait[arm.end():j]) is not None
        f["cancelRemoves"] = True      # a blocking call cannot be cancelled; vacuous
        werr = re.search(r"if\s+let\s+Err\s*\(\s*\w+\s*\)\s*=\s*self\s*\.\s*write_request\s*\([^)]*\)\s*\{", call)
        if werr:
            j = match_brace(call, werr.end() - 1)
            f["writeErrRemoves"] = re.search(r"self\s*\.\s*remove_pending\s*\(", call[werr.end():j]) is not None
        else:
            f["writeErrRemoves"] = False
        rp = fn_body(imp, "remove_pending")
        if not re.search(r"pending\s*\.\s*remove\s*\(\s*&\s*id\s*\)", rp):
            f["timeoutRemoves"] = False
            f["writeErrRemoves"] = False
    # --- reader ------------------------------------------------------------------------------------
    loop = fn_body(src, "spawn_response_loop")
    idrx = r"\(\s*&\s*(response\s*\.\s*header\s*\.\s*id|response_id)\s*\)"
    rem = _pos(r"\.\s*remove\s*" + idrx, loop, "reader removes by response id", required=False)
    if rem is None:
        # a lookup that leaves the entry in place (get / get_mut / contains_key) is recognised as such
        rem = _pos(r"\.\s*(get|get_mut|contains_key)\s*" + idrx, loop, f"{kind}: reader looks the response id up")
        f["matchRemoves"] = False
    else:
        f["matchRemoves"] = True
    nf = _pos(r"response\s*\.\s*header\s*\.\s*notify\s*!=\s*0", loop, "notify test", required=False)
    f["notifyAware"] = nf is not None and nf < rem
    f["matchLine"] = _line(src, loop, rem)
    # every fail_all_pending call in the loop is followed by `break` (a `continue` keeps a dead reader spinning)
    calls = [m.end() for m in re.finditer(r"fail_all_pending\s*\(", loop)]
    if not calls:
        raise ExtractError(f"{kind}: reader never calls fail_all_pending")
    stops = True
    for c in calls:
        tail = loop[c:c + 160]
        if re.match(r"[^;]*;\s*(break|return)\s*;", tail):
            continue
        if re.match(r"[^;]*;\s*continue\s*;", tail):
            stops = False
            continue
        raise ExtractError(f"{kind}: statement after fail_all_pending is neither break nor continue")
    f["readerStops"] = stops
    # --- fail_all_pending --------------------------------------------------------------------------
    fa = fn_body(src, "fail_all_pending")
    # does the registration refuse once the connection is marked failed (flag read under the pending lock)?
    reg_refuses = False
    if guard_based:
        rb = fn_body(impl_block(src, r"impl PendingRequestGuard\s*\{"), "register")
        lk = _pos(r"lock_pending_map\s*\(|pending\s*\.\s*lock\s*\(", rb, "register lock", required=False)
        ld = _pos(r"failed\s*\.\s*load\s*\(", rb, "failed.load", required=False)
        ins2 = _pos(r"pending\s*\.\s*insert\s*\(", rb, "insert", required=False)
        reg_refuses = (lk is not None and ld is not None and ins2 is not None and lk < ld < ins2
                       and re.search(r"return\s+Err", rb[ld:ins2]) is not None)
    f["registerRefusesWhenFailed"] = reg_refuses

    def innermost_block(text, pos):
        from rustlex import match_brace
        best = None
        for m in re.finditer(r"\{", text):
            if m.start() > pos:
                break
            try:
                e = match_brace(text, m.start())
            except ExtractError:
                continue
            if e > pos and (best is None or m.start() > best[0]):
                best = (m.start(), e)
        return text[best[0]:best[1]] if best else text

    marks = []
    # writer shutdown = anything after which `write_request` fails: socket shutdown, WebSocket close,
    # or raising a `failed` flag that `write_request` races against
    for name, rx in [("shutdownWriter", r"\.\s*shutdown\s*\(|close_writer\s*\(|failed\s*\.\s*send_replace\s*\(\s*true"), ("takeNotify", r"take_notify_sender\s*\("),
                     ("drainPending", r"\.\s*drain\s*\(\s*\)"), ("sendErrors", r"\.\s*send\s*\(\s*Err\s*\(")]:
        for m in re.finditer(rx, fa):
            n = name
            if name == "drainPending":
                blk = innermost_block(fa, m.start())
                locked = re.search(r"lock_pending_map\s*\(|pending\s*\.\s*lock\s*\(", blk) is not None
                marked = re.search(r"failed\s*\.\s*store\s*\(\s*true", blk) is not None
                if locked and marked and reg_refuses:
                    n = "closeAndDrain"   # same critical section marks the connection failed; register refuses
            marks.append((m.start(), n))
    order = [n for _, n in sorted(marks)]
    f["failOrder"] = order
    f["failLine"] = _line(src, fa, 0)
    return f


def extract_ws_control():
    """Arms of `decode_websocket_frame`: which message kinds are skipped (`Ok(None)`) and which end the
    connection (`Err`)."""
    src = test_mod_cut(strip(read("src/websocket_client.rs")))
    body = fn_body(src, "decode_websocket_frame")
    out = {}
    for m in re.finditer(r"((?:WsMessage::\w+\s*\([^)]*\)\s*\|?\s*)+)=>\s*(Ok\s*\(\s*None\s*\)|Err\s*\(|Message::from_slice_exact)", body):
        act = "ignore" if m.group(2).startswith("Ok") else ("fail" if m.group(2).startswith("Err") else "decode")
        for k in re.findall(r"WsMessage::(\w+)", m.group(1)):
            out[k] = act
    if "Binary" not in out:
        raise ExtractError("decode_websocket_frame: no recognised arm for Binary")
    # an arm in a form not recognised is read pessimistically: a Close/Text that might not end the
    # connection, a Ping/Pong that might
    for k, worst in (("Close", "ignore"), ("Text", "ignore"), ("Ping", "fail"), ("Pong", "fail")):
        out.setdefault(k, worst)
    if out["Binary"] != "decode":
        raise ExtractError("decode_websocket_frame: Binary is not decoded")
    # the reader must act on the result: Ok(None) => continue, Err => fail_all_pending (checked by extract_one)
    loop = fn_body(src, "spawn_response_loop")
    if not re.search(r"Ok\s*\(\s*None\s*\)\s*=>\s*continue", loop):
        raise ExtractError("ws reader: Ok(None) does not continue")
    return out


def extract_write_and_drop():
    """(a) `write_request` puts the whole request on the wire before it returns: the flush (blocking,
    async) is unconditional / the WebSocket send is `send` (feed + flush), not `feed`;
    (b) `Drop for WebSocketClient` closes the writer only when the last handle goes."""
    out = {}
    for kind, path, ty in FILES:
        src = test_mod_cut(strip(read(path)))
        body = fn_body(impl_block(src, r"impl " + ty + r"\s*\{"), "write_request")
        if kind == "ws":
            out[kind] = re.search(r"\.\s*send\s*\(\s*WsMessage::Binary", body) is not None
            continue
        w = re.search(r"write_message(_async)?\s*\(", body)
        fl = re.search(r"\.\s*flush\s*\(\s*\)", body)
        if not w:
            raise ExtractError(f"{kind}: write_request does not call write_message")
        # a flush that is missing, precedes the write, or sits behind a condition is read as "may not flush"
        between = body[w.end():fl.start()] if fl and fl.start() > w.end() else None
        out[kind] = between is not None and re.search(r"\bif\b|\bmatch\b|\breturn\b", between) is None
    ws = test_mod_cut(strip(read("src/websocket_client.rs")))
    m = re.search(r"impl Drop for WebSocketClient\s*\{", ws)
    if not m:
        only_last = True            # no Drop: nothing is ever closed behind the other handles' back
    else:
        d = fn_body(ws[m.start():], "drop")
        only_last = (re.search(r"if\s+Arc::strong_count\s*\(\s*&self\.inner\s*\)\s*(!=\s*1|>\s*1)\s*\{\s*return\s*;", d) is not None
                     and len(re.findall(r"strong_count", d)) == 1)
    return {"writeFlushes": [out["blocking"], out["async"], out["ws"]], "wsDropClosesOnlyLast": only_last}


def extract_timers():
    """No timer of its own in the response loops or on the sockets: a `sleep`, `timeout(`, `interval`,
    `Instant`, `recv_timeout`, `set_read_timeout` / `set_nonblocking` in `spawn_response_loop`,
    `fail_all_pending` or `connect*` would make a slow peer look like a dead one. Anything of that kind is
    a pessimistic fact."""
    rx = r"\bsleep\b|\btimeout\s*\(|\binterval\b|\bInstant\b|\brecv_timeout\b|set_read_timeout|set_nonblocking|\bDuration\b|\bdeadline\b|poll_timeout|\btry_read\b"
    out = []
    for kind, path, ty in FILES:
        src = test_mod_cut(strip(read(path)))
        clean = True
        for fn in ("spawn_response_loop", "fail_all_pending"):
            if re.search(rx, fn_body(src, fn)):
                clean = False
        # the async reader's `select!` has exactly two arms (shutdown signal, the read): any further arm would
        # cancel the read future while a frame is half read, and `read_message_async` is not cancel-safe
        loop_body = fn_body(src, "spawn_response_loop")
        sel = re.search(r"select!\s*\{", loop_body)
        if sel:
            from rustlex import match_brace
            end = match_brace(loop_body, sel.end() - 1)
            depth, arms = 0, 0
            blk = loop_body[sel.end():end - 1]
            i = 0
            while i < len(blk):
                ch = blk[i]
                if ch in "{([":
                    depth += 1
                elif ch in "})]":
                    depth -= 1
                elif depth == 0 and blk.startswith("=>", i):
                    arms += 1
                    i += 1
                i += 1
            if arms != 2:
                clean = False
        imp = impl_block(src, r"impl " + ty + r"\s*\{")
        for fn in ("connect", "connect_with_limits"):
            try:
                b = fn_body(imp, fn)
            except ExtractError:
                continue
            if re.search(rx, b):
                clean = False
        out.append(clean)
    return out


def extract():
    f = {kind: extract_one(kind, path, ty) for kind, path, ty in FILES}
    f["readersHaveNoTimer"] = extract_timers()
    f["writeDrop"] = extract_write_and_drop()
    f["wsControl"] = extract_ws_control()
    return f


def _b(x):
    return "true" if x else "false"


def render(facts):
    out = ["import RepeVerif.Model.Mux",
           "/-! GENERATED by /verif/extract/mux.py from /repo/src/client.rs, async_client.rs, websocket_client.rs. -/",
           "namespace Repe.Gen.Mux", "open Repe.Mux", ""]
    for kind in ("blocking", "async", "ws"):
        f = facts[kind]
        order = ", ".join("." + s for s in f["failOrder"])
        out.append(f"/-- {f['file']} -/")
        out.append(f"def {kind}Cfg : Cfg :=")
        out.append(f"  {{ notifyAware := {_b(f['notifyAware'])}, rejectDup := {_b(f['rejectDup'])}, regBeforeWrite := {_b(f['regBeforeWrite'])},")
        out.append(f"    failOrder := [{order}],")
        out.append(f"    timeoutRemoves := {_b(f['timeoutRemoves'])}, cancelRemoves := {_b(f['cancelRemoves'])}, writeErrRemoves := {_b(f['writeErrRemoves'])},")
        out.append(f"    matchRemoves := {_b(f['matchRemoves'])}, readerStops := {_b(f['readerStops'])} }}")
        out.append("")
    wc = facts["wsControl"]
    out += ["def all : List Cfg := [blockingCfg, asyncCfg, wsCfg]", "",
            "/-- src/websocket_client.rs `decode_websocket_frame`: what the reader does with each non-binary message kind. -/",
            f"def wsPing : CtlAction := .{wc['Ping']}", f"def wsPong : CtlAction := .{wc['Pong']}",
            f"def wsClose : CtlAction := .{wc['Close']}", f"def wsText : CtlAction := .{wc['Text']}",
            "",
            "/-- `write_request` of Client / AsyncClient / WebSocketClient puts the whole request on the wire before it returns. -/",
            f"def writeFlushes : List Bool := [{', '.join(_b(x) for x in facts['writeDrop']['writeFlushes'])}]",
            "/-- Response loops, failure path and `connect` of the three clients contain no timer, sleep, deadline or socket read timeout. -/",
            f"def readersHaveNoTimer : List Bool := [{', '.join(_b(x) for x in facts['readersHaveNoTimer'])}]",
            "/-- `Drop for WebSocketClient` closes the writer only when the last handle is dropped. -/",
            f"def wsDropClosesOnlyLast : Bool := {_b(facts['writeDrop']['wsDropClosesOnlyLast'])}",
            "", "end Repe.Gen.Mux", ""]
    return "\n".join(out)


if __name__ == "__main__":
    import json
    f = extract()
    print(json.dumps(f, indent=1))
    print(render(f))
