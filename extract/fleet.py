"""Facts for Gen/Fleet.lean (C19): the ErrorKind list and constant arms of both `is_retryable_error`
functions, the shape of the four `call_*_with_retry` loops, the tag filter of `snapshot_target_nodes`
and whether `broadcast_json` fans out over the filtered nodes."""
import re
from rustlex import *

GEN_FILE = "Fleet.lean"

KINDS = {"NotFound": "notFound", "PermissionDenied": "permissionDenied", "ConnectionRefused": "connectionRefused",
         "ConnectionReset": "connectionReset", "HostUnreachable": "hostUnreachable", "NetworkUnreachable": "networkUnreachable",
         "ConnectionAborted": "connectionAborted", "NotConnected": "notConnected", "AddrInUse": "addrInUse",
         "AddrNotAvailable": "addrNotAvailable", "NetworkDown": "networkDown", "BrokenPipe": "brokenPipe",
         "AlreadyExists": "alreadyExists", "WouldBlock": "wouldBlock", "InvalidInput": "invalidInput",
         "InvalidData": "invalidData", "TimedOut": "timedOut", "WriteZero": "writeZero", "Interrupted": "interrupted",
         "Unsupported": "unsupported", "UnexpectedEof": "unexpectedEof", "OutOfMemory": "outOfMemory", "Other": "other"}


def line_of(src, needle):
    i = src.find(needle)
    return src.count("\n", 0, i) + 1 if i >= 0 else None


def retry_table(src, fname):
    body = fn_body(src, "is_retryable_error")
    flat = " ".join(body.split())
    m = re.fullmatch(r"match (\w+) \{(.*)\}", flat)
    if not m:
        # statements around the `match` (an early `return true`, a pre-computed flag …): what they let
        # through is not known, so every non-transport error counts as retried (pessimistic)
        kinds = [k for k in re.findall(r"ErrorKind::(\w+)", flat) if k in KINDS]
        return list(dict.fromkeys(kinds)), True, True
    arms = m.group(2)
    io = re.search(r"RepeError::Io\( ?(\w+) ?\) => matches!\( ?(\w+)\.kind\(\) ?, ?([^()]*?),? ?\) ?,", arms)
    if not io or io.group(1) != io.group(2): raise ExtractError(f"{fname}: Io arm is not `matches!(e.kind(), …)`")
    kinds = []
    for k in io.group(3).split("|"):
        k = k.strip()
        km = re.fullmatch(r"(?:(?:std::)?io::)?ErrorKind::(\w+)", k)
        if not km or km.group(1) not in KINDS: raise ExtractError(f"{fname}: unrecognised kind `{k}`")
        kinds.append(km.group(1))
    rest = arms[:io.start()] + arms[io.end():]
    server, other = None, None
    arm = r"(RepeError::(\w+)(?: ?\{[^}]*\}| ?\([^)]*\))?|_) => (true|false) ?,?"
    for am in re.finditer(arm, rest):
        val = am.group(3) == "true"
        if am.group(1) == "_": other = val
        elif am.group(2) == "ServerError": server = val if server is None else (server or val)  # several arms: any that retries counts
        elif val: other = True  # an explicit non-transport variant is retried
    left = re.sub(arm, "", rest).strip()
    if left:
        # an arm whose value is not a literal: a dangerous unknown form, not a harmless one. If it is
        # about ServerError (e.g. `ServerError { code, .. } => matches!(code, …)`) some application
        # errors are retried: pessimistic fact; the same for any other non-Io variant.
        if re.match(r"RepeError::ServerError\b", left):
            server = True
        elif re.match(r"RepeError::\w+", left) or left.startswith("_"):
            other = True if other is None else True
        else:
            raise ExtractError(f"{fname}: unrecognised arm in is_retryable_error: `{left[:120]}`")
    if other is None: raise ExtractError(f"{fname}: no `_ =>` arm")
    if server is None: server = other
    return kinds, server, other


def strip_nested(block):
    """`block` = `{ … }`: its text with every nested `{ … }` removed (what runs unconditionally)."""
    out, depth = [], 0
    for ch in block[1:-1] if block.startswith("{") else block:
        if ch == "{": depth += 1
        elif ch == "}": depth -= 1
        elif depth == 0: out.append(ch)
    return "".join(out)


def loop_form(src, fn, fname):
    body = fn_body(src, fn)
    flat = " ".join(body.split())
    # the bound: `for _ in 0..<max_attempts> {` with nothing added to it; a hoisted `let max_attempts = …max_attempts;` is fine
    m = re.search(r"for (\w+) in 0 ?\.\.(=?) ?([\w\.]*max_attempts) ?\{", flat)
    pessimistic = {"inclusive": True, "invalidateOnRetry": False, "breakOnNonRetry": False}
    if not m:
        # another kind of loop, or a bound that is not max_attempts itself: the number of attempts is not known
        return pessimistic
    if m.group(3) == "max_attempts" and not re.search(r"let max_attempts = [\w\.]*retry_policy\.max_attempts;", flat):
        return pessimistic
    inclusive = m.group(2) == "="
    fm = re.search(r"let (\w+) = is_retryable_error\(&\w+\);", flat)
    if not fm: raise ExtractError(f"{fname}:{fn}: no `let <flag> = is_retryable_error(&err);`")
    flag = fm.group(1)
    im = re.search(r"if " + flag + r"\b", body)
    if not im: raise ExtractError(f"{fname}:{fn}: `if {flag}`")
    i = im.start()
    b0 = body.find("{", i); b1 = match_brace(body, b0)
    then_block = body[b0:b1]
    tail = body[b1:]
    em = re.match(r"\s*else\s*\{", tail)
    else_block = ""
    if em:
        e0 = b1 + em.end() - 1; e1 = match_brace(body, e0)
        else_block = body[e0:e1]
    outside = body[:b0] + body[b1:]
    # invalidation must be unconditional in the retryable branch, and before anything that leaves it
    top = strip_nested(then_block.strip())
    inv_in = "invalidate_client(" in top
    if inv_in:
        before = then_block[:then_block.find("invalidate_client(")]
        if re.search(r"\b(continue|break|return)\b", before): inv_in = False
    inv_out = "invalidate_client(" in outside
    if inv_out: raise ExtractError(f"{fname}:{fn}: invalidate_client outside the retryable branch")
    if not re.search(r"Ok\(\w+\) => \{ return RemoteResult", flat): raise ExtractError(f"{fname}:{fn}: Ok arm does not return")
    # anything that re-enters the loop without counting (`continue` in the retryable branch is fine only after the invalidation)
    return {"inclusive": inclusive, "invalidateOnRetry": inv_in, "breakOnNonRetry": bool(re.search(r"\bbreak\b", strip_nested(else_block.strip()) if else_block else ""))}


def filter_form(src, fname):
    flat = " ".join(fn_body(src, "snapshot_target_nodes").split())
    if ".filter(" not in flat and "retain(" not in flat: return "noFilter"
    # exactly one filter and nothing else that drops or limits nodes; otherwise the selection is not
    # the tag test alone: reported as `noFilter` (pessimistic: `broadcast_targets` breaks)
    if flat.count(".filter(") != 1 or re.search(r"\.(take|skip|step_by|take_while|skip_while|filter_map|retain|truncate)\(", flat):
        return "noFilter"
    sm = re.search(r"let (\w+): (?:BTreeSet|HashSet|std::collections::\w+)<String> = tags\.iter\(\)\.map\(\|(\w+)\| \2\.as_ref\(\)\.to_string\(\)\)\.collect\(\);", flat)
    if not sm: return "noFilter"   # the requested set is not the caller's tags as given
    ts = sm.group(1)
    if re.search(r"\.filter\(\|(\w+)\| " + ts + r"\.is_subset\(&\1\.tags\)\)", flat): return "requestedSubsetOfNode"
    if re.search(r"\.filter\(\|(\w+)\| \1\.tags\.is_superset\(&" + ts + r"\)\)", flat): return "requestedSubsetOfNode"
    if re.search(r"\.filter\(\|(\w+)\| " + ts + r"\.iter\(\)\.all\(\|(\w+)\| \1\.tags\.contains\(\2\)\)\)", flat): return "requestedSubsetOfNode"
    if re.search(r"\.filter\(\|(\w+)\| \1\.tags\.is_subset\(&" + ts + r"\)\)", flat): return "nodeSubsetOfRequested"
    if re.search(r"\.filter\(\|(\w+)\| " + ts + r"\.is_superset\(&\1\.tags\)\)", flat): return "nodeSubsetOfRequested"
    return "noFilter"


def fan_out(src, fname):
    body = fn_body(src, "broadcast_json")
    flat = " ".join(body.split())
    m = re.search(r"let (\w+) = self\.(\w+)\(([^)]*)\)(?:\.await)?;", flat)
    if not m: raise ExtractError(f"{fname}: broadcast_json source of nodes")
    # the loop runs over exactly that list (no take/skip/filter on it) …
    lm = re.search(r"for \w+ in " + m.group(1) + r" \{", body)
    if not lm: return False
    # … and every iteration spawns the call: nothing skips or leaves the loop
    b0 = body.find("{", lm.start()); b1 = match_brace(body, b0)
    loop_body = body[b0:b1]
    if not re.search(r"\.call_json_with_retry\(", loop_body): return False
    spawn_at = re.search(r"\b(?:thread::spawn|tokio::spawn|spawn)\(", loop_body)
    head = loop_body[:spawn_at.start()] if spawn_at else loop_body
    if re.search(r"\b(continue|break|return|if|match)\b", head): return False
    return m.group(2) == "snapshot_target_nodes" and m.group(3).strip() == "tags"


def dead_kinds(path):
    """What a call on a client whose response loop has failed can yield (a list: the first entry is what
    a call made after the failure has been fully processed yields). Without a `failed` flag the request
    is written to the socket `fail_all_pending` shut down: EPIPE. With a `failed` flag that `register`
    tests before anything is written: the kind of `connection_failed_error`; a call that registered
    just before the flag was set still reaches the write on the shut-down socket: EPIPE as well."""
    src = test_mod_cut(strip(read(path)))
    raw = test_mod_cut(read(path))
    if not re.search(r"\bfailed\b", src):
        if "fn fail_all_pending" not in src or not re.search(r"\.shutdown\(", fn_body(src, "fail_all_pending")):
            raise ExtractError(f"{path}: fail_all_pending does not shut the socket down")
        return ["BrokenPipe"]
    reg = " ".join(fn_body(src, "register").split())
    if not re.search(r"failed\.load\([^)]*\) ?\{ ?return Err\(connection_failed_error\(", reg):
        raise ExtractError(f"{path}: `failed` flag is not tested in register")
    fap = " ".join(fn_body(src, "fail_all_pending").split())
    i, j = fap.find("failed.store(true"), fap.find(".drain()")
    if i < 0 or j < 0 or i > j: raise ExtractError(f"{path}: failed.store(true) does not precede the drain")
    m = re.search(r"fn connection_failed_error[^{]*\{(.*?)\n\}", raw, re.S)
    km = re.search(r"ErrorKind::(\w+)", m.group(1)) if m else None
    if not km or km.group(1) not in KINDS: raise ExtractError(f"{path}: kind of connection_failed_error")
    return [km.group(1)] + (["BrokenPipe"] if km.group(1) != "BrokenPipe" else [])


def refusal_kind(path):
    """Kind of the error `register` refuses a call with once the connection is marked failed; None if
    the client has no such refusal (its dead-connection error is the failed write)."""
    ks = dead_kinds(path)
    src = test_mod_cut(strip(read(path)))
    return ks[0] if re.search(r"\bfailed\b", src) else None


def health_form(src, fname):
    flat = " ".join(fn_body(src, "health_check").split())
    if "ensure_connected(" not in flat or "call_message_with_timeout(" not in flat:
        raise ExtractError(f"{fname}: health_check does not connect and call")
    return {"invalidateOnError": bool(re.search(r"Err\(\w+\) => \{ invalidate_client\(", flat)),
            "singleAttempt": "max_attempts" not in flat and "_with_retry" not in flat}


def node_timeout(src, fn, fname):
    """The per-node timeout is what reaches the client call."""
    flat = " ".join(fn_body(src, fn).split())
    m = re.search(r"let (\w+) = \w+\.config\.timeout;", flat)
    if not m: return False
    t = m.group(1)
    calls = re.findall(r"\.call_(?:json|message)_with_timeout\(([^;]*?)\)(?:\.await)?[;?\s}]", flat)
    return bool(calls) and all(c.split(",")[-1].strip() == t for c in calls)


def guards(src, fleet_src, fname):
    """What the constructors refuse, so that the hypotheses of the theorems hold for every fleet that
    exists: `max_attempts >= 1`, node names distinct at construction and at `add_node`. A guard that is
    not found in a known form is reported as absent (pessimistic: the theorem about the guards breaks
    and the `opts` cases of the harness say whether the constructor still refuses)."""
    vf = " ".join(fn_body(fleet_src, "validate_fleet_options").split())
    validates = bool(re.search(r"if \w+\.retry_policy\.max_attempts (?:< 1|== 0|<= 0) \{ return Err\(", vf))
    wo = " ".join(fn_body(src, "with_options").split())
    ok_at = wo.find("Ok(Self")
    call_at = wo.find("validate_fleet_options(&options)?;")
    max_ok = validates and 0 <= call_at < ok_at
    ins = re.search(r"if !(\w+)\.insert\(config\.name\.clone\(\)\) \{ return Err\(", wo)
    distinct_new = bool(ins) and 0 <= ins.start() < ok_at and bool(re.search(r"let mut " + (ins.group(1) if ins else "names") + r" = HashSet::new\(\);", wo))
    an = " ".join(fn_body(src, "add_node").split())
    ck = re.search(r"if (\w+)\.contains_key\(&config\.name\) \{ return Err\(", an)
    distinct_add = bool(ck) and ck.start() < an.find(".insert(")
    return {"maxAttemptsValidated": max_ok, "namesDistinctAtConstruction": distinct_new, "namesDistinctAtAdd": distinct_add}


def invalidate_unconditional(src, fname):
    """`invalidate_client` takes the node slot's lock (waiting for it) and empties the slot, whatever else
    is going on: no `try_lock`, no condition, no early return. Anything else is reported as false."""
    flat = " ".join(fn_body(src, "invalidate_client").split())
    if re.fullmatch(r"let mut (\w+) = lock_node_client\(&\w+\.client\); \*\1 = None;", flat):
        lk = " ".join(fn_body(src, "lock_node_client").split())
        return bool(re.fullmatch(r"match \w+\.lock\(\) \{ Ok\((\w+)\) => \1, Err\((\w+)\) => \2\.into_inner\(\),? \}", lk))
    return bool(re.fullmatch(r"let mut (\w+) = \w+\.client\.lock\(\)\.await; \*\1 = None;", flat))


def ensure_connected_form(src, fname):
    """`ensure_connected`: under the slot's lock, a cached client is returned as it is (dead or not);
    otherwise one connect, whose client is stored in the slot and returned. This is what the model's
    `Cache` transitions of an attempt stand on. Anything else (a liveness test that drops the client, a
    connect outside the lock, a client that is not stored, a retry inside) is reported as false."""
    flat = " ".join(fn_body(src, "ensure_connected").split())
    pats = [
        # blocking
        r"let mut (\w+) = lock_node_client\(&\w+\.client\); if let Some\((\w+)\) = \1\.as_ref\(\) \{ return Ok\(\2\.clone\(\)\); \} "
        r"let (\w+) = Client::connect\(\w+\.config\.address\(\)\)\?; let (\w+) = \3\.clone\(\); \*\1 = Some\(\3\); Ok\(\4\)",
        # async
        r"let mut (\w+) = \w+\.client\.lock\(\)\.await; if let Some\((\w+)\) = \1\.as_ref\(\) \{ return Ok\(\2\.clone\(\)\); \} "
        r"let (\w+) = \w+\.config\.host\.clone\(\); let (\w+) = AsyncClient::connect\(\(\3\.as_str\(\), \w+\.config\.port\)\)\.await\?; "
        r"let (\w+) = \4\.clone\(\); \*\1 = Some\(\4\); Ok\(\5\)",
    ]
    return any(re.fullmatch(p, flat) for p in pats)


def results_keyed_by_node(src, fname):
    """`broadcast_json`: every worker returns `(result.node.clone(), result)` — the name of the node the
    call was made to — and every joined worker's pair is inserted under that name; nothing renames,
    filters or re-orders the pairs in between."""
    flat = " ".join(fn_body(src, "broadcast_json").split())
    if len(re.findall(r"\(result\.node\.clone\(\), result\)", flat)) != 1: return False
    m = re.search(r"let mut (\w+) = HashMap::new\(\); for (\w+) in (\w+) \{ if let Ok\(\((\w+), (\w+)\)\) = \2\.(?:join\(\)|await) \{ \1\.insert\(\4, \5\); \} \} \1 ?$", flat)
    return bool(m)


def no_extra_timers(src, fname):
    """The only waits in the code the property depends on are the ones the model has: each retry loop
    sleeps once, for the configured retry delay, between attempts; the per-attempt timeout is the
    argument of the client call (see `node_timeout`); `health_check` uses its one constant. Any other
    timer, sleep, timeout wrapper, deadline comparison, select or interval inside the four loops,
    `ensure_connected`, `broadcast_json` or `health_check` is reported as false (pessimistic: a reply that
    takes longer than such a timer would be treated as something else than that reply)."""
    timer_words = r"\b(sleep|timeout|sleep_until|interval|select!|recv_timeout|wait_timeout|park_timeout|Instant::now|elapsed|deadline|Duration::from_\w+|checked_sub|saturating_sub)\b"
    def waits(fn):
        return re.findall(timer_words, " ".join(fn_body(src, fn).split()))
    ok = True
    for fn in ("call_json_with_retry", "call_message_with_retry"):
        flat = " ".join(fn_body(src, fn).split())
        w = waits(fn)
        # allowed: `let started = Instant::now();`, two `elapsed: started.elapsed()`, one sleep of the policy's delay,
        # `let timeout = <node>.config.timeout;` and the `_with_timeout(.., timeout)` calls (not matched by \btimeout\b alone? they are)
        allowed_sleep = len(re.findall(r"(?:thread::sleep|tokio::time::sleep)\(self\.options\.retry_policy\.delay\)", flat))
        if w.count("sleep") != 1 or allowed_sleep != 1: ok = False
        if w.count("Instant::now") != 1 or w.count("elapsed") != 4 or len(re.findall(r"elapsed: started\.elapsed\(\)", flat)) != 2: ok = False
        if any(x in w for x in ("sleep_until", "interval", "select!", "recv_timeout", "wait_timeout", "park_timeout", "deadline", "checked_sub", "saturating_sub")): ok = False
        if re.search(r"Duration::from_\w+", flat): ok = False
        # `timeout` occurs only as the local holding the node's timeout and as the last argument of the client calls
        stripped = re.sub(r"let timeout = \w+\.config\.timeout;", "", flat)
        stripped = re.sub(r"call_(?:json|message)_with_timeout\(([^;]*?), timeout\)", "", stripped)
        if re.search(r"\btimeout\b", stripped): ok = False
    for fn in ("ensure_connected", "broadcast_json", "invalidate_client"):
        if waits(fn): ok = False
    hw = waits("health_check")
    hflat = " ".join(fn_body(src, "health_check").split())
    if sorted(hw) != sorted(["Instant::now", "elapsed", "elapsed"]) or "DEFAULT_HEALTH_TIMEOUT" not in hflat: ok = False
    return ok


def extract():
    facts = {}
    facts["deadKinds"] = dead_kinds("src/client.rs")
    facts["asyncDeadKinds"] = dead_kinds("src/async_client.rs")
    facts["refusalKind"] = refusal_kind("src/client.rs")
    facts["asyncRefusalKind"] = refusal_kind("src/async_client.rs")
    for key, path in (("", "src/fleet.rs"), ("async", "src/async_fleet.rs")):
        raw = read(path)
        src = test_mod_cut(strip(raw))
        kinds, server, other = retry_table(src, path)
        nm = lambda s: (key + s[0].upper() + s[1:]) if key else s
        facts[nm("retryableKinds")] = kinds
        facts[nm("serverRetry")] = server
        facts[nm("otherRetry")] = other
        facts[nm("loopJson")] = loop_form(src, "call_json_with_retry", path)
        facts[nm("loopMessage")] = loop_form(src, "call_message_with_retry", path)
        facts[nm("healthForm")] = health_form(src, path)
        facts[nm("nodeTimeout")] = node_timeout(src, "call_json_with_retry", path) and node_timeout(src, "call_message_with_retry", path)
        facts[nm("filter")] = filter_form(src, path)
        facts[nm("fanOutOverTargets")] = fan_out(src, path)
        facts[nm("invalidateUnconditional")] = invalidate_unconditional(src, path)
        facts[nm("noExtraTimers")] = no_extra_timers(src, path)
        facts[nm("ensureConnectedCaches")] = ensure_connected_form(src, path)
        facts[nm("resultsKeyedByNode")] = results_keyed_by_node(src, path)
        for gk, gv in guards(src, test_mod_cut(strip(read("src/fleet.rs"))), path).items():
            facts[nm(gk)] = gv
        facts.setdefault("where", {})[path] = {"is_retryable_error": line_of(raw, "fn is_retryable_error"),
                                                "call_json_with_retry": line_of(raw, "fn call_json_with_retry"),
                                                "call_message_with_retry": line_of(raw, "fn call_message_with_retry"),
                                                "snapshot_target_nodes": line_of(raw, "fn snapshot_target_nodes")}
    return facts


def render(f):
    b = lambda v: "true" if v else "false"
    kinds = lambda l: "[" + ", ".join("." + KINDS[k] for k in l) + "]"
    lf = lambda d: f"⟨{b(d['inclusive'])}, {b(d['invalidateOnRetry'])}, {b(d['breakOnNonRetry'])}⟩"
    L = ["import RepeVerif.Model.Fleet",
         "/-! GENERATED by /verif/extract/fleet.py from /repo (src/fleet.rs, src/async_fleet.rs, src/client.rs, src/async_client.rs). -/",
         "namespace Repe.Gen.Fleet",
         "open Repe.Fleet",
         f"def retryableKinds : List IoKind := {kinds(f['retryableKinds'])}",
         f"def asyncRetryableKinds : List IoKind := {kinds(f['asyncRetryableKinds'])}",
         f"def serverRetry : Bool := {b(f['serverRetry'])}",
         f"def otherRetry : Bool := {b(f['otherRetry'])}",
         f"def asyncServerRetry : Bool := {b(f['asyncServerRetry'])}",
         f"def asyncOtherRetry : Bool := {b(f['asyncOtherRetry'])}",
         f"def loopJson : LoopForm := {lf(f['loopJson'])}",
         f"def loopMessage : LoopForm := {lf(f['loopMessage'])}",
         f"def asyncLoopJson : LoopForm := {lf(f['asyncLoopJson'])}",
         f"def asyncLoopMessage : LoopForm := {lf(f['asyncLoopMessage'])}",
         f"def healthForm : HealthForm := ⟨{b(f['healthForm']['invalidateOnError'])}, {b(f['healthForm']['singleAttempt'])}⟩",
         f"def asyncHealthForm : HealthForm := ⟨{b(f['asyncHealthForm']['invalidateOnError'])}, {b(f['asyncHealthForm']['singleAttempt'])}⟩",
         f"def nodeTimeout : Bool := {b(f['nodeTimeout'])}",
         f"def asyncNodeTimeout : Bool := {b(f['asyncNodeTimeout'])}",
         f"def filter : FilterForm := .{f['filter']}",
         f"def asyncFilter : FilterForm := .{f['asyncFilter']}",
         f"def fanOutOverTargets : Bool := {b(f['fanOutOverTargets'])}",
         f"def asyncFanOutOverTargets : Bool := {b(f['asyncFanOutOverTargets'])}",
         f"def invalidateUnconditional : Bool := {b(f['invalidateUnconditional'])}",
         f"def asyncInvalidateUnconditional : Bool := {b(f['asyncInvalidateUnconditional'])}",
         f"def noExtraTimers : Bool := {b(f['noExtraTimers'])}",
         f"def asyncNoExtraTimers : Bool := {b(f['asyncNoExtraTimers'])}",
         f"def ensureConnectedCaches : Bool := {b(f['ensureConnectedCaches'])}",
         f"def asyncEnsureConnectedCaches : Bool := {b(f['asyncEnsureConnectedCaches'])}",
         f"def resultsKeyedByNode : Bool := {b(f['resultsKeyedByNode'])}",
         f"def asyncResultsKeyedByNode : Bool := {b(f['asyncResultsKeyedByNode'])}",
         f"def maxAttemptsValidated : Bool := {b(f['maxAttemptsValidated'])}",
         f"def asyncMaxAttemptsValidated : Bool := {b(f['asyncMaxAttemptsValidated'])}",
         f"def namesDistinctAtConstruction : Bool := {b(f['namesDistinctAtConstruction'])}",
         f"def asyncNamesDistinctAtConstruction : Bool := {b(f['asyncNamesDistinctAtConstruction'])}",
         f"def namesDistinctAtAdd : Bool := {b(f['namesDistinctAtAdd'])}",
         f"def asyncNamesDistinctAtAdd : Bool := {b(f['asyncNamesDistinctAtAdd'])}",
         f"def deadKinds : List IoKind := {kinds(f['deadKinds'])}",
         f"def asyncDeadKinds : List IoKind := {kinds(f['asyncDeadKinds'])}",
         "def refusalKind : Option IoKind := " + ("none" if f['refusalKind'] is None else f"some .{KINDS[f['refusalKind']]}"),
         "def asyncRefusalKind : Option IoKind := " + ("none" if f['asyncRefusalKind'] is None else f"some .{KINDS[f['asyncRefusalKind']]}"),
         "def policy : Policy := ⟨retryableKinds, serverRetry, otherRetry, deadKinds.headD .brokenPipe⟩",
         "def asyncPolicy : Policy := ⟨asyncRetryableKinds, asyncServerRetry, asyncOtherRetry, asyncDeadKinds.headD .brokenPipe⟩",
         "end Repe.Gen.Fleet"]
    return "\n".join(L) + "\n"


if __name__ == "__main__":
    import json
    f = extract()
    print(json.dumps(f, indent=1))
    print(render(f))
