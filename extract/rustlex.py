"""Minimal Rust source access for fact extraction: comment/string stripping, brace matching,
locating `fn` bodies. Recognises a closed set of forms; anything else raises ExtractError."""
import re, os

REPO = os.environ.get("VERIF_REPO", "/repo")


class ExtractError(Exception):
    pass


def read(rel):
    with open(os.path.join(REPO, rel), encoding="utf-8") as f:
        return f.read()


def strip(src):
    """Replace comments and string/char literal contents by spaces (same length, newlines kept)."""
    out = []
    i, n = 0, len(src)
    while i < n:
        c = src[i]
        if src.startswith("//", i):
            j = src.find("\n", i)
            j = n if j < 0 else j
            out.append(" " * (j - i)); i = j
        elif src.startswith("/*", i):
            depth, j = 1, i + 2
            while j < n and depth:
                if src.startswith("/*", j): depth += 1; j += 2
                elif src.startswith("*/", j): depth -= 1; j += 2
                else: j += 1
            out.append("".join(ch if ch == "\n" else " " for ch in src[i:j])); i = j
        elif c == '"':
            j = i + 1
            while j < n and src[j] != '"':
                j += 2 if src[j] == "\\" else 1
            out.append('"' + "".join(ch if ch == "\n" else " " for ch in src[i + 1:j]) + '"'); i = j + 1
        elif c == "r" and re.match(r'r#*"', src[i:]):
            m = re.match(r'r(#*)"', src[i:])
            end = '"' + m.group(1)
            j = src.find(end, i + len(m.group(0)))
            j = n if j < 0 else j + len(end)
            out.append("".join(ch if ch == "\n" else " " for ch in src[i:j])); i = j
        elif c == "'" and re.match(r"'(\\.|[^\\'])'", src[i:]):
            m = re.match(r"'(\\.|[^\\'])'", src[i:])
            out.append("' '" + " " * (len(m.group(0)) - 3)); i += len(m.group(0))
        else:
            out.append(c); i += 1
    return "".join(out)


def match_brace(s, i):
    """s[i] == '{' -> index just past the matching '}'."""
    assert s[i] == "{"
    depth = 0
    for j in range(i, len(s)):
        if s[j] == "{": depth += 1
        elif s[j] == "}":
            depth -= 1
            if depth == 0:
                return j + 1
    raise ExtractError("unbalanced braces")


def fn_body(stripped, name, start=0, end=None):
    """Body text (between the braces) of the first `fn name` in stripped[start:end]."""
    end = len(stripped) if end is None else end
    m = re.compile(r"\bfn\s+" + re.escape(name) + r"\b").search(stripped, start, end)
    if not m:
        raise ExtractError(f"fn {name} not found")
    i = stripped.find("{", m.end())
    # skip where-clauses / return types containing no braces
    j = match_brace(stripped, i)
    return stripped[i + 1:j - 1]


def test_mod_cut(stripped):
    """Drop `#[cfg(test)] mod tests { … }` so test code is never mistaken for the implementation."""
    m = re.search(r"#\[cfg\(test\)\]\s*mod\s+\w+\s*\{", stripped)
    return stripped[:m.start()] if m else stripped


def impl_block(stripped, header_regex):
    m = re.search(header_regex, stripped)
    if not m:
        raise ExtractError(f"impl {header_regex} not found")
    i = stripped.find("{", m.end() - 1)
    j = match_brace(stripped, i)
    return stripped[i + 1:j - 1]


def statements(body):
    """Top-level `;`-terminated statements of a block body (brace-aware)."""
    out, depth, cur = [], 0, []
    for ch in body:
        if ch in "{([": depth += 1
        elif ch in "})]": depth -= 1
        cur.append(ch)
        if ch == ";" and depth == 0:
            out.append(" ".join("".join(cur).split())); cur = []
    tail = " ".join("".join(cur).split())
    if tail:
        out.append(tail)
    return out


def sum_form(expr):
    e = " ".join(expr.split())
    if "checked_add" in e: return "checked"
    if "saturating_add" in e: return "saturating"
    if "wrapping_add" in e: raise ExtractError(f"wrapping sum: {e}")
    if re.fullmatch(r"[\w\.\s\(\)]+(\+[\w\.\s\(\)]+)+", e): return "unchecked"
    raise ExtractError(f"unrecognised sum form: {e}")


def test_mod_remove(stripped):
    """Blank out every `#[cfg(test)] mod … { … }` block (same length), keeping code that follows it
    (message.rs has its builder and response constructors *after* the test module)."""
    out = stripped
    pos = 0
    while True:
        m = re.compile(r"#\[cfg\(test\)\]\s*mod\s+\w+\s*\{").search(out, pos)
        if not m:
            return out
        i = out.find("{", m.start())
        j = match_brace(out, i)
        out = out[:m.start()] + "".join(ch if ch == "\n" else " " for ch in out[m.start():j]) + out[j:]
        pos = j


def statements2(body):
    """Like `statements`, but a block statement (`if … { } [else { }]`, `while`, `for`, `loop`, `match`) that
    ends with `}` at depth 0 is a statement of its own instead of being glued to what follows."""
    out, depth, cur = [], 0, []
    i, n = 0, len(body)
    def flush():
        t = " ".join("".join(cur).split())
        if t:
            out.append(t)
        cur.clear()
    while i < n:
        ch = body[i]
        if ch in "{([": depth += 1
        elif ch in "})]": depth -= 1
        cur.append(ch)
        if ch == ";" and depth == 0:
            flush()
        elif ch == "}" and depth == 0:
            head = "".join(cur).lstrip()
            if re.match(r"(if|while|for|loop|match)\b", head):
                rest = body[i + 1:].lstrip()
                if not rest.startswith("else") and not rest.startswith(".") and not rest.startswith("?") and not rest.startswith(";"):
                    flush()
        i += 1
    flush()
    return out


def block_after(text, start_regex):
    """Body of the first `{…}` block following a match of `start_regex` in `text` (None if absent)."""
    m = re.search(start_regex, text)
    if not m:
        return None
    i = text.find("{", m.end() - 1)
    if i < 0:
        return None
    j = match_brace(text, i)
    return text[i + 1:j - 1]
