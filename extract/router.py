"""Facts for Gen/Router.lean (C07): lookup order in Router::get, STACK_SEGS, which registrars wrap in the
active middleware, which collections register_middleware rebuilds, body-format gates of the paired
owned/borrowed decoders, wrapper overrides."""
import re
from rustlex import *

GEN_FILE = "Router.lean"

COLL = {"inner": "exact", "registries": "registries", "structs": "structs"}
DECODERS = [(r"serde_json::from_slice(?:::<\w+>)?\(", "serdeJson"), (r"beve_from_slice\(", "beve"),
            (r"(?:beve::read_typed_slice|read_typed_slice_body)\(", "typedSlice"), (r"decode_typed_slice_ref_body::<T>\(", "typedSliceRef")]


def body_format_codes(consts):
    m = re.search(r"pub enum BodyFormat\s*\{([^}]*)\}", consts)
    if not m: raise ExtractError("enum BodyFormat")
    codes = {n: int(v) for n, v in re.findall(r"(\w+)\s*=\s*(\d+)", m.group(1))}
    if not codes: raise ExtractError("BodyFormat discriminants")
    return codes


def gate(src, fn, codes):
    return gate_body(fn_body(src, fn), fn, codes)


def gate_body(b, fn, codes):
    """The `match BodyFormat::try_from(..) { Ok(BodyFormat::A) | Ok(BodyFormat::B) => <decoder>, …, _ => <reject> }` of one decoder."""
    m = re.search(r"match BodyFormat::try_from\([^)]*\)\s*\{", b)
    if not m: raise ExtractError(f"{fn}: match on BodyFormat::try_from not found")
    i = b.find("{", m.end() - 1)
    arms_text = b[i + 1:match_brace(b, i) - 1]
    # split top-level arms
    arms, depth, cur = [], 0, []
    for ch in arms_text:
        if ch in "{([": depth += 1
        elif ch in "})]": depth -= 1
        cur.append(ch)
        if depth == 0 and ch in ",}":
            t = "".join(cur).strip().rstrip(",").strip()
            if "=>" in t:
                arms.append(" ".join(t.split())); cur = []
    t = "".join(cur).strip()
    if "=>" in t: arms.append(" ".join(t.split()))
    out, seen_default = [], False
    for arm in arms:
        pat, rhs = arm.split("=>", 1)
        pat = pat.strip()
        if pat == "_" or re.search(r"\bErr\(_\)", pat):
            if pat != "_" and re.sub(r"Ok\(BodyFormat::\w+\)|Err\(_\)|\||\s", "", pat): raise ExtractError(f"{fn}: unrecognised arm pattern `{pat}`")
            seen_default = True
            if "InvalidBody" not in rhs and "on_bad_format" not in rhs: raise ExtractError(f"{fn}: default arm is not the InvalidBody rejection: {rhs[:60]}")
            continue
        names = re.findall(r"Ok\(BodyFormat::(\w+)\)", pat)
        if not names or re.sub(r"Ok\(BodyFormat::\w+\)|\||\s", "", pat): raise ExtractError(f"{fn}: unrecognised arm pattern `{pat}`")
        dec = [d for rx, d in DECODERS if re.search(rx, rhs)]
        if len(dec) != 1: raise ExtractError(f"{fn}: decoder of arm `{arm[:70]}` not recognised")
        for n in names:
            if n not in codes: raise ExtractError(f"{fn}: unknown BodyFormat::{n}")
            out.append((codes[n], dec[0]))
    if not seen_default: raise ExtractError(f"{fn}: no `_ =>` rejection arm")
    if len({c for c, _ in out}) != len(out): raise ExtractError(f"{fn}: a body format is matched twice")
    return sorted(out)


def overrides(src, impl_re):
    imp = impl_block(src, impl_re)
    return set(re.findall(r"\bfn\s+(\w+)\s*\(", imp))


def extract():
    f = {}
    src = test_mod_cut(strip(read("src/server.rs")))
    codes = body_format_codes(strip(read("src/constants.rs")))
    router = impl_block(src, r"impl Router\s*\{")
    # ---- Router::get: order of the three lookups
    g = " ".join(fn_body(router, "get").split())
    ID = r"[a-z_]\w*"
    look = {"exact": r"self\.inner\.get\(path\)",
            "registries": rf"self\s*\.registries\s*\.iter\(\)\s*\.find\(\|{ID}\| {ID}\.matches\(path\)\)",
            "structs": rf"self\s*\.structs\s*\.iter\(\)\s*\.find\(\|{ID}\| {ID}\.matches\(path\)\)"}
    order, rest = [], g
    while rest.strip():
        rest = rest.strip()
        hit = None
        for k, rx in look.items():
            m = re.match(rf"if let Some\(({ID})\) = {rx} \{{ return Some\(Arc::clone\(&\1\.dispatched\)\); \}}", rest) \
                or re.match(rf"{rx} \.map\(\|({ID})\| Arc::clone\(&\1\.dispatched\)\)$", rest) \
                or re.match(rf"{rx}\.map\(\|({ID})\| Arc::clone\(&\1\.dispatched\)\)$", rest)
            if m:
                hit = (k, m.end()); break
        if not hit: break
        order.append(hit[0]); rest = rest[hit[1]:]
    if rest.strip() or sorted(order) != ["exact", "registries", "structs"]:
        # not the three plain lookups. A guard, a filter or an extra branch around a lookup is exactly the danger:
        # make the fact pessimistic (no order => `exact_wins` cannot be instantiated). Anything else: unknown form.
        if re.search(r"\bif\b(?! let Some)|&&|\|\||\.filter\(|\bmatch\b|starts_with|ends_with|\.len\(\)|\.rev\(\)|\.last\(\)|rfind|position", rest if rest.strip() else g):
            f["getOrder"] = []
        else:
            raise ExtractError("Router::get: lookups not recognised")
    else:
        f["getOrder"] = order
    # ---- STACK_SEGS
    m = re.search(r"const STACK_SEGS\s*:\s*usize\s*=\s*(\d+)\s*;", fn_body(src, "dispatch_struct_segments"))
    if not m: raise ExtractError("STACK_SEGS")
    f["stackSegs"] = int(m.group(1))
    # ---- registrars wrap on registration
    wraps = []
    for fn, coll, store in (("insert_route", "exact", "self.inner"), ("register_registry", "registries", "self.registries"),
                            ("register_struct_shared", "structs", "self.structs")):
        b = fn_body(router, fn)
        if re.search(r"let dispatched = wrap_with_middlewares\(&raw, &self\.middlewares\);", b) and re.search(r"\bdispatched\b\s*[,}]", b.split("wrap_with_middlewares", 1)[1]) and store in b:
            wraps.append(coll)
    f["wraps"] = wraps
    # every public route registrar goes through insert_route (or one of the two mount registrars)
    for name, body_start in [(m.group(1), m.end()) for m in re.finditer(r"pub fn (with_\w+|register_\w+)\b", router)]:
        if name in ("with_middleware", "register_middleware", "register_registry", "register_struct_shared"): continue
        b = fn_body(router, name)
        if not re.search(r"self\.insert_route\(|self\.with_json\(|self\.register_struct_shared::<|self\.register_struct\(|self\.register_registry\(|self\.register_middleware\(", b):
            raise ExtractError(f"registrar {name} does not go through a wrapping registrar")
    # ---- register_middleware rebuilds
    b = fn_body(router, "register_middleware")
    if not re.search(r"list\.push\(arc\.clone\(\)\);\s*self\.middlewares = Arc::new\(list\);", b): raise ExtractError("register_middleware: middleware list update not recognised")
    first_rebuild = b.find("wrap_with_middlewares")
    if first_rebuild < b.find("self.middlewares = Arc::new(list)"): raise ExtractError("register_middleware: rebuild precedes the list update")
    reb = []
    for field, coll in (("inner", "exact"), ("registries", "registries"), ("structs", "structs")):
        m = re.search(r"self\s*\.\s*" + field + r"\s*\.iter\(\)\s*\.map\((.*?)\.collect\(\);\s*self\." + field + r" = Arc::new\(", b, re.S)
        if m and re.search(r"wrap_with_middlewares\(&entry\.raw, &self\.middlewares\)", m.group(1)): reb.append(coll)
    f["mwRebuilds"] = reb
    # ---- wrap_with_middlewares itself
    w = fn_body(src, "wrap_with_middlewares")
    if not re.search(r"if middlewares\.is_empty\(\)\s*\{\s*Arc::clone\(handler\)\s*\}\s*else\s*\{\s*Arc::new\(MiddlewarePipeline\s*\{\s*handler: Arc::clone\(handler\),\s*middlewares: Arc::clone\(middlewares\),?\s*\}\)\s*\}", w):
        raise ExtractError("wrap_with_middlewares: form not recognised")
    # ---- gates
    for key, fn in (("jsonOwned", "decode_json_param"), ("jsonView", "decode_json_param_view"), ("typedOwned", "decode_typed_param"),
                    ("typedView", "decode_typed_param_view"), ("sliceOwned", "decode_typed_slice_param"), ("sliceView", "decode_typed_slice_param_view")):
        f[key] = gate(src, fn, codes)
    ref = gate(src, "decode_typed_slice_ref_param", codes)
    imp = impl_block(src, r"impl<T, R, F> HandlerErased for TypedSliceRefHandler<T, R, F>")
    for key, fn, arg in (("sliceRefOwned", "handle", r"req\.header\.body_format, &req\.body"), ("sliceRefView", "handle_view", r"view\.header\.body_format, view\.body")):
        if not re.search(r"decode_typed_slice_ref_param::<T>\(" + arg, fn_body(imp, fn)): raise ExtractError(f"TypedSliceRefHandler::{fn}: gate call not recognised")
        f[key] = ref
    # ---- inline gates of the struct mount and of the JsonTypedHandler adapter
    sh = fn_body(impl_block(src, r"impl<T, L> HandlerErased for RegisteredStruct<T, L>"), "handle")
    f["structGate"] = gate_body(sh, "RegisteredStruct::handle", codes)
    f["structEmptyBodyIsRead"] = re.search(r"let body = if req\.body\.is_empty\(\)\s*\{\s*None\s*\}\s*else\s*\{", sh) is not None
    f["adapterGate"] = gate_body(fn_body(impl_block(src, r"impl<H: JsonTypedHandler> HandlerErased for JsonTypedAdapter<H>"), "handle"), "JsonTypedAdapter::handle", codes)
    # ---- wrappers
    pipe = impl_block(src, r"impl HandlerErased for MiddlewarePipeline\s*\{")
    f["pipelineExecForwards"] = re.fullmatch(r"\s*self\.handler\.execution\(\)\s*", fn_body(pipe, "execution")) is not None
    f["pipelineViewDefault"] = "handle_view" not in overrides(src, r"impl HandlerErased for MiddlewarePipeline\s*\{")
    f["offReaderViewDefault"] = "handle_view" not in overrides(src, r"impl<H: HandlerErased> HandlerErased for OffReaderHandler<H>\s*\{")
    # ---- Next::run: every Next handed to a middleware keeps the context; the leaf gets it
    nx = fn_body(impl_block(src, r"impl<'a> Next<'a>\s*\{"), "run")
    lits = [m.start() for m in re.finditer(r"\bNext\s*\{", nx)]
    calls = re.findall(r"\b(?:Next|Self)::(?:new|with_ctx)\(|\bSelf\s*\{", nx)
    if not lits and not calls: raise ExtractError("Next::run: no construction of the inner Next recognised")
    good = bool(lits) and not calls
    for i in lits:
        j = nx.find("{", i)
        lit = " ".join(nx[j + 1:match_brace(nx, j) - 1].split())
        fields = sorted(x.strip() for x in lit.rstrip(",").split(","))
        if fields != ["ctx: self.ctx", "handler: self.handler", "middlewares: rest"]: good = False
    if not re.search(r"Some\(ctx\) => self\.handler\.handle_with_ctx\(req, ctx\)", nx) or not re.search(r"None => self\.handler\.handle\(req\)", nx): good = False
    if not re.search(r"self\.middlewares\.split_first\(\)", nx): good = False
    f["nextForwardsCtx"] = good
    # ---- the two TCP servers echo the query of the request in hand
    def echo_ok(conn):
        c = " ".join(conn.split())
        if len(re.findall(r"response_echo_query\(", c)) != 1: return False
        m = re.search(r"let (\w+) = (?:crate::message::)?response_echo_query\( ?&(\w+), (\w+)\.query,? ?\);", c)
        if not m: return False
        echo, resp, view = m.groups()
        # the view is the one parsed from the current read buffer, the response the one just routed from it
        if not re.search(rf"let {view} = MessageView::from_slice\(&buf\)\?;", c): return False
        if not re.search(rf"if let Some\({resp}\) = route_request_view\(&router, &{view}\)", c): return False
        # `echo` must reach the writer untouched: bound once, never assigned, used at least once
        if len(re.findall(rf"\blet (?:mut )?{echo}\b", c)) != 1: return False
        rest = c.replace(m.group(0), "")
        if re.search(rf"\b{echo}\s*=[^=]", rest): return False
        return len(re.findall(rf"\b{echo}\b", rest)) >= 1
    srv_conn = fn_body(src, "handle_connection")
    asrc = test_mod_cut(strip(read("src/async_server.rs")))
    f["serversEchoViewQuery"] = echo_ok(srv_conn) and echo_ok(fn_body(asrc, "handle_connection"))
    # ---- derive-generated dispatch (repe-derive): how the arms test and forward `tail`
    dsrc = strip(read("repe-derive/src/lib.rs"))
    arms = " ".join(fn_body(dsrc, "build_field_match_arms").split())
    i_n = arms.find("if field.attrs.nested {")
    if i_n < 0: raise ExtractError("derive: nested / plain field branches not found")
    j_n = match_brace(arms, arms.find("{", i_n))
    nested_branch = arms[i_n:j_n]
    m_else = re.match(r"\s*else\s*\{", arms[j_n:])
    if not m_else: raise ExtractError("derive: plain field branch not found")
    k = j_n + m_else.end() - 1
    leaf_branch = arms[k:match_brace(arms, k)]
    meth = " ".join(fn_body(dsrc, "build_method_match_arms").split())
    exp = " ".join(fn_body(dsrc, "expand_repe_struct").split())
    tails = lambda t: len(re.findall(r"\btail\b", t))
    ok = True
    # nested: "itself" iff `tail.is_empty()`, else forward `tail` unchanged – and nothing else looks at `tail`
    ok &= len(re.findall(r"if tail\.is_empty\(\) \{", nested_branch)) == 1 and tails(nested_branch) == 2
    ok &= re.search(r"repe_handle\(&mut self\.#ident, tail, body\)", nested_branch) is not None
    ok &= len(re.findall(r"repe_handle\(&mut self\.#ident, &\[\], None\)", nested_branch)) == 1
    # plain fields and methods: any further token is an error
    ok &= len(re.findall(r"if !tail\.is_empty\(\) \{ return Err\(#repe_path::StructError::InvalidSubpath", leaf_branch)) == 1 and tails(leaf_branch) == 1
    ok &= len(re.findall(r"if !tail\.is_empty\(\) \{ return Err\(#repe_path::StructError::InvalidSubpath", meth)) == 2 and tails(meth) == 2
    # the head is the first segment, looked up literally
    ok &= re.search(r"let \(head, tail\) = segments\.split_first\(\)\.unwrap\(\); match \*head \{", exp) is not None and tails(exp) == 1
    ok &= re.search(r"if segments\.is_empty\(\) \{", exp) is not None
    f["deriveTailTests"] = bool(ok)
    # ---- no timer / sleep / retry / deadline arm in the loops the property runs through
    TIMER = r"\bsleep\b|\bInstant\b|\belapsed\b|\binterval\b|\bretr(?:y|ies)\b|\battempts?\b|\bdeadline\b|\bDuration\b|\btimeout_at\b|\bnow\(\)|\bpark_timeout\b|\brecv_timeout\b|\bwait_timeout\b|\btry_recv\b|\byield_now\b"
    def quiet(body, allowed_timeouts):
        c = " ".join(body.split())
        if re.search(TIMER, c): return False
        ts = re.findall(r"\btimeout\(\s*(\w+)", c)
        bound = set(re.findall(r"if let Some\((\w+)\) = (?:read|write)_timeout", c))
        return len(ts) == allowed_timeouts and all(t in bound for t in ts)
    aconn = fn_body(asrc, "handle_connection")
    a_ok = quiet(aconn, 3) and len(re.findall(r"if let Some\(\w+\) = (?:read|write)_timeout", " ".join(aconn.split()))) == 2
    f["serveLoopsHaveNoExtraTimers"] = bool(quiet(srv_conn, 0) and a_ok and quiet(nx, 0) and quiet(fn_body(router, "get"), 0)
                                            and quiet(fn_body(src, "dispatch_struct_segments"), 0))
    # the trait default itself
    tr = impl_block(src, r"pub trait HandlerErased\s*:\s*Send \+ Sync\s*\{")
    if not re.fullmatch(r"\s*self\.handle_with_ctx\(&view\.to_message\(\), ctx\)\s*", fn_body(tr, "handle_view")): raise ExtractError("HandlerErased::handle_view default not recognised")
    if not re.fullmatch(r"\s*self\.handle\(req\)\s*", fn_body(tr, "handle_with_ctx")): raise ExtractError("HandlerErased::handle_with_ctx default not recognised")
    return f


def render(f):
    colls = lambda l: "[" + ", ".join("." + c for c in l) + "]"
    gate_s = lambda g: "[" + ", ".join(f"({c}, .{d})" for c, d in g) + "]"
    b = lambda x: "true" if x else "false"
    L = ["import RepeVerif.Model.Router",
         "/-! GENERATED by /verif/extract/router.py from /repo (src/server.rs, src/constants.rs). -/",
         "namespace Repe.Gen", "open Repe.Router",
         "def routerFacts : Facts :=",
         f"  {{ getOrder := {colls(f['getOrder'])},",
         f"    mwRebuilds := {colls(f['mwRebuilds'])},",
         f"    wraps := {colls(f['wraps'])},",
         f"    stackSegs := {f['stackSegs']} }}",
         "def handlerFacts : HandlerFacts :="]
    keys = ["jsonOwned", "jsonView", "typedOwned", "typedView", "sliceOwned", "sliceView", "sliceRefOwned", "sliceRefView"]
    L.append("  { " + ",\n    ".join(f"{k} := {gate_s(f[k])}" for k in keys) + ",")
    L.append(f"    pipelineExecForwards := {b(f['pipelineExecForwards'])},")
    L.append(f"    pipelineViewDefault := {b(f['pipelineViewDefault'])},")
    L.append(f"    offReaderViewDefault := {b(f['offReaderViewDefault'])},")
    L.append(f"    nextForwardsCtx := {b(f['nextForwardsCtx'])},")
    L.append(f"    structGate := {gate_s(f['structGate'])},")
    L.append(f"    structEmptyBodyIsRead := {b(f['structEmptyBodyIsRead'])},")
    L.append(f"    adapterGate := {gate_s(f['adapterGate'])},")
    L.append(f"    serversEchoViewQuery := {b(f['serversEchoViewQuery'])},")
    L.append(f"    deriveTailTests := {b(f['deriveTailTests'])},")
    L.append(f"    serveLoopsHaveNoExtraTimers := {b(f['serveLoopsHaveNoExtraTimers'])} }}")
    L.append("end Repe.Gen")
    return "\n".join(L) + "\n"


if __name__ == "__main__":
    import json
    f = extract()
    print(json.dumps(f, indent=1))
    print(render(f))
