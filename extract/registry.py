"""Facts for Gen/Registry.lean: the RegistryError -> ErrorCode table, the ErrorCode discriminants, the lock
regions of the Registry API (one acquisition per method; the two regions of the body-bearing dispatch and
whether the write-lock region re-checks the function map), and that serde_json's Map is sorted."""
import re, os
from rustlex import *

GEN_FILE = "Registry.lean"

SINGLE = ["set_root", "register_value", "merge_root", "merge_at", "register_function_arc", "read_value"]


def error_codes():
    consts = test_mod_cut(strip(read("src/constants.rs")))
    m = re.search(r"pub enum ErrorCode\s*\{", consts)
    if not m: raise ExtractError("enum ErrorCode")
    body = consts[m.end():match_brace(consts, m.end() - 1) - 1]
    codes = [(n, int(v.replace("_", ""), 0)) for n, v in re.findall(r"\b([A-Z]\w*)\s*=\s*(0x[0-9a-fA-F_]+|[0-9_]+)\s*,", body)]
    if not codes: raise ExtractError("ErrorCode discriminants")
    return codes


def variant_table(reg):
    imp = impl_block(reg, r"impl RegistryError\s*\{")
    body = fn_body(imp, "code")
    m = re.search(r"match self\s*\{", body)
    if not m: raise ExtractError("RegistryError::code: match self")
    arms = body[m.end():match_brace(body, m.end() - 1) - 1]
    table = []
    for lhs, rhs in re.findall(r"((?:\|?\s*RegistryError::\w+\s*(?:\{[^}]*\}|\([^)]*\))?\s*)+)=>\s*([^,]+),", arms):
        variants = re.findall(r"RegistryError::(\w+)", lhs)
        rhs = rhs.strip()
        mm = re.fullmatch(r"ErrorCode::(\w+)", rhs)
        if mm:
            for v in variants: table.append((v, mm.group(1)))
        elif rhs == "*code" and variants == ["Execution"]:
            pass  # carries its own code
        else:
            raise ExtractError(f"RegistryError::code: unrecognised arm `{lhs.strip()} => {rhs}`")
    need = {"InvalidPointer", "PathNotFound", "InvalidArrayIndex", "ArrayIndexOutOfBounds", "RootWriteRequiresObject"}
    if not need <= {v for v, _ in table}: raise ExtractError("RegistryError::code: variants missing")
    return table


def lock_facts(reg):
    imp = impl_block(reg, r"impl Registry\s*\{")
    acq = re.compile(r"self\.(read_state|write_state)\(\)")
    single = []
    for fn in SINGLE:
        b = fn_body(imp, fn)
        sts = statements(b)
        n = len(acq.findall(b))
        first = bool(sts) and re.fullmatch(r"let (mut )?state = self\.(read_state|write_state)\(\);", sts[0]) is not None
        # the guard must live to the end of the body: no explicit drop, no inner block holding it
        single.append((fn, n == 1 and first and "drop(state)" not in b))
    d = fn_body(imp, "dispatch_with_ctx")
    # region 0: the read request
    m = re.search(r"if body\.is_none\(\)\s*\{", d)
    if not m: raise ExtractError("dispatch_with_ctx: `if body.is_none()` block")
    rd = d[m.end():match_brace(d, m.end() - 1) - 1]
    rd_sts = statements(rd)
    read_single = len(acq.findall(rd)) == 1 and rd_sts[0] == "let state = self.read_state();" and "return" in rd_sts[-1]
    rest = d[match_brace(d, m.end() - 1):]
    # region 1: `let function = { let state = self.read_state(); state.functions.get(key.as_ref()).cloned() };`
    m1 = re.search(r"let function\s*=\s*\{", rest)
    if not m1: raise ExtractError("dispatch_with_ctx: `let function = { … }` lookup block")
    e1 = match_brace(rest, m1.end() - 1)
    blk = " ".join(rest[m1.end():e1 - 1].split())
    if not re.fullmatch(r"let state = self\.read_state\(\); state\.functions\.get\(key\.as_ref\(\)\)\.cloned\(\)", blk):
        raise ExtractError(f"dispatch_with_ctx: lookup block not recognised: `{blk}`")
    after = rest[e1:]
    m2 = re.search(r"if let Some\(f\) = function\s*\{", after)
    w = after.find("self.write_state()")
    if not m2 or w < 0 or m2.start() > w: raise ExtractError("dispatch_with_ctx: call branch / write_state order")
    call_blk = after[m2.end():match_brace(after, m2.end() - 1) - 1]
    if "f.call(" not in call_blk.replace(" ", "").replace("\n", "").replace(".call(", ".call(") and ".call(" not in call_blk:
        raise ExtractError("dispatch_with_ctx: call branch does not call")
    if len(acq.findall(after)) != 1: raise ExtractError("dispatch_with_ctx: more than one lock acquisition after the lookup")
    wr = after[w:]
    mut = min([i for i in (wr.find("set_pointer("), wr.find("ensure_object_root(")) if i >= 0], default=-1)
    if mut < 0: raise ExtractError("dispatch_with_ctx: no mutation after write_state")
    head = wr[:mut]
    recheck = re.search(r"state\s*\.\s*functions\s*\.\s*(get|contains_key)\(\s*key\.as_ref\(\)\s*\)", head) is not None
    if recheck and ".call(" not in wr:
        raise ExtractError("dispatch_with_ctx: function map re-read under the write lock but no call follows")
    return single, read_single, recheck


def map_sorted():
    lock = read("Cargo.lock")
    m = re.search(r'\[\[package\]\]\s*name = "serde_json"\s*version = "[^"]+"(.*?)(?=\[\[package\]\]|\Z)', lock, re.S)
    if not m: raise ExtractError("Cargo.lock: serde_json")
    toml = read("Cargo.toml")
    return '"indexmap"' not in m.group(1) and "preserve_order" not in toml


def extract():
    reg = test_mod_cut(strip(read("src/registry.rs")))
    single, read_single, recheck = lock_facts(reg)
    return {"errorCodes": error_codes(), "registryErrorCode": variant_table(reg), "singleSection": single,
            "readDispatchSingleSection": read_single, "lookupThenWriteLock": True,
            "recheckUnderWriteLock": recheck, "mapSorted": map_sorted()}


def lb(b): return "true" if b else "false"


def render(f):
    L = ["import RepeVerif.Model.Registry",
         "/-! GENERATED by /verif/extract/registry.py from /repo (src/registry.rs, src/constants.rs, Cargo.lock). -/",
         "namespace Repe.Gen.Registry",
         "/-- `ErrorCode` discriminants (constants.rs) -/",
         "def errorCodes : List (String × Nat) := [" + ", ".join(f'("{n}", {v})' for n, v in f["errorCodes"]) + "]",
         "/-- arms of `RegistryError::code` (variant ↦ ErrorCode) -/",
         "def registryErrorCode : List (String × String) := [" + ", ".join(f'("{a}", "{b}")' for a, b in f["registryErrorCode"]) + "]",
         "/-- per public method: exactly one lock acquisition, first statement, guard held to the end -/",
         "def singleSection : List (String × Bool) := [" + ", ".join(f'("{a}", {lb(b)})' for a, b in f["singleSection"]) + "]",
         f"def readDispatchSingleSection : Bool := {lb(f['readDispatchSingleSection'])}",
         "/-- body-bearing dispatch: function map read in its own read-lock block, then the write lock -/",
         f"def lookupThenWriteLock : Bool := {lb(f['lookupThenWriteLock'])}",
         "/-- the write-lock region looks the function map up again before mutating -/",
         f"def recheckUnderWriteLock : Bool := {lb(f['recheckUnderWriteLock'])}",
         "/-- serde_json is built without `preserve_order`: `Map` is a `BTreeMap` -/",
         f"def mapSorted : Bool := {lb(f['mapSorted'])}",
         "end Repe.Gen.Registry"]
    return "\n".join(L) + "\n"


if __name__ == "__main__":
    import json, sys
    f = extract()
    if "--write-default" in sys.argv:
        here = os.path.dirname(os.path.abspath(__file__))
        open(os.path.join(here, "defaults", GEN_FILE), "w").write(render(f))
    print(json.dumps(f, indent=1))
    print(render(f))
