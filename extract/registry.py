"""Facts for Gen/Registry.lean: the RegistryError -> ErrorCode table, the ErrorCode discriminants, the lock
regions of the Registry API (one acquisition per method; the two regions of the body-bearing dispatch and
whether the write-lock region re-checks the function map), and that serde_json's Map is sorted."""
import re, os
from rustlex import *

GEN_FILE = "Registry.lean"

SINGLE = ["set_root", "register_value", "merge_root", "merge_at", "register_function_arc", "read_value"]


def error_codes():
    consts = test_mod_cut(strip(read("src/constants.rs")))
    m = re.search(r"pub enum ErrorCode\s*\{", consts)
    if not m: raise ExtractError("enum ErrorCode")
    body = consts[m.end():match_brace(consts, m.end() - 1) - 1]
    codes = [(n, int(v.replace("_", ""), 0)) for n, v in re.findall(r"\b([A-Z]\w*)\s*=\s*(0x[0-9a-fA-F_]+|[0-9_]+)\s*,", body)]
    if not codes: raise ExtractError("ErrorCode discriminants")
    return codes


def variant_table(reg):
    imp = impl_block(reg, r"impl RegistryError\s*\{")
    body = fn_body(imp, "code")
    m = re.search(r"match self\s*\{", body)
    if not m: raise ExtractError("RegistryError::code: match self")
    arms = body[m.end():match_brace(body, m.end() - 1) - 1]
    table = []
    for lhs, rhs in re.findall(r"((?:\|?\s*RegistryError::\w+\s*(?:\{[^}]*\}|\([^)]*\))?\s*)+)=>\s*([^,]+),", arms):
        variants = re.findall(r"RegistryError::(\w+)", lhs)
        rhs = rhs.strip()
        mm = re.fullmatch(r"ErrorCode::(\w+)", rhs)
        if mm:
            for v in variants: table.append((v, mm.group(1)))
        elif rhs == "*code" and variants == ["Execution"]:
            pass  # carries its own code
        else:
            raise ExtractError(f"RegistryError::code: unrecognised arm `{lhs.strip()} => {rhs}`")
    need = {"InvalidPointer", "PathNotFound", "InvalidArrayIndex", "ArrayIndexOutOfBounds", "RootWriteRequiresObject"}
    if not need <= {v for v, _ in table}: raise ExtractError("RegistryError::code: variants missing")
    return table


ACQ = re.compile(r"self\.(read_state|write_state)\(\)")
LET_GUARD = re.compile(r"let\s+(?:mut\s+)?(\w+)\s*=\s*self\.(read_state|write_state)\(\)\s*;")


def enclosing_block_end(text, pos):
    """Index just past the '}' closing the innermost block that contains pos (len(text) at top level)."""
    depth = 0
    for j in range(pos, len(text)):
        if text[j] == "{": depth += 1
        elif text[j] == "}":
            if depth == 0: return j + 1
            depth -= 1
    return len(text)


def guards(text):
    """let-bound lock guards: (var, kind, position after the statement, end of scope)."""
    return [(m.group(1), m.group(2), m.end(), enclosing_block_end(text, m.end())) for m in LET_GUARD.finditer(text)]


def one_section(body):
    """Exactly one acquisition, bound by `let` in the outermost block of `body`, never dropped early."""
    gs = guards(body)
    if not (len(ACQ.findall(body)) == 1 and len(gs) == 1 and gs[0][3] == len(body)): return False
    # an early release is harmless only as the end of the section: nothing after it touches the state
    m = re.search(r"drop\(\s*" + gs[0][0] + r"\s*\)\s*;", body)
    return m is None or re.search(r"\b" + gs[0][0] + r"\b|self\.state", body[m.end():]) is None


def call_outside_lock(d):
    """No `.call(` is reached while a guard is alive (a let-bound guard in scope and not dropped, or a
    temporary guard in the same statement)."""
    for m in re.finditer(r"\.call\(", d):
        c = m.start()
        for var, _, pos, end in guards(d):
            if pos <= c < end and re.search(r"drop\(\s*" + var + r"\s*\)", d[pos:c]) is None:
                return False
        # temporary guard: `self.read_state().…` with the call before the statement ends
        for t in ACQ.finditer(d):
            if LET_GUARD.search(d[max(0, t.start() - 40):t.end() + 2]): continue
            semi = d.find(";", t.end())
            if t.end() <= c < (semi if semi >= 0 else len(d)): return False
    return True


def lock_facts(reg):
    imp = impl_block(reg, r"impl Registry\s*\{")
    single = [(fn, one_section(fn_body(imp, fn))) for fn in SINGLE]
    d = fn_body(imp, "dispatch_with_ctx")
    # region 0: the read request
    m = re.search(r"if body\.is_none\(\)\s*\{", d)
    if not m: raise ExtractError("dispatch_with_ctx: `if body.is_none()` block")
    rd = d[m.end():match_brace(d, m.end() - 1) - 1]
    rd_sts = statements(rd)
    read_single = one_section(rd) and bool(rd_sts) and "return" in rd_sts[-1]
    rest = d[match_brace(d, m.end() - 1):]
    # region 1: the function-map lookup is the first acquisition (a read lock), region 2 a later write lock
    acqs = list(ACQ.finditer(rest))
    if len(acqs) < 2 or acqs[0].group(1) != "read_state": raise ExtractError("dispatch_with_ctx: lookup (read lock) then write lock not recognised")
    w = next((a.start() for a in acqs[1:] if a.group(1) == "write_state"), -1)
    if w < 0: raise ExtractError("dispatch_with_ctx: no write lock after the lookup")
    if not re.search(r"functions\s*\.\s*(get|contains_key)\(", rest[:w]): raise ExtractError("dispatch_with_ctx: no function-map lookup before the write lock")
    if ".call(" not in rest: raise ExtractError("dispatch_with_ctx: no call")
    after = rest[acqs[1].start():]
    wr = rest[w:]
    mut = min([i for i in (wr.find("set_pointer("), wr.find("ensure_object_root(")) if i >= 0], default=-1)
    if mut < 0: raise ExtractError("dispatch_with_ctx: no mutation after write_state")
    gw = LET_GUARD.search(rest[max(0, w - 40):w + 30])
    wvar = gw.group(1) if gw else "state"
    recheck = re.search(wvar + r"\s*\.\s*functions\s*\.\s*(get|contains_key)\(\s*key\.as_ref\(\)\s*\)", wr[:mut]) is not None
    if recheck and ".call(" not in wr:
        raise ExtractError("dispatch_with_ctx: function map re-read under the write lock but no call follows")
    # dangerous forms are FACTS, not extraction failures: further acquisitions after the lookup, an early release other
    # than the one before calling a callable found by the re-check, a call made while a guard is alive
    n_drops = len(re.findall(r"drop\(\s*" + wvar + r"\s*\)", after))
    write_single = len(ACQ.findall(after)) == 1 and n_drops <= (1 if recheck else 0)
    return single, read_single, recheck, write_single, call_outside_lock(d)


def poison_recovered(reg):
    """`read_state`/`write_state` take the guard out of a poisoned lock (a panic while a guard was alive – e.g. in the
    Drop of a replaced callable – must not wedge the registry).  unwrap/expect/`?` on the lock result = False."""
    imp = impl_block(reg, r"impl Registry\s*\{")
    ok = True
    for fn, meth in (("read_state", "read"), ("write_state", "write")):
        b = " ".join(fn_body(imp, fn).split())
        if ("self.state." + meth + "()") not in b: raise ExtractError(f"{fn}: lock call not found")
        recovers = "into_inner()" in b
        dangerous = re.search(r"self\.state\." + meth + r"\(\)\s*\.\s*(unwrap\(\)|expect\()", b) is not None
        ok = ok and recovers and not dangerous
    return ok


def no_timers(reg):
    """registry.rs has no timer, sleep, timeout, retry or non-blocking lock attempt today; any of them appearing inside the
    code the property depends on is a pessimistic fact."""
    return re.search(r"\b(sleep|timeout|Instant|Duration|try_read|try_write|try_lock|park|yield_now|recv_timeout|wait_timeout)\b", reg) is None


def map_sorted():
    lock = read("Cargo.lock")
    m = re.search(r'\[\[package\]\]\s*name = "serde_json"\s*version = "[^"]+"(.*?)(?=\[\[package\]\]|\Z)', lock, re.S)
    if not m: raise ExtractError("Cargo.lock: serde_json")
    toml = read("Cargo.toml")
    return '"indexmap"' not in m.group(1) and "preserve_order" not in toml


def body_formats():
    consts = test_mod_cut(strip(read("src/constants.rs")))
    m = re.search(r"pub enum BodyFormat\s*\{", consts)
    if not m: raise ExtractError("enum BodyFormat")
    body = consts[m.end():match_brace(consts, m.end() - 1) - 1]
    fm = [(n, int(v)) for n, v in re.findall(r"\b([A-Z]\w*)\s*=\s*([0-9]+)\s*,", body)]
    if not fm: raise ExtractError("BodyFormat discriminants")
    return fm


def shape_facts(reg):
    """Boolean shape facts; a form that is not recognised gives the pessimistic value False."""
    f = {}
    sq = r"' '"  # a char literal after strip()
    slash_guard = r"if !pointer\.starts_with\(" + sq + r"\)\s*\{\s*return Err\(RegistryError::InvalidPointer"
    try:
        f["parsePointerRequiresSlash"] = re.search(slash_guard, fn_body(reg, "parse_pointer")) is not None
        f["canonicalKeyRequiresSlash"] = re.search(slash_guard, fn_body(reg, "canonical_key")) is not None
    except ExtractError:
        f["parsePointerRequiresSlash"] = f["canonicalKeyRequiresSlash"] = False
    try:
        imp = impl_block(reg, r"impl Registry\s*\{")
        d = fn_body(imp, "dispatch_with_ctx")
        m = re.search(r"if segments\.is_empty\(\)\s*\{", d)
        blk = d[m.end():match_brace(d, m.end() - 1) - 1]
        a, b = blk.find("let Value::Object(object) = payload else"), blk.find("ensure_object_root(")
        f["rootWriteChecksBodyFirst"] = 0 <= a < b and "RootWriteRequiresObject" in blk[a:b]
        db = statements(fn_body(imp, "decode_body"))
        f["decodeEmptyBodyFirst"] = bool(db) and " ".join(db[0].split()).startswith("if req.body.is_empty() { return Ok(None);")
    except Exception:
        f.setdefault("rootWriteChecksBodyFirst", False); f.setdefault("decodeEmptyBodyFirst", False)
    try:
        srv = test_mod_cut(strip(read("src/server.rs")))
        rr = impl_block(srv, r"impl RegisteredRegistry\s*\{")
        pf = " ".join(fn_body(rr, "pointer_for").split())
        f["pointerForStripsOnce"] = ("path.strip_prefix(&self.prefix)?" in pf and "trim_start_matches" not in pf
                                     and "if rest.starts_with(" + sq + ") { Some(rest) } else { None }" in pf)
        he = impl_block(srv, r"impl HandlerErased for RegisteredRegistry\s*\{")
        ok = True
        for fn in ("handle", "handle_with_ctx"):
            b = fn_body(he, fn)
            pos = [b.find("self.pointer_for("), b.find("Registry::decode_body("), b.find("self.registry.dispatch")]
            ok = ok and -1 not in pos and pos == sorted(pos) and b.count("self.registry.dispatch") == 1
        f["handleOrder"] = ok
    except Exception:
        f.setdefault("pointerForStripsOnce", False); f.setdefault("handleOrder", False)
    return f


def extract():
    reg = test_mod_cut(strip(read("src/registry.rs")))
    single, read_single, recheck, write_single, call_outside = lock_facts(reg)
    shape = shape_facts(reg)
    return {"bodyFormats": body_formats(), "shape": shape, "errorCodes": error_codes(), "registryErrorCode": variant_table(reg), "singleSection": single,
            "readDispatchSingleSection": read_single, "lookupThenWriteLock": True, "writeSectionSingle": write_single, "callOutsideLock": call_outside, "poisonRecovered": poison_recovered(reg), "noTimers": no_timers(reg),
            "recheckUnderWriteLock": recheck, "mapSorted": map_sorted()}


def lb(b): return "true" if b else "false"


def render(f):
    L = ["import RepeVerif.Model.Registry",
         "/-! GENERATED by /verif/extract/registry.py from /repo (src/registry.rs, src/constants.rs, Cargo.lock). -/",
         "namespace Repe.Gen.Registry",
         "/-- `ErrorCode` discriminants (constants.rs) -/",
         "def errorCodes : List (String × Nat) := [" + ", ".join(f'("{n}", {v})' for n, v in f["errorCodes"]) + "]",
         "/-- arms of `RegistryError::code` (variant ↦ ErrorCode) -/",
         "def registryErrorCode : List (String × String) := [" + ", ".join(f'("{a}", "{b}")' for a, b in f["registryErrorCode"]) + "]",
         "/-- per public method: exactly one lock acquisition, first statement, guard held to the end -/",
         "def singleSection : List (String × Bool) := [" + ", ".join(f'("{a}", {lb(b)})' for a, b in f["singleSection"]) + "]",
         f"def readDispatchSingleSection : Bool := {lb(f['readDispatchSingleSection'])}",
         "/-- body-bearing dispatch: function map read in its own read-lock block, then the write lock -/",
         f"def lookupThenWriteLock : Bool := {lb(f['lookupThenWriteLock'])}",
         "/-- after the lookup the write lock is taken exactly once and held over the whole mutation -/",
         f"def writeSectionSingle : Bool := {lb(f['writeSectionSingle'])}",
         "/-- no callable is invoked while a lock guard is alive -/",
         f"def callOutsideLock : Bool := {lb(f['callOutsideLock'])}",
         "/-- no sleep / timeout / Instant / try_lock / retry arm anywhere in registry.rs -/",
         f"def noTimers : Bool := {lb(f['noTimers'])}",
         "/-- read_state / write_state recover the guard from a poisoned lock -/",
         f"def poisonRecovered : Bool := {lb(f['poisonRecovered'])}",
         "/-- the write-lock region looks the function map up again before mutating -/",
         f"def recheckUnderWriteLock : Bool := {lb(f['recheckUnderWriteLock'])}",
         "/-- serde_json is built without `preserve_order`: `Map` is a `BTreeMap` -/",
         f"def mapSorted : Bool := {lb(f['mapSorted'])}",
         "/-- `BodyFormat` discriminants (constants.rs) -/",
         "def bodyFormats : List (String × Nat) := [" + ", ".join(f'("{n}", {v})' for n, v in f["bodyFormats"]) + "]",
         "/-- shape facts (unrecognised form = false): leading-slash guards, body check before `ensure_object_root` in the",
         "root write, empty body first in `decode_body`, `pointer_for` strips the prefix once at a '/' boundary,",
         "`handle`/`handle_with_ctx` = pointer_for, decode_body, one dispatch -/"]
    for k in ("parsePointerRequiresSlash", "canonicalKeyRequiresSlash", "rootWriteChecksBodyFirst", "decodeEmptyBodyFirst",
              "pointerForStripsOnce", "handleOrder"):
        L.append(f"def {k} : Bool := {lb(f['shape'][k])}")
    L += ["end Repe.Gen.Registry"]
    return "\n".join(L) + "\n"


if __name__ == "__main__":
    import json, sys
    f = extract()
    if "--write-default" in sys.argv:
        here = os.path.dirname(os.path.abspath(__file__))
        open(os.path.join(here, "defaults", GEN_FILE), "w").write(render(f))
    print(json.dumps(f, indent=1))
    print(render(f))
