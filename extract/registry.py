"""Facts for Gen/Registry.lean: the RegistryError -> ErrorCode table, the ErrorCode discriminants, the lock
regions of the Registry API (one acquisition per method; the two regions of the body-bearing dispatch and
whether the write-lock region re-checks the function map), and that serde_json's Map is sorted."""
import re, os
from rustlex import *

GEN_FILE = "Registry.lean"

SINGLE = ["set_root", "register_value", "merge_root", "merge_at", "register_function_arc", "read_value"]


def error_codes():
    consts = test_mod_cut(strip(read("src/constants.rs")))
    m = re.search(r"pub enum ErrorCode\s*\{", consts)
    if not m: raise ExtractError("enum ErrorCode")
    body = consts[m.end():match_brace(consts, m.end() - 1) - 1]
    codes = [(n, int(v.replace("_", ""), 0)) for n, v in re.findall(r"\b([A-Z]\w*)\s*=\s*(0x[0-9a-fA-F_]+|[0-9_]+)\s*,", body)]
    if not codes: raise ExtractError("ErrorCode discriminants")
    return codes


def variant_table(reg):
    imp = impl_block(reg, r"impl RegistryError\s*\{")
    body = fn_body(imp, "code")
    m = re.search(r"match self\s*\{", body)
    if not m: raise ExtractError("RegistryError::code: match self")
    arms = body[m.end():match_brace(body, m.end() - 1) - 1]
    table = []
    for lhs, rhs in re.findall(r"((?:\|?\s*RegistryError::\w+\s*(?:\{[^}]*\}|\([^)]*\))?\s*)+)=>\s*([^,]+),", arms):
        variants = re.findall(r"RegistryError::(\w+)", lhs)
        rhs = rhs.strip()
        mm = re.fullmatch(r"ErrorCode::(\w+)", rhs)
        if mm:
            for v in variants: table.append((v, mm.group(1)))
        elif rhs == "*code" and variants == ["Execution"]:
            pass  # carries its own code
        else:
            raise ExtractError(f"RegistryError::code: unrecognised arm `{lhs.strip()} => {rhs}`")
    need = {"InvalidPointer", "PathNotFound", "InvalidArrayIndex", "ArrayIndexOutOfBounds", "RootWriteRequiresObject"}
    if not need <= {v for v, _ in table}: raise ExtractError("RegistryError::code: variants missing")
    return table


def lock_facts(reg):
    imp = impl_block(reg, r"impl Registry\s*\{")
    acq = re.compile(r"self\.(read_state|write_state)\(\)")
    single = []
    for fn in SINGLE:
        b = fn_body(imp, fn)
        sts = statements(b)
        n = len(acq.findall(b))
        first = bool(sts) and re.fullmatch(r"let (mut )?state = self\.(read_state|write_state)\(\);", sts[0]) is not None
        # the guard must live to the end of the body: no explicit drop, no inner block holding it
        single.append((fn, n == 1 and first and "drop(state)" not in b))
    d = fn_body(imp, "dispatch_with_ctx")
    # region 0: the read request
    m = re.search(r"if body\.is_none\(\)\s*\{", d)
    if not m: raise ExtractError("dispatch_with_ctx: `if body.is_none()` block")
    rd = d[m.end():match_brace(d, m.end() - 1) - 1]
    rd_sts = statements(rd)
    read_single = len(acq.findall(rd)) == 1 and rd_sts[0] == "let state = self.read_state();" and "return" in rd_sts[-1]
    rest = d[match_brace(d, m.end() - 1):]
    # region 1: `let function = { let state = self.read_state(); state.functions.get(key.as_ref()).cloned() };`
    m1 = re.search(r"let function\s*=\s*\{", rest)
    if not m1: raise ExtractError("dispatch_with_ctx: `let function = { … }` lookup block")
    e1 = match_brace(rest, m1.end() - 1)
    blk = " ".join(rest[m1.end():e1 - 1].split())
    if not re.fullmatch(r"let state = self\.read_state\(\); state\.functions\.get\(key\.as_ref\(\)\)\.cloned\(\)", blk):
        raise ExtractError(f"dispatch_with_ctx: lookup block not recognised: `{blk}`")
    after = rest[e1:]
    m2 = re.search(r"if let Some\(f\) = function\s*\{", after)
    w = after.find("self.write_state()")
    if not m2 or w < 0 or m2.start() > w: raise ExtractError("dispatch_with_ctx: call branch / write_state order")
    call_blk = after[m2.end():match_brace(after, m2.end() - 1) - 1]
    if "f.call(" not in call_blk.replace(" ", "").replace("\n", "").replace(".call(", ".call(") and ".call(" not in call_blk:
        raise ExtractError("dispatch_with_ctx: call branch does not call")
    # dangerous form, not an extraction failure: more lock acquisitions after the lookup = the write is not one section
    n_acq_after = len(acq.findall(after))
    wr = after[w:]
    mut = min([i for i in (wr.find("set_pointer("), wr.find("ensure_object_root(")) if i >= 0], default=-1)
    if mut < 0: raise ExtractError("dispatch_with_ctx: no mutation after write_state")
    head = wr[:mut]
    recheck = re.search(r"state\s*\.\s*functions\s*\.\s*(get|contains_key)\(\s*key\.as_ref\(\)\s*\)", head) is not None
    if recheck and ".call(" not in wr:
        raise ExtractError("dispatch_with_ctx: function map re-read under the write lock but no call follows")
    # the only legitimate early release is the one before calling a callable found by the re-check
    write_single = n_acq_after == 1 and after.count("drop(state)") <= (1 if recheck else 0)
    return single, read_single, recheck, write_single


def map_sorted():
    lock = read("Cargo.lock")
    m = re.search(r'\[\[package\]\]\s*name = "serde_json"\s*version = "[^"]+"(.*?)(?=\[\[package\]\]|\Z)', lock, re.S)
    if not m: raise ExtractError("Cargo.lock: serde_json")
    toml = read("Cargo.toml")
    return '"indexmap"' not in m.group(1) and "preserve_order" not in toml


def body_formats():
    consts = test_mod_cut(strip(read("src/constants.rs")))
    m = re.search(r"pub enum BodyFormat\s*\{", consts)
    if not m: raise ExtractError("enum BodyFormat")
    body = consts[m.end():match_brace(consts, m.end() - 1) - 1]
    fm = [(n, int(v)) for n, v in re.findall(r"\b([A-Z]\w*)\s*=\s*([0-9]+)\s*,", body)]
    if not fm: raise ExtractError("BodyFormat discriminants")
    return fm


def shape_facts(reg):
    """Boolean shape facts; a form that is not recognised gives the pessimistic value False."""
    f = {}
    sq = r"' '"  # a char literal after strip()
    slash_guard = r"if !pointer\.starts_with\(" + sq + r"\)\s*\{\s*return Err\(RegistryError::InvalidPointer"
    try:
        f["parsePointerRequiresSlash"] = re.search(slash_guard, fn_body(reg, "parse_pointer")) is not None
        f["canonicalKeyRequiresSlash"] = re.search(slash_guard, fn_body(reg, "canonical_key")) is not None
    except ExtractError:
        f["parsePointerRequiresSlash"] = f["canonicalKeyRequiresSlash"] = False
    try:
        imp = impl_block(reg, r"impl Registry\s*\{")
        d = fn_body(imp, "dispatch_with_ctx")
        m = re.search(r"if segments\.is_empty\(\)\s*\{", d)
        blk = d[m.end():match_brace(d, m.end() - 1) - 1]
        a, b = blk.find("let Value::Object(object) = payload else"), blk.find("ensure_object_root(")
        f["rootWriteChecksBodyFirst"] = 0 <= a < b and "RootWriteRequiresObject" in blk[a:b]
        db = statements(fn_body(imp, "decode_body"))
        f["decodeEmptyBodyFirst"] = bool(db) and " ".join(db[0].split()).startswith("if req.body.is_empty() { return Ok(None);")
    except Exception:
        f.setdefault("rootWriteChecksBodyFirst", False); f.setdefault("decodeEmptyBodyFirst", False)
    try:
        srv = test_mod_cut(strip(read("src/server.rs")))
        rr = impl_block(srv, r"impl RegisteredRegistry\s*\{")
        pf = " ".join(fn_body(rr, "pointer_for").split())
        f["pointerForStripsOnce"] = ("path.strip_prefix(&self.prefix)?" in pf and "trim_start_matches" not in pf
                                     and "if rest.starts_with(" + sq + ") { Some(rest) } else { None }" in pf)
        he = impl_block(srv, r"impl HandlerErased for RegisteredRegistry\s*\{")
        ok = True
        for fn in ("handle", "handle_with_ctx"):
            b = fn_body(he, fn)
            pos = [b.find("self.pointer_for("), b.find("Registry::decode_body("), b.find("self.registry.dispatch")]
            ok = ok and -1 not in pos and pos == sorted(pos) and b.count("self.registry.dispatch") == 1
        f["handleOrder"] = ok
    except Exception:
        f.setdefault("pointerForStripsOnce", False); f.setdefault("handleOrder", False)
    return f


def extract():
    reg = test_mod_cut(strip(read("src/registry.rs")))
    single, read_single, recheck, write_single = lock_facts(reg)
    shape = shape_facts(reg)
    return {"bodyFormats": body_formats(), "shape": shape, "errorCodes": error_codes(), "registryErrorCode": variant_table(reg), "singleSection": single,
            "readDispatchSingleSection": read_single, "lookupThenWriteLock": True, "writeSectionSingle": write_single,
            "recheckUnderWriteLock": recheck, "mapSorted": map_sorted()}


def lb(b): return "true" if b else "false"


def render(f):
    L = ["import RepeVerif.Model.Registry",
         "/-! GENERATED by /verif/extract/registry.py from /repo (src/registry.rs, src/constants.rs, Cargo.lock). -/",
         "namespace Repe.Gen.Registry",
         "/-- `ErrorCode` discriminants (constants.rs) -/",
         "def errorCodes : List (String × Nat) := [" + ", ".join(f'("{n}", {v})' for n, v in f["errorCodes"]) + "]",
         "/-- arms of `RegistryError::code` (variant ↦ ErrorCode) -/",
         "def registryErrorCode : List (String × String) := [" + ", ".join(f'("{a}", "{b}")' for a, b in f["registryErrorCode"]) + "]",
         "/-- per public method: exactly one lock acquisition, first statement, guard held to the end -/",
         "def singleSection : List (String × Bool) := [" + ", ".join(f'("{a}", {lb(b)})' for a, b in f["singleSection"]) + "]",
         f"def readDispatchSingleSection : Bool := {lb(f['readDispatchSingleSection'])}",
         "/-- body-bearing dispatch: function map read in its own read-lock block, then the write lock -/",
         f"def lookupThenWriteLock : Bool := {lb(f['lookupThenWriteLock'])}",
         "/-- after the lookup the write lock is taken exactly once and held over the whole mutation -/",
         f"def writeSectionSingle : Bool := {lb(f['writeSectionSingle'])}",
         "/-- the write-lock region looks the function map up again before mutating -/",
         f"def recheckUnderWriteLock : Bool := {lb(f['recheckUnderWriteLock'])}",
         "/-- serde_json is built without `preserve_order`: `Map` is a `BTreeMap` -/",
         f"def mapSorted : Bool := {lb(f['mapSorted'])}",
         "/-- `BodyFormat` discriminants (constants.rs) -/",
         "def bodyFormats : List (String × Nat) := [" + ", ".join(f'("{n}", {v})' for n, v in f["bodyFormats"]) + "]",
         "/-- shape facts (unrecognised form = false): leading-slash guards, body check before `ensure_object_root` in the",
         "root write, empty body first in `decode_body`, `pointer_for` strips the prefix once at a '/' boundary,",
         "`handle`/`handle_with_ctx` = pointer_for, decode_body, one dispatch -/"]
    for k in ("parsePointerRequiresSlash", "canonicalKeyRequiresSlash", "rootWriteChecksBodyFirst", "decodeEmptyBodyFirst",
              "pointerForStripsOnce", "handleOrder"):
        L.append(f"def {k} : Bool := {lb(f['shape'][k])}")
    L += ["end Repe.Gen.Registry"]
    return "\n".join(L) + "\n"


if __name__ == "__main__":
    import json, sys
    f = extract()
    if "--write-default" in sys.argv:
        here = os.path.dirname(os.path.abspath(__file__))
        open(os.path.join(here, "defaults", GEN_FILE), "w").write(render(f))
    print(json.dumps(f, indent=1))
    print(render(f))
