"""Facts for Gen/Wire.lean: header layout tables, constants, sum forms, allocation forms."""
import re
from rustlex import *

GEN_FILE = "Wire.lean"

FIELD = {"length": "length", "spec": "spec", "version": "version", "notify": "notify", "reserved": "reserved",
         "id": "id", "query_length": "queryLength", "body_length": "bodyLength", "query_format": "queryFormat",
         "body_format": "bodyFormat", "ec": "ec"}


def extract():
    facts, where = {}, {}
    consts = strip(read("src/constants.rs"))
    def const(name):
        m = re.search(r"pub const " + name + r"\s*:\s*\w+\s*=\s*(0x[0-9a-fA-F_]+|\d+)\s*;", consts)
        if not m: raise ExtractError(f"const {name}")
        return int(m.group(1).replace("_", ""), 0)
    facts["headerSize"], facts["repeSpec"], facts["repeVersion"] = const("HEADER_SIZE"), const("REPE_SPEC"), const("REPE_VERSION")

    hdr = test_mod_cut(strip(read("src/header.rs")))
    sm = re.search(r"pub struct Header\s*\{([^}]*)\}", hdr)
    if not sm: raise ExtractError("struct Header")
    types = dict(re.findall(r"pub (\w+)\s*:\s*(u\d+)", sm.group(1)))
    imp = impl_block(hdr, r"impl Header\s*\{")
    # ---- encode
    enc = []
    off = 0
    for st in statements(fn_body(imp, "encode")):
        m = re.fullmatch(r"buf\[o\.\.o \+ (\d+)\]\.copy_from_slice\(&self\.(\w+)\.to_le_bytes\(\)\);", st)
        m1 = re.fullmatch(r"buf\[o\] = self\.(\w+);", st)
        if m: enc.append((m.group(2), int(m.group(1))))
        elif m1: enc.append((m1.group(1), 1))
        elif re.fullmatch(r"o \+= (\d+);", st):
            if int(re.fullmatch(r"o \+= (\d+);", st).group(1)) != enc[-1][1]:
                raise ExtractError(f"encode: offset step {st} after {enc[-1]}")
        elif st in ("let mut buf = [0u8; HEADER_SIZE];", "let mut o = 0;", "buf"): pass
        else: raise ExtractError(f"encode: unrecognised statement `{st}`")
    # ---- decode
    dec, sumf = [], None
    body = fn_body(imp, "decode")
    for st in statements(body):
        m = re.fullmatch(r"let (\w+) = u(\d+)::from_le_bytes\(input\[o\.\.o \+ (\d+)\]\.try_into\(\)\.unwrap\(\)\);", st)
        m1 = re.fullmatch(r"let (\w+) = input\[o\];", st)
        if m:
            if int(m.group(2)) != 8 * int(m.group(3)): raise ExtractError(f"decode: width mismatch `{st}`")
            dec.append((m.group(1), int(m.group(3))))
        elif m1: dec.append((m1.group(1), 1))
    me = re.search(r"let expected\s*=([^;]*);", body)
    if not me: raise ExtractError("decode: `let expected = …` not found")
    sumf = sum_form(me.group(1))
    for lay, nm in ((enc, "encode"), (dec, "decode")):
        for f, w in lay:
            if f not in FIELD: raise ExtractError(f"{nm}: unknown field {f}")
            if f in types and int(types[f][1:]) != 8 * w: raise ExtractError(f"{nm}: field {f} is {types[f]} but {w} bytes are moved")
    # order of checks in decode: length test, spec test, sum test
    pos = [body.find("input.len() < HEADER_SIZE"), body.find("spec != REPE_SPEC"), body.find("let expected")]
    if -1 in pos or pos != sorted(pos): raise ExtractError("decode: check order (len, spec, sum) not recognised")
    facts["encodeLayout"], facts["decodeLayout"], facts["headerSumForm"] = enc, dec, sumf

    msg = test_mod_cut(strip(read("src/message.rs")))
    def expected_form(impl_re):
        b = fn_body(impl_block(msg, impl_re), "from_slice")
        m = re.search(r"let expected\s*=([^;]*);", b)
        if not m: raise ExtractError("from_slice: expected")
        return sum_form(m.group(1))
    facts["sliceSumForm"] = expected_form(r"impl Message\s*\{")
    facts["viewSumForm"] = expected_form(r"impl<'a> MessageView<'a>\s*\{")

    def reader(file, fn, into):
        src = test_mod_cut(strip(read(file)))
        b = fn_body(src, fn)
        io_src = test_mod_cut(strip(read("src/io.rs")))
        helpers, seen, frontier = "", {fn, "read_exact"}, [b]
        for _ in range(3):
            nxt = []
            for text in frontier:
                for h in set(re.findall(r"\b(?:crate::io::)?(\w+)\(", text)):
                    if h in seen or not re.search(r"\bfn\s+" + h + r"\b", io_src): continue
                    seen.add(h)
                    hb = fn_body(io_src, h)
                    helpers += hb; nxt.append(hb)
            frontier = nxt
        fallible = "try_reserve" in b or "try_reserve" in helpers
        infallible_direct = re.search(r"vec!\[0u8;\s*header\.", b) is not None
        if infallible_direct and not fallible: alloc = "infallible"
        elif fallible and not infallible_direct: alloc = "fallible"
        elif into and "resize(" in b and not fallible: alloc = "infallible"
        else: raise ExtractError(f"{fn}: allocation form not recognised")
        tform = None
        if into:
            m = re.search(r"let total\s*=([^;]*);", b)
            if not m: raise ExtractError(f"{fn}: total")
            tform = sum_form(m.group(1))
        return alloc, tform
    facts["readAlloc"], _ = reader("src/io.rs", "read_message", False)
    facts["readIntoAlloc"], facts["readIntoSumForm"] = reader("src/io.rs", "read_message_into", True)
    facts["asyncReadAlloc"], _ = reader("src/async_io.rs", "read_message_async", False)
    facts["asyncReadIntoAlloc"], facts["asyncReadIntoSumForm"] = reader("src/async_io.rs", "read_message_into_async", True)
    return facts


def render(f):
    lay = lambda l: "[" + ", ".join(f"(.{FIELD[n]}, {w})" for n, w in l) + "]"
    L = ["import RepeVerif.Model.Wire",
         "/-! GENERATED by /verif/extract/wire.py from /repo (src/header.rs, message.rs, io.rs, async_io.rs, constants.rs). -/",
         "namespace Repe.Gen",
         f"def encodeLayout : Layout := {lay(f['encodeLayout'])}",
         f"def decodeLayout : Layout := {lay(f['decodeLayout'])}",
         f"def headerSize : Nat := {f['headerSize']}",
         f"def repeSpec : Nat := {f['repeSpec']}",
         f"def repeVersion : Nat := {f['repeVersion']}"]
    for k in ("headerSumForm", "sliceSumForm", "viewSumForm", "readIntoSumForm", "asyncReadIntoSumForm"):
        L.append(f"def {k} : SumForm := .{f[k]}")
    for k in ("readAlloc", "readIntoAlloc", "asyncReadAlloc", "asyncReadIntoAlloc"):
        L.append(f"def {k} : AllocForm := .{f[k]}")
    L.append("end Repe.Gen")
    return "\n".join(L) + "\n"


if __name__ == "__main__":
    import json
    f = extract()
    print(json.dumps(f, indent=1))
    print(render(f))
