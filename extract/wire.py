"""Facts for Gen/Wire.lean: header layout tables, constants, sum forms, allocation forms."""
import re
from rustlex import *

GEN_FILE = "Wire.lean"

FIELD = {"length": "length", "spec": "spec", "version": "version", "notify": "notify", "reserved": "reserved",
         "id": "id", "query_length": "queryLength", "body_length": "bodyLength", "query_format": "queryFormat",
         "body_format": "bodyFormat", "ec": "ec"}


def sum_form_strict(expr):
    """Form of a sum of declared lengths.  Anything that can wrap silently or mixes forms is read as `unchecked`
    (the pessimistic form: it panics with overflow checks and wraps without)."""
    e = " ".join(expr.split())
    has_plus = re.search(r"[\w\)]\s\+\s[\w\(]", e) is not None
    if "wrapping_add" in e or "overflowing_add" in e or "unchecked_add" in e: return "unchecked"
    if "checked_add" in e and not has_plus and "saturating_add" not in e: return "checked"
    if "saturating_add" in e and not has_plus and "checked_add" not in e: return "saturating"
    if has_plus and "checked_add" not in e and "saturating_add" not in e: return "unchecked"
    if has_plus: return "unchecked"
    raise ExtractError(f"unrecognised sum form: {e}")


def extract():
    facts, where = {}, {}
    consts = strip(read("src/constants.rs"))
    def const(name):
        m = re.search(r"pub const " + name + r"\s*:\s*\w+\s*=\s*(0x[0-9a-fA-F_]+|\d+)\s*;", consts)
        if not m: raise ExtractError(f"const {name}")
        return int(m.group(1).replace("_", ""), 0)
    facts["headerSize"], facts["repeSpec"], facts["repeVersion"] = const("HEADER_SIZE"), const("REPE_SPEC"), const("REPE_VERSION")

    hdr = test_mod_cut(strip(read("src/header.rs")))
    sm = re.search(r"pub struct Header\s*\{([^}]*)\}", hdr)
    if not sm: raise ExtractError("struct Header")
    types = dict(re.findall(r"pub (\w+)\s*:\s*(u\d+)", sm.group(1)))
    imp = impl_block(hdr, r"impl Header\s*\{")
    # ---- encode
    enc = []
    off = 0
    for st in statements(fn_body(imp, "encode")):
        m = re.fullmatch(r"buf\[o\.\.o \+ (\d+)\]\.copy_from_slice\(&self\.(\w+)\.to_le_bytes\(\)\);", st)
        m1 = re.fullmatch(r"buf\[o\] = self\.(\w+);", st)
        if m: enc.append((m.group(2), int(m.group(1))))
        elif m1: enc.append((m1.group(1), 1))
        elif re.fullmatch(r"o \+= (\d+);", st):
            if int(re.fullmatch(r"o \+= (\d+);", st).group(1)) != enc[-1][1]:
                raise ExtractError(f"encode: offset step {st} after {enc[-1]}")
        elif st in ("let mut buf = [0u8; HEADER_SIZE];", "let mut o = 0;", "buf"): pass
        else:
            # a statement that moves a header field in a form not recognised (big-endian, masked, conditional …) is the
            # danger itself: record the field with width 0 so that the layout is not the specification's
            mf = re.search(r"self\.(\w+)", st)
            if mf and mf.group(1) in FIELD: enc.append((mf.group(1), 0))
            else: raise ExtractError(f"encode: unrecognised statement `{st}`")
    # ---- decode
    dec, sumf = [], None
    body = fn_body(imp, "decode")
    for st in statements(body):
        m = re.fullmatch(r"let (\w+) = u(\d+)::from_le_bytes\(input\[o\.\.o \+ (\d+)\]\.try_into\(\)\.unwrap\(\)\);", st)
        m1 = re.fullmatch(r"let (\w+) = input\[o\];", st)
        if m:
            if int(m.group(2)) != 8 * int(m.group(3)): raise ExtractError(f"decode: width mismatch `{st}`")
            dec.append((m.group(1), int(m.group(3))))
        elif m1: dec.append((m1.group(1), 1))
    me = re.search(r"let expected\s*=([^;]*);", body)
    if not me: raise ExtractError("decode: `let expected = …` not found")
    sumf = sum_form_strict(me.group(1))
    for lay, nm in ((enc, "encode"), (dec, "decode")):
        for f, w in lay:
            if f not in FIELD: raise ExtractError(f"{nm}: unknown field {f}")
            if f in types and int(types[f][1:]) != 8 * w: raise ExtractError(f"{nm}: field {f} is {types[f]} but {w} bytes are moved")
    # (the order and form of the checks in decode are the fact `decodeChecks`, see shapes())
    facts["encodeLayout"], facts["decodeLayout"], facts["headerSumForm"] = enc, dec, sumf

    msg = test_mod_cut(strip(read("src/message.rs")))
    def expected_form(impl_re):
        b = fn_body(impl_block(msg, impl_re), "from_slice")
        m = re.search(r"let expected\s*=([^;]*);", b)
        # located, but the total is computed in another way (a helper, signed arithmetic …): the sum form stays the
        # pessimistic `unchecked`, and shapes() reports the check it cannot recognise as `.unknown`
        if not m: return "unchecked"
        return sum_form_strict(m.group(1))
    facts["sliceSumForm"] = expected_form(r"impl Message\s*\{")
    facts["viewSumForm"] = expected_form(r"impl<'a> MessageView<'a>\s*\{")

    def reader(file, fn, into):
        src = test_mod_cut(strip(read(file)))
        b = fn_body(src, fn)
        io_src = test_mod_cut(strip(read("src/io.rs")))
        helpers, seen, frontier = "", {fn, "read_exact"}, [b]
        for _ in range(3):
            nxt = []
            for text in frontier:
                for h in set(re.findall(r"\b(?:crate::io::)?(\w+)\(", text)):
                    if h in seen or not re.search(r"\bfn\s+" + h + r"\b", io_src): continue
                    seen.add(h)
                    hb = fn_body(io_src, h)
                    helpers += hb; nxt.append(hb)
            frontier = nxt
        fallible = "try_reserve" in b or "try_reserve" in helpers
        # `vec![0; declared]`, `Vec::with_capacity(declared)`, `reserve(declared)` (infallible) anywhere in the reader
        infallible_direct = re.search(r"vec!\[\s*0u8\s*;\s*(?:header\.|total|\w*len)|with_capacity\(\s*(?:header\.|total)|\.reserve(?:_exact)?\(", b) is not None
        # the fallible reservation must cover every declared-length buffer: the owned readers make two
        n_alloc = len(re.findall(r"zeroed_vec\(|reserve_declared\(|try_reserve", b))
        if infallible_direct: alloc = "infallible"          # one infallible allocation is enough to abort: pessimistic
        elif fallible and n_alloc >= (1 if into else 2): alloc = "fallible"
        elif "resize(" in b or "vec!" in b: alloc = "infallible"
        else: raise ExtractError(f"{fn}: allocation form not recognised")
        tform = None
        if into:
            m = re.search(r"let total\s*=([^;]*);", b)
            tform = sum_form_strict(m.group(1)) if m else "unchecked"   # shapes() flags the unrecognised statement
        return alloc, tform
    facts["readAlloc"], _ = reader("src/io.rs", "read_message", False)
    facts["readIntoAlloc"], facts["readIntoSumForm"] = reader("src/io.rs", "read_message_into", True)
    facts["asyncReadAlloc"], _ = reader("src/async_io.rs", "read_message_async", False)
    facts["asyncReadIntoAlloc"], facts["asyncReadIntoSumForm"] = reader("src/async_io.rs", "read_message_into_async", True)
    shapes(facts)
    return facts


# ------------------------------------------------------------------------------------------------
# Shapes of the parsers, emission routes and entry points (coverage-audit pass).
#
# Rule: a function that cannot be *located* (renamed, moved, file gone) makes its group fall back to the
# default facts (harmless: the correspondence still ties it).  A function that is located but whose
# statements at a place the property depends on (a check, a guard, a length patch, a write) are not of a
# recognised form yields the PESSIMISTIC fact (`.unknown` / `false`): the theorem that names it breaks and
# the deeper search runs.  Whitespace, comments, `x < y` vs `y > x`, operand order of `!=`, and the names of
# sinks / locals that the patterns bind with `\w+` do not matter.
# ------------------------------------------------------------------------------------------------
SHAPE_DEFAULTS = {
    "decodeChecks": ["shortInput", "magic", "lengthSum"], "decodeReturnsParsed": True,
    "sliceChecks": ["shortInput", "bufferHolds"], "viewChecks": ["shortInput", "bufferHolds"],
    "sliceExactChecks": ["exactLength"], "viewExactChecks": ["exactLength"],
    "sliceBoundsExact": True, "viewBoundsExact": True, "messageNewShape": True,
    "toVecParts": ["header", "query true", "body true"], "writeToParts": ["header", "query true", "body true"],
    "writeMessageParts": ["header", "query true", "body true"], "writeMessageAsyncParts": ["header", "query true", "body true"],
    "freshBufferParts": ["header", "query true", "body true"], "viewResponseParts": ["header", "query true", "body true"],
    "streamingParts": ["header", "query true"],
    "inPlaceShape": True, "streamingPatches": True, "viewResponsePatches": True, "buildShape": True,
    "stampShape": True, "echoShape": True, "errorLikeShape": True, "errorUnstampedShape": True,
    "serverEchoCall": True, "asyncServerEchoCalls": True,
    "wsServerParser": "exact", "wsClientParser": "exact", "serverReadArms": True, "asyncReadTimeoutCloses": True, "clientReadLoopEnds": True, "asyncClientReadLoopEnds": True, "wsClientReadLoopPlain": True, "sliceWritersSetBeve": True,
    "readShape": True, "asyncReadShape": True, "readIntoShape": True, "asyncReadIntoShape": True, "readExactShape": True,
}


def parse_if(st):
    """`if COND { THEN } [else { ELSE }]` -> (cond, then_body, else_body|None); None if not of that form."""
    m = re.match(r"if\s+(.*?)\s*\{", st)
    if not m: return None
    i = st.find("{", m.start())
    # the condition may itself contain no braces in the forms we care about
    j = match_brace(st, i)
    cond, then = " ".join(st[2:i].split()), st[i + 1:j - 1]
    rest = st[j:].strip()
    if not rest: return cond, then, None
    m2 = re.match(r"else\s*\{", rest)
    if not m2: return None
    k = rest.find("{")
    l = match_brace(rest, k)
    if rest[l:].strip(): return None
    return cond, then, rest[k + 1:l - 1]


def cmp_norm(cond):
    """`a < b` / `b > a` -> ('<', a, b); `a != b` -> ('!=', sorted operands); `a >= b` / `b <= a` -> ('>=', a, b)."""
    c = " ".join(cond.split())
    for op in ("!=", "<=", ">=", "<", ">"):
        parts = c.split(" " + op + " ")
        if len(parts) == 2:
            a, b = parts[0].strip(), parts[1].strip()
            if op == ">": return ("<", b, a)
            if op == "<=": return (">=", b, a)
            if op == "!=": return ("!=",) + tuple(sorted((a, b)))
            return (op, a, b)
    return (c,)


def returns_err(block, variant):
    return re.fullmatch(r"return Err\(RepeError::" + variant + r"\b.*\);?", " ".join(block.split())) is not None


def group(facts, keys, fn):
    """Run one group of shape facts; an ExtractError (function not locatable) falls back to the defaults of the group."""
    try:
        facts.update(fn())
    except ExtractError as ex:
        for k in keys: facts[k] = SHAPE_DEFAULTS[k]
        facts.setdefault("_shape_fallbacks", []).append(f"{','.join(keys)}: {ex}")


WRITE = r"(?:\w+)\.(?:write_all|extend_from_slice)\(\s*"
TAIL = r"\s*\)(?:\.await)?\??;?"


def classify_write(st):
    t = " ".join(st.split())
    if re.fullmatch(WRITE + r"&(?:\w+\.)*header(?:_bytes)?(?:\.encode\(\))?" + TAIL, t): return "header"
    if re.fullmatch(WRITE + r"&?(?:\w+\.)*query" + TAIL, t): return "query false"
    if re.fullmatch(WRITE + r"&?(?:\w+\.)*body" + TAIL, t): return "body false"
    if re.fullmatch(r"\w+\.append\(&mut body\);?", t): return "body false"
    return None


def parts_of(stmts, neutral):
    out = []
    for st in stmts:
        t = " ".join(st.split())
        if any(re.fullmatch(n, t) for n in neutral): continue
        c = classify_write(t)
        if c: out.append(c); continue
        pi = parse_if(t)
        if pi and pi[2] is None:
            inner = statements2(pi[1])
            ci = classify_write(inner[0]) if len(inner) == 1 else None
            which = ci.split()[0] if ci else None
            if which == "query" and re.fullmatch(r"!(?:\w+\.)*query\.is_empty\(\)", pi[0]): out.append("query true"); continue
            if which == "body" and (re.fullmatch(r"!(?:\w+\.)*body\.is_empty\(\)", pi[0]) or pi[0] in ("body_len > 0", "body_len != 0")): out.append("body true"); continue
        out.append("unknown")
    return out


def shapes(facts):
    hdr = test_mod_remove(strip(read("src/header.rs")))
    msg = test_mod_remove(strip(read("src/message.rs")))
    io_src = test_mod_remove(strip(read("src/io.rs")))
    aio = test_mod_remove(strip(read("src/async_io.rs")))
    eq = lambda a, b: " ".join(a.split()) == " ".join(b.split())

    # ---- Header::decode: the checks, in order, and the returned struct
    def g_decode():
        body = fn_body(impl_block(hdr, r"impl Header\s*\{"), "decode")
        checks, returns_parsed = [], False
        names = "length, spec, version, notify, reserved, id, query_length, body_length, query_format, body_format, ec"
        for st in statements2(body):
            if re.fullmatch(r"let mut o = 0;|o \+= \d+;|let expected\s*=.*;", st): continue
            if re.fullmatch(r"let \w+ = u\d+::from_le_bytes\(input\[o\.\.o \+ \d+\]\.try_into\(\)\.unwrap\(\)\);|let \w+ = input\[o\];", st): continue
            pi = parse_if(st)
            if pi and pi[2] is None:
                c = cmp_norm(pi[0])
                if c == ("<", "input.len()", "HEADER_SIZE") and returns_err(pi[1], "InvalidHeaderLength"): checks.append("shortInput"); continue
                if c == ("!=", "REPE_SPEC", "spec") and returns_err(pi[1], "InvalidSpec"): checks.append("magic"); continue
                if c in (("!=", "Some(length)", "expected"), ("!=", "expected", "length")) and returns_err(pi[1], "LengthMismatch"): checks.append("lengthSum"); continue
                checks.append("unknown"); continue
            m = re.fullmatch(r"Ok\(Self \{ (.*?),? \}\)", st)
            if m:
                returns_parsed = eq(m.group(1), names)
                continue
            checks.append("unknown")
        return {"decodeChecks": checks, "decodeReturnsParsed": returns_parsed}
    group(facts, ["decodeChecks", "decodeReturnsParsed"], g_decode)

    # ---- slice parsers
    def g_slice(impl_re, self_name, bounds_expected, k_checks, k_bounds, k_exact, var):
        def run():
            imp = impl_block(msg, impl_re)
            checks, rest = [], []
            seen_decode = False
            for st in statements2(fn_body(imp, "from_slice")):
                if eq(st, "let header = Header::decode(&buf[..HEADER_SIZE])?;"): seen_decode = True; continue
                if re.fullmatch(r"let expected\s*=.*;", st): continue
                pi = parse_if(st)
                if pi and pi[2] is None:
                    c = cmp_norm(pi[0])
                    if c == ("<", "buf.len()", "HEADER_SIZE") and returns_err(pi[1], "InvalidHeaderLength"): checks.append("shortInput"); continue
                    if c == ("<", "buf.len()", "expected") and returns_err(pi[1], "BufferTooSmall"): checks.append("bufferHolds"); continue
                    checks.append("unknown"); continue
                rest.append(st)
            if not seen_decode: checks.append("unknown")
            bounds = [" ".join(x.split()) for x in rest] == bounds_expected
            ex = []
            for st in statements2(fn_body(imp, "from_slice_exact")):
                if eq(st, f"let {var} = Self::from_slice(buf)?;") or eq(st, f"Ok({var})"): continue
                if eq(st, f"let expected = HEADER_SIZE + {var}.query.len() + {var}.body.len();"): continue
                pi = parse_if(st)
                if pi and pi[2] is None and cmp_norm(pi[0]) == ("!=", "buf.len()", "expected") and returns_err(pi[1], "LengthMismatch"):
                    ex.append("exactLength"); continue
                ex.append("unknown")
            return {k_checks: checks, k_bounds: bounds, k_exact: ex}
        return run
    group(facts, ["sliceChecks", "sliceBoundsExact", "sliceExactChecks"], g_slice(
        r"impl Message\s*\{", "Message",
        ["let mut o = HEADER_SIZE;", "let query = buf[o..o + header.query_length as usize].to_vec();", "o += header.query_length as usize;",
         "let body = buf[o..o + header.body_length as usize].to_vec();", "Self::new(header, query, body)"],
        "sliceChecks", "sliceBoundsExact", "sliceExactChecks", "message"))
    group(facts, ["viewChecks", "viewBoundsExact", "viewExactChecks"], g_slice(
        r"impl<'a> MessageView<'a>\s*\{", "MessageView",
        ["let q_start = HEADER_SIZE;", "let q_end = q_start + header.query_length as usize;", "let b_end = q_end + header.body_length as usize;",
         "Ok(Self { header, query: &buf[q_start..q_end], body: &buf[q_end..b_end], })"],
        "viewChecks", "viewBoundsExact", "viewExactChecks", "view"))

    def g_new():
        st = statements2(fn_body(impl_block(msg, r"impl Message\s*\{"), "new"))
        ok = len(st) == 2 and eq(st[1], "Ok(Self { header, query, body, })")
        pi = parse_if(st[0]) if st else None
        ok = ok and pi is not None and pi[2] is None and returns_err(pi[1], "LengthMismatch") and \
            eq(pi[0], "header.query_length != query.len() as u64 || header.body_length != body.len() as u64")
        return {"messageNewShape": bool(ok)}
    group(facts, ["messageNewShape"], g_new)

    # ---- emission routes as write sequences
    M = lambda: impl_block(msg, r"impl Message\s*\{")
    NEUTRAL = [r"let mut out = Vec::with_capacity\(.*\);", r"let header_bytes = \w+\.header\.encode\(\);", r"Ok\(\(\)\)", r"out"]
    group(facts, ["toVecParts"], lambda: {"toVecParts": parts_of(statements2(fn_body(M(), "to_vec")), NEUTRAL)})
    group(facts, ["writeToParts"], lambda: {"writeToParts": parts_of(statements2(fn_body(M(), "write_to")), NEUTRAL)})
    group(facts, ["writeMessageParts"], lambda: {"writeMessageParts": parts_of(statements2(fn_body(io_src, "write_message")), NEUTRAL)})
    group(facts, ["writeMessageAsyncParts"], lambda: {"writeMessageAsyncParts": parts_of(statements2(fn_body(aio, "write_message_async")), NEUTRAL)})

    def g_iwb():
        st = statements2(fn_body(M(), "into_wire_bytes"))
        head = ["let Self { header, query, mut body, } = self;", "let prefix_len = HEADER_SIZE + query.len();", "let body_len = body.len();",
                "let total = prefix_len + body_len;"]
        pi = parse_if(st[-1]) if st else None
        if pi is None or pi[2] is None:
            return {"inPlaceShape": False, "freshBufferParts": ["unknown"]}
        inplace = [" ".join(x.split()) for x in statements2(pi[1])]
        want = ["body.resize(total, 0);", "if body_len > 0 { body.copy_within(0..body_len, prefix_len); }",
                "body[..HEADER_SIZE].copy_from_slice(&header.encode());",
                "if !query.is_empty() { body[HEADER_SIZE..prefix_len].copy_from_slice(&query); }", "body"]
        ok = [" ".join(x.split()) for x in st[:-1]] == head and cmp_norm(pi[0]) in ((">=", "body.capacity()", "total"), ("<", "total", "body.capacity()")) and inplace == want
        return {"inPlaceShape": bool(ok), "freshBufferParts": parts_of(statements2(pi[2]), NEUTRAL)}
    group(facts, ["inPlaceShape", "freshBufferParts"], g_iwb)

    def g_streaming():
        st = [" ".join(x.split()) for x in statements2(fn_body(io_src, "write_message_streaming"))]
        patches = st[:3] == ["header.query_length = query.len() as u64;", "header.body_length = body_len;",
                             "header.length = (HEADER_SIZE as u64) + header.query_length + body_len;"] or \
                  st[:3] == ["header.query_length = query.len() as u64;", "header.body_length = body_len;",
                             "header.length = HEADER_SIZE as u64 + header.query_length + body_len;"]
        rest = st[3:] if patches else st
        neutral = NEUTRAL + [r"body_writer\(w\)\.map_err\(Into::into\)\?;"]
        return {"streamingPatches": bool(patches), "streamingParts": parts_of(rest, neutral)}
    group(facts, ["streamingPatches", "streamingParts"], g_streaming)

    def g_view_response():
        asrv = test_mod_remove(strip(read("src/async_server.rs")))
        st = [" ".join(x.split()) for x in statements2(fn_body(asrv, "write_view_response"))]
        patches = st[:3] == ["let mut header = resp.header;", "header.query_length = query.len() as u64;",
                             "header.length = HEADER_SIZE as u64 + header.query_length + header.body_length;"]
        rest = st[3:] if patches else st
        hc = fn_body(asrv, "handle_connection")
        echo_def = re.search(r"let echo = crate::message::response_echo_query\(&resp, view\.query\);", " ".join(hc.split())) is not None
        calls = re.findall(r"write_view_response\(&mut writer, &resp, (\w+(?:\.\w+)*)\)", " ".join(hc.split()))
        return {"viewResponsePatches": bool(patches), "viewResponseParts": parts_of(rest, NEUTRAL),
                "asyncServerEchoCalls": bool(echo_def and calls and all(c == "echo" for c in calls))}
    group(facts, ["viewResponsePatches", "viewResponseParts", "asyncServerEchoCalls"], g_view_response)

    def g_server():
        srv = strip(read("src/server.rs"))
        hc = " ".join(fn_body(srv, "handle_connection").split())
        ok = "let echo = crate::message::response_echo_query(&resp, view.query);" in hc and \
            re.search(r"write_message_streaming\( &mut writer, resp\.header, echo, resp\.body\.len\(\) as u64, \|w\| w\.write_all\(&resp\.body\), \)\?;", hc) is not None
        return {"serverEchoCall": bool(ok)}
    group(facts, ["serverEchoCall"], g_server)

    def g_build():
        st = [" ".join(x.split()) for x in statements2(fn_body(impl_block(msg, r"impl MessageBuilder\s*\{"), "build"))]
        want = ["let mut header = Header::new();", "header.id = self.id;", "header.query_length = self.query.len() as u64;",
                "header.body_length = self.body.len() as u64;", "header.length = HEADER_SIZE as u64 + header.query_length + header.body_length;",
                "header.query_format = if self.query_format == 0 { QueryFormat::RawBinary as u16 } else { self.query_format };",
                "header.body_format = if self.body_format == 0 { BodyFormat::RawBinary as u16 } else { self.body_format };",
                "header.notify = if self.notify { 1 } else { 0 };", "header.ec = self.ec;", "Message { header, query: self.query, body: self.body, }"]
        # the order of independent assignments does not matter
        new_st = " ".join(fn_body(impl_block(hdr, r"impl Header\s*\{"), "new").split())
        new_ok = new_st == "Self { spec: REPE_SPEC, version: REPE_VERSION, ..Default::default() }"
        return {"buildShape": bool(st[:1] == want[:1] and st[-1:] == want[-1:] and sorted(st[1:-1]) == sorted(want[1:-1])
                                   and st.index(want[4]) > max(st.index(want[2]), st.index(want[3])) and new_ok)}
    group(facts, ["buildShape"], g_build)

    def g_stamp():
        st = [" ".join(x.split()) for x in statements2(fn_body(msg, "stamp_response_query"))]
        want = ["if request_query.is_empty() || !response.query.is_empty() { return; }", "response.query = request_query.into_owned();",
                "response.header.query_length = response.query.len() as u64;",
                "response.header.length = HEADER_SIZE as u64 + response.header.query_length + response.header.body_length;"]
        e = " ".join(fn_body(msg, "response_echo_query").split())
        like = [" ".join(x.split()) for x in statements2(fn_body(msg, "create_error_response_like"))]
        like_want = ["let mut err = create_error_message(code, msg.as_ref());", "err.header.id = request.header.id;", "err.query = request.query.clone();",
                     "err.header.query_length = err.query.len() as u64;",
                     "err.header.length = HEADER_SIZE as u64 + err.header.query_length + err.header.body_length;", "err"]
        un = [" ".join(x.split()) for x in statements2(fn_body(msg, "create_error_response_unstamped_view"))]
        un_want = ["let mut err = create_error_message(code, msg.as_ref());", "err.header.id = view.header.id;", "err"]
        return {"stampShape": st == want, "echoShape": e == "if response.query.is_empty() { request_query } else { &response.query }",
                "errorLikeShape": like == like_want, "errorUnstampedShape": un == un_want}
    group(facts, ["stampShape", "echoShape", "errorLikeShape", "errorUnstampedShape"], g_stamp)

    # ---- which parser the one-message-per-buffer entry points use
    def parser_kind(file):
        def run():
            src = " ".join(test_mod_remove(strip(read(file))).split())
            calls = re.findall(r"\b(?:MessageView|Message)::(from_slice(?:_exact)?)\(", src)
            if not calls: raise ExtractError(f"{file}: no slice parser call found")
            return "exact" if all(c == "from_slice_exact" for c in calls) else "lenient"
        return run
    group(facts, ["wsServerParser"], lambda: {"wsServerParser": parser_kind("src/websocket_server.rs")()})
    group(facts, ["wsClientParser"], lambda: {"wsClientParser": parser_kind("src/websocket_client.rs")()})

    # ---- the servers' read loops: what happens after a failed / timed-out frame read (a stream reader is not resumable:
    # after an error the stream position is inside a frame, so the only sound continuations are to end the connection)
    def g_read_loops():
        srv = " ".join(fn_body(strip(read("src/server.rs")), "handle_connection").split())
        m = re.search(r"match read_message_into\(&mut reader, &mut buf\) \{(.*?)\} let view", srv)
        arms_ok = False
        if m:
            arms = " ".join(m.group(1).split())
            arms = re.sub(r"=> \{ return Err\((\w+)\);? \},?", r"=> return Err(\1),", arms)   # braces around the return do not matter
            arms = re.sub(r"=> \{ break;? \},?", "=> break,", arms)
            arms = re.sub(r"Err\((\w+)\) => return Err\(\1\),", "Err(e) => return Err(e),", arms)
            arms_ok = arms in (
                "Ok(()) => {} Err(RepeError::Io(ref e)) if e.kind() == std::io::ErrorKind::UnexpectedEof => break, Err(e) => return Err(e),",
                "Ok(()) => {}, Err(RepeError::Io(ref e)) if e.kind() == std::io::ErrorKind::UnexpectedEof => break, Err(e) => return Err(e),")
        asrv = " ".join(fn_body(test_mod_remove(strip(read("src/async_server.rs"))), "handle_connection").split())
        asrv = re.sub(r"Err\(_\w*\) => return Ok\(\(\)\)", "Err(_) => return Ok(())", asrv)
        a_ok = ("match timeout(dur, read_message_into_async(&mut reader, &mut buf)).await { Ok(r) => r?, Err(_) => return Ok(()), }" in asrv
                and "read_message_into_async(&mut reader, &mut buf).await?;" in asrv
                and len(re.findall(r"read_message_into_async\(", asrv)) == 2)
        return {"serverReadArms": bool(arms_ok), "asyncReadTimeoutCloses": bool(a_ok)}
    group(facts, ["serverReadArms", "asyncReadTimeoutCloses"], g_read_loops)

    def g_client_loop():
        cl = " ".join(fn_body(test_mod_remove(strip(read("src/client.rs"))), "spawn_response_loop").split())
        m = re.search(r"match read_message\(&mut reader\) \{(.*?)\};", cl)
        if not m: raise ExtractError("client response loop: read_message match not found")
        arms = " ".join(m.group(1).split())
        return {"clientReadLoopEnds": arms == "Ok(message) => message, Err(err) => { fail_all_pending(&inner, err); break; }"}
    group(facts, ["clientReadLoopEnds"], g_client_loop)

    # the async client's response loop: `select!` with exactly two arms — the shutdown signal (break) and the frame read
    # (every error fails the pending calls and breaks).  Any further arm (a timer, a sleep, a timeout) drops the in-progress,
    # non-resumable `read_message_async` when it fires; a `continue` anywhere before the dispatch re-reads at whatever
    # position the stream is in.  Both are the danger itself: pessimistic.
    def g_async_client_loop():
        cl = " ".join(fn_body(test_mod_remove(strip(read("src/async_client.rs"))), "spawn_response_loop").split())
        m = re.search(r"let response = tokio::select! \{(.*?)\}; let dispatch", cl)
        if not m: raise ExtractError("async client response loop: select! not found")
        arms = " ".join(m.group(1).split())
        want = ("_ = &mut shutdown_rx => { break; } read = read_message_async(&mut reader) => { match read { Ok(message) => message, "
                "Err(err) => { fail_all_pending(&inner, err).await; break; } } }")
        return {"asyncClientReadLoopEnds": arms == want}
    group(facts, ["asyncClientReadLoopEnds"], g_async_client_loop)

    # the WebSocket client's loop reads whole messages (`reader.next().await`); the transport keeps message boundaries, so the
    # only thing to pin is that the read is not raced against a timer either (a dropped `next()` is cancel-safe in tungstenite,
    # but a loop that gives up a message half-way would not be)
    def g_ws_client_loop():
        cl = " ".join(fn_body(test_mod_remove(strip(read("src/websocket_client.rs"))), "spawn_response_loop").split())
        plain = "match reader.next().await {" in cl and not re.search(r"select!|timeout\(|sleep\(|interval\(", cl)
        return {"wsClientReadLoopPlain": bool(plain)}
    group(facts, ["wsClientReadLoopPlain"], g_ws_client_loop)

    # the streamed slice writers set the body format unconditionally (documented: "`header.body_format` is set to Beve")
    def g_slice_writers():
        ok = True
        for fn, size, wr in (("write_message_typed_slice", "typed_slice_size", "to_writer_typed_slice"),
                             ("write_message_complex_slice", "complex_slice_size", "to_writer_complex_slice")):
            st = [" ".join(x.split()) for x in statements2(fn_body(io_src, fn))]
            ok = ok and st == ["header.body_format = crate::constants::BodyFormat::Beve as u16;", f"let body_len = beve::{size}(slice);",
                               f"write_message_streaming(w, header, query, body_len, |w| {{ beve::{wr}(w, slice) }})"]
        return {"sliceWritersSetBeve": bool(ok)}
    group(facts, ["sliceWritersSetBeve"], g_slice_writers)

    # ---- stream readers, statement by statement
    def g_readers():
        def norm(body): return [" ".join(x.split()) for x in statements2(body)]
        rd = norm(fn_body(io_src, "read_message"))
        rd_want = ["let mut hdr_buf = [0u8; HEADER_SIZE];", "read_exact(r, &mut hdr_buf)?;", "let header = Header::decode(&hdr_buf)?;",
                   "let mut query = zeroed_vec(header.query_length as usize)?;", "if !query.is_empty() { read_exact(r, &mut query)?; }",
                   "let mut body = zeroed_vec(header.body_length as usize)?;", "if !body.is_empty() { read_exact(r, &mut body)?; }",
                   "Message::new(header, query, body)"]
        ard = norm(fn_body(aio, "read_message_async"))
        ard_want = ["let mut hdr = [0u8; HEADER_SIZE];", "r.read_exact(&mut hdr).await?;", "let header = Header::decode(&hdr)?;",
                    "let mut query = crate::io::zeroed_vec(header.query_length as usize)?;", "if !query.is_empty() { r.read_exact(&mut query).await?; }",
                    "let mut body = crate::io::zeroed_vec(header.body_length as usize)?;", "if !body.is_empty() { r.read_exact(&mut body).await?; }",
                    "Message::new(header, query, body)"]
        ri = norm(fn_body(io_src, "read_message_into"))
        ri_want = ["buf.clear();", "buf.resize(HEADER_SIZE, 0);", "read_exact(r, &mut buf[..HEADER_SIZE])?;", "let header = Header::decode(&buf[..HEADER_SIZE])?;",
                   "let total = HEADER_SIZE + header.query_length as usize + header.body_length as usize;", "reserve_declared(buf, total - HEADER_SIZE)?;",
                   "buf.resize(total, 0);", "read_exact(r, &mut buf[HEADER_SIZE..total])?;", "Ok(())"]
        ari = norm(fn_body(aio, "read_message_into_async"))
        ari_want = ["buf.clear();", "buf.resize(HEADER_SIZE, 0);", "r.read_exact(&mut buf[..HEADER_SIZE]).await?;", "let header = Header::decode(&buf[..HEADER_SIZE])?;",
                    "let total = HEADER_SIZE + header.query_length as usize + header.body_length as usize;", "crate::io::reserve_declared(buf, total - HEADER_SIZE)?;",
                    "buf.resize(total, 0);", "r.read_exact(&mut buf[HEADER_SIZE..total]).await?;", "Ok(())"]
        def loosen(xs):   # the sum/alloc forms are facts of their own: do not let a change there flip the shape fact too
            return [re.sub(r"let total = .*;", "let total = …;", x) for x in xs]
        def rename_hdr(xs):   # the name of the local header buffer does not matter
            m = re.fullmatch(r"let mut (\w+) = \[0u8; HEADER_SIZE\];", xs[0]) if xs else None
            return [re.sub(r"\b" + m.group(1) + r"\b", "HDR", x) for x in xs] if m else xs
        rx = norm(fn_body(io_src, "read_exact"))
        rx_fixed = (len(rx) == 2 and rx[1] == "Ok(())" and rx[0] ==
            "while !buf.is_empty() { let n = match r.read(buf) { Ok(n) => n, Err(e) if e.kind() == std::io::ErrorKind::Interrupted => continue, "
            "Err(e) => return Err(e.into()), }; if n == 0 { return Err(RepeError::Io(std::io::Error::from( std::io::ErrorKind::UnexpectedEof, ))); } "
            "let tmp = buf; buf = &mut tmp[n..]; }")
        rx_ok = rx_fixed or len(rx) == 2 and rx[1] == "Ok(())" and re.fullmatch(
            r"while !buf\.is_empty\(\) \{ let n = r\.read\(buf\)\?; if n == 0 \{ return Err\(RepeError::Io\(std::io::Error::from\( std::io::ErrorKind::UnexpectedEof, \)\)\); \} let tmp = buf; buf = &mut tmp\[n\.\.\]; \}", rx[0]) is not None
        return {"readShape": rename_hdr(rd) == rename_hdr(rd_want), "asyncReadShape": rename_hdr(ard) == rename_hdr(ard_want), "readIntoShape": loosen(ri) == loosen(ri_want),
                "asyncReadIntoShape": loosen(ari) == loosen(ari_want), "readExactShape": bool(rx_ok)}
    group(facts, ["readShape", "asyncReadShape", "readIntoShape", "asyncReadIntoShape", "readExactShape"], g_readers)


def render(f):
    lay = lambda l: "[" + ", ".join(f"(.{FIELD[n]}, {w})" for n, w in l) + "]"
    L = ["import RepeVerif.Model.Wire",
         "/-! GENERATED by /verif/extract/wire.py from /repo (src/header.rs, message.rs, io.rs, async_io.rs, constants.rs). -/",
         "namespace Repe.Gen",
         f"def encodeLayout : Layout := {lay(f['encodeLayout'])}",
         f"def decodeLayout : Layout := {lay(f['decodeLayout'])}",
         f"def headerSize : Nat := {f['headerSize']}",
         f"def repeSpec : Nat := {f['repeSpec']}",
         f"def repeVersion : Nat := {f['repeVersion']}"]
    for k in ("headerSumForm", "sliceSumForm", "viewSumForm", "readIntoSumForm", "asyncReadIntoSumForm"):
        L.append(f"def {k} : SumForm := .{f[k]}")
    for k in ("readAlloc", "readIntoAlloc", "asyncReadAlloc", "asyncReadIntoAlloc"):
        L.append(f"def {k} : AllocForm := .{f[k]}")
    lst = lambda xs: "[" + ", ".join("." + x for x in xs) + "]"
    for k in ("decodeChecks", "sliceChecks", "viewChecks", "sliceExactChecks", "viewExactChecks"):
        L.append(f"def {k} : List Check := {lst(f[k])}")
    for k in ("toVecParts", "writeToParts", "writeMessageParts", "writeMessageAsyncParts", "freshBufferParts", "viewResponseParts", "streamingParts"):
        L.append(f"def {k} : List Part := {lst(f[k])}")
    for k in ("decodeReturnsParsed", "sliceBoundsExact", "viewBoundsExact", "messageNewShape", "inPlaceShape", "streamingPatches", "viewResponsePatches",
              "buildShape", "stampShape", "echoShape", "errorLikeShape", "errorUnstampedShape", "serverEchoCall", "asyncServerEchoCalls",
              "readShape", "asyncReadShape", "readIntoShape", "asyncReadIntoShape", "readExactShape", "serverReadArms", "asyncReadTimeoutCloses", "clientReadLoopEnds", "asyncClientReadLoopEnds", "wsClientReadLoopPlain", "sliceWritersSetBeve"):
        L.append(f"def {k} : Bool := {'true' if f[k] else 'false'}")
    for k in ("wsServerParser", "wsClientParser"):
        L.append(f"def {k} : ParserKind := .{f[k]}")
    L.append("end Repe.Gen")
    return "\n".join(L) + "\n"


if __name__ == "__main__":
    import json
    f = extract()
    print(json.dumps(f, indent=1))
    print(render(f))
