"""Facts for Gen/Offreader.lean (C16): how `spawn_off_reader` takes and holds the permit, what the
saturation branch does, panic capture, reply codes, and the two `execution()` implementations."""
import re
from rustlex import *

GEN_FILE = "Offreader.lean"
CODE_FIELD = {"Ok": "ok", "VersionMismatch": "versionMismatch", "InvalidHeader": "invalidHeader", "InvalidQuery": "invalidQuery",
              "InvalidBody": "invalidBody", "ParseError": "parseError", "MethodNotFound": "methodNotFound", "Timeout": "timeout",
              "ResourceExhausted": "resourceExhausted", "InternalError": "internalError"}


def block_after(src, pos):
    i = src.find("{", pos)
    return src[i + 1:match_brace(src, i) - 1], match_brace(src, i)


def extract():
    f = {}
    srv = test_mod_cut(strip(read("src/websocket_server.rs")))
    body = fn_body(srv, "spawn_off_reader")
    acq = re.findall(r"\.(\w*acquire\w*)\(", body)
    # exactly the one non-blocking single-permit acquisition; anything else (none, several, `_many`, a
    # blocking one, available_permits() peeking) is not what the theorems are about
    f["tryAcquire"] = acq == ["try_acquire_owned"] and "available_permits" not in body and "add_permits" not in body and "forget" not in body
    m = re.search(r"try_acquire_owned\(\)\s*\{\s*Ok\(permit\)\s*=>\s*Some\(permit\),\s*Err\(_\)\s*=>", body)
    if not m:
        # acquisition is not the recognised non-blocking match: the saturation branch cannot be located
        f["tryAcquire"] = False
        sat = ""
    else:
        sat, _ = block_after(body, m.end())
    awaits = [mm.start() for mm in re.finditer(r"\.await", sat)]
    ok_awaits = all(re.search(r"outbound_tx\.send\(response\)\s*$", sat[:p]) for p in awaits)
    f["saturationNeverWaits"] = bool(m) and ok_awaits and "acquire" not in sat and "sleep" not in sat and "yield_now" not in sat
    drop = re.search(r"if notify\s*\{\s*return true;\s*\}", sat)
    resp = re.search(r"create_error_response_like\(\s*&request,\s*ErrorCode::(\w+)", sat)
    carries = bool(resp)
    if m and not resp:
        resp = re.search(r"create_error_message\(\s*ErrorCode::(\w+)", sat)
        if not resp: raise ExtractError("spawn_off_reader: saturation reply not recognised")
    f["saturationCode"] = resp.group(1) if resp else "ResourceExhausted"
    f["saturationDropsNotify"] = bool(drop and resp and drop.start() < resp.start())
    sp = re.search(r"tokio::task::spawn_blocking\(move \|\|", body)
    if not sp: raise ExtractError("spawn_off_reader: spawn_blocking closure")
    clo, _ = block_after(body, sp.end())
    st = statements(clo)
    # the permit is bound to a named `_x` at the top level of the closure before the handler is dispatched
    bind = [i for i, x in enumerate(st) if re.fullmatch(r"let _[A-Za-z]\w* = permit;", x)]
    disp = [i for i, x in enumerate(st) if "dispatch(" in x]
    f["permitHeldForRun"] = len(bind) == 1 and bool(disp) and bind[0] < disp[0] and "drop(_" not in clo and "forget" not in clo and "let _ = permit" not in clo
    cu = re.search(r"catch_unwind\(std::panic::AssertUnwindSafe\(\|\|\s*\{\s*dispatch\(handler\.as_ref\(\), &request, &ctx, notify\)\s*\}\)\)", clo)
    f["panicCaught"] = bool(cu)
    pm = re.search(r"Err\(_\)\s*=>", clo)
    if not pm: raise ExtractError("spawn_off_reader: panic arm")
    parm, _ = block_after(clo, pm.end())
    pc = re.search(r"create_error_response_like\(\s*&request,\s*ErrorCode::(\w+)", parm)
    if not pc:
        carries = False
        pc = re.search(r"create_error_message\(\s*ErrorCode::(\w+)", parm)
        if not pc: raise ExtractError("spawn_off_reader: panic reply")
    f["repliesCarryRequestId"] = carries
    # replies wait for room in the outbound queue (never `try_send`)
    tail = clo[clo.rfind("if let Some(mut response) = response"):] if "if let Some(mut response) = response" in clo else clo
    f["repliesWaitForQueue"] = (bool(re.search(r"return conn\.outbound_tx\.send\(response\)\.await\.is_ok\(\);", sat)) and
                                bool(re.search(r"outbound_tx\.blocking_send\(response\)", tail)) and "try_send" not in body)
    f["panicCode"] = pc.group(1)
    for k in ("panicCode", "saturationCode"):
        if f[k] not in CODE_FIELD: raise ExtractError(f"unknown ErrorCode::{f[k]}")
    rd = fn_body(srv, "reader_task")
    # no timer / sleep / timeout / retry arm in the read loop or in spawn_off_reader (there is none today): one that
    # appears could end the connection or delay a refusal on a stalled peer -> pessimistic
    TIMER = r"tokio::time::|\bsleep\(|\btimeout\(|timeout_at\(|\binterval\(|Instant::now|\bretry|Duration::"
    if re.search(TIMER, rd) or re.search(TIMER, body):
        f["saturationNeverWaits"] = False
    if not (re.search(r"match handler\.execution\(\)\s*\{", rd) and re.search(r"Execution::OffReader\s*=>", rd) and "spawn_off_reader(" in rd):
        raise ExtractError("reader_task: dispatch by execution mode not recognised")

    sv = test_mod_cut(strip(read("src/server.rs")))
    mp = impl_block(sv, r"impl HandlerErased for MiddlewarePipeline\s*\{")
    f["executionForwards"] = " ".join(fn_body(mp, "execution").split()) == "self.handler.execution()"
    oh = impl_block(sv, r"impl<H: HandlerErased> HandlerErased for OffReaderHandler<H>\s*\{")
    is_off = " ".join(fn_body(oh, "execution").split()) == "Execution::OffReader"
    wraps = all("Arc::new(OffReaderHandler(" in " ".join(fn_body(sv, n).split()).replace("( ", "(")
                for n in ("with_json_blocking", "with_json_ctx_blocking", "with_typed_blocking", "with_typed_ctx_blocking"))
    f["blockingIsOffReader"] = is_off and wraps
    # ---- configuration of the cap
    m = re.search(r"pub const DEFAULT_OFFREADER_LIMIT\s*:\s*usize\s*=\s*(\d+)\s*;", srv)
    if not m: raise ExtractError("DEFAULT_OFFREADER_LIMIT")
    f["defaultLimit"] = int(m.group(1))
    wss = impl_block(srv, r"impl WebSocketServer\s*\{")
    f["newUsesDefault"] = bool(re.search(r"offreader_limit:\s*Some\(DEFAULT_OFFREADER_LIMIT\)", fn_body(wss, "new")))
    wl = " ".join(fn_body(wss, "with_offreader_limit").split())
    f["zeroMeansUnlimited"] = wl == "self.offreader_limit = (limit > 0).then_some(limit); self"
    shared = " ".join(fn_body(wss, "into_shared").split())
    hc = fn_body(srv, "handle_connection_with_config")
    sem = re.findall(r"Semaphore::new\(", srv)
    f["semaphoreIsLimitPerConnection"] = ("offreader_limit: self.offreader_limit," in shared and len(sem) == 1 and
        bool(re.search(r"let offreader_sem\s*=\s*config\.offreader_limit\.map\(\|n\|\s*Arc::new\(Semaphore::new\(n\)\)\);", hc)) and
        bool(re.search(r"reader_task\(ws_reader, &config\.router, conn, offreader_sem\)", hc)))
    return f


def render(f):
    b = lambda x: "true" if x else "false"
    return "\n".join([
        "import RepeVerif.Model.OffReader",
        "import RepeVerif.Gen.Dispatch",
        "/-! GENERATED by /verif/extract/offreader.py from /repo (src/websocket_server.rs, src/server.rs). -/",
        "namespace Repe.Gen",
        "def offFacts : OffFacts :=",
        f"  {{ tryAcquire := {b(f['tryAcquire'])}",
        f"    saturationNeverWaits := {b(f['saturationNeverWaits'])}",
        f"    permitHeldForRun := {b(f['permitHeldForRun'])}",
        f"    panicCaught := {b(f['panicCaught'])}",
        f"    panicCode := codes.{CODE_FIELD[f['panicCode']]}",
        f"    saturationCode := codes.{CODE_FIELD[f['saturationCode']]}",
        f"    saturationDropsNotify := {b(f['saturationDropsNotify'])}",
        f"    repliesCarryRequestId := {b(f['repliesCarryRequestId'])}",
        f"    repliesWaitForQueue := {b(f['repliesWaitForQueue'])}",
        f"    executionForwards := {b(f['executionForwards'])}",
        f"    blockingIsOffReader := {b(f['blockingIsOffReader'])} }}",
        "def capFacts : CapFacts :=",
        f"  {{ defaultLimit := {f['defaultLimit']}",
        f"    newUsesDefault := {b(f['newUsesDefault'])}",
        f"    zeroMeansUnlimited := {b(f['zeroMeansUnlimited'])}",
        f"    semaphoreIsLimitPerConnection := {b(f['semaphoreIsLimitPerConnection'])} }}",
        "end Repe.Gen"]) + "\n"


if __name__ == "__main__":
    import json
    f = extract()
    print(json.dumps(f, indent=1))
