"""Facts for Gen/Dispatch.lean: ErrorCode discriminants, RepeError::to_error_code table, order and codes of route()."""
import re
from rustlex import *

GEN_FILE = "Dispatch.lean"
CODE_FIELDS = [("Ok", "ok"), ("VersionMismatch", "versionMismatch"), ("InvalidHeader", "invalidHeader"),
               ("InvalidQuery", "invalidQuery"), ("InvalidBody", "invalidBody"), ("ParseError", "parseError"),
               ("MethodNotFound", "methodNotFound"), ("Timeout", "timeout"), ("ResourceExhausted", "resourceExhausted"),
               ("InternalError", "internalError")]


def extract():
    consts = strip(read("src/constants.rs"))
    m = re.search(r"pub enum ErrorCode\s*\{([^}]*)\}", consts)
    if not m: raise ExtractError("enum ErrorCode")
    disc = {k: int(v) for k, v in re.findall(r"(\w+)\s*=\s*(\d+)", m.group(1))}
    for k, _ in CODE_FIELDS:
        if k not in disc: raise ExtractError(f"ErrorCode::{k} missing")
    err = test_mod_cut(strip(read("src/error.rs")))
    body = fn_body(err, "to_error_code")
    table = []
    for arm in re.finditer(r"((?:RepeError::\w+\s*(?:\([^)]*\)|\{[^}]*\})?\s*\|?\s*)+)=>\s*([^,]+),", body):
        variants = re.findall(r"RepeError::(\w+)", arm.group(1))
        rhs = arm.group(2).strip()
        mm = re.fullmatch(r"ErrorCode::(\w+)", rhs)
        for v in variants:
            if mm: table.append((v, disc[mm.group(1)]))
            elif v == "ServerError" and rhs in ("*code", "code.clone()"): pass   # carries its own code
            else: raise ExtractError(f"to_error_code arm {v} => {rhs}")
    if not table: raise ExtractError("to_error_code: no arms")
    # a guarded arm (`RepeError::Io(e) if … =>`) or a variant listed twice makes the mapping depend on more than the
    # variant: not a table any more
    if re.search(r"\bif\b", body) or len({v for v, _ in table}) != len(table):
        table.append(("_guarded_or_repeated_arm", 0))
    sr = test_mod_cut(strip(read("src/server_request.rs")))
    rb = fn_body(sr, "route")
    # a check that is not found is simply absent from `routeOrder` (the order theorem then fails); a version test
    # with another operator, a notify test of another shape, another default for unknown query formats are FACTS
    vt = re.search(r"header\.version\s*(!=|==|>=|<=|>|<)\s*REPE_VERSION", rb)
    marks = [("version", r"header\.version\s*(?:!=|==|>=|<=|>|<)\s*REPE_VERSION"), ("queryFormat", r"QueryFormat::try_from"),
             ("utf8", r"from_utf8"), ("lookup", r"router\.get\(")]
    pos = []
    for name, rx in marks:
        mm = re.search(rx, rb)
        if mm: pos.append((mm.start(), name))
    order = [n for _, n in sorted(pos)]
    # codes used by each reject, by textual position
    rejects = [(mm.start(), mm.group(1)) for mm in re.finditer(r"code:\s*ErrorCode::(\w+)", rb)]
    def code_after(rx):
        mm = re.search(rx, rb)
        if not mm: return "Ok"
        for q, c in rejects:
            if q > mm.start(): return c
        return "Ok"
    route_codes = {"version": code_after(marks[0][1]), "utf8": code_after(marks[2][1]),
                   "rawBinary": code_after(r"QueryFormat::RawBinary\s*=>"), "lookup": code_after(r"None\s*=>")}
    notify_test = re.search(r"let notify\s*=\s*header\.notify\s*==\s*(\d+)\s*;", rb)
    unknown_qf = re.search(r"QueryFormat::try_from\([^)]*\)\.unwrap_or\(QueryFormat::(\w+)\)", rb)
    facts = {"codes": {f: disc[k] for k, f in CODE_FIELDS}, "toErrorCode": sorted(table), "routeOrder": order,
             "routeCodes": {k: disc[v] for k, v in route_codes.items()}, "notifyValue": int(notify_test.group(1)) if notify_test else 0,
             "unknownQueryFormatIs": unknown_qf.group(1) if unknown_qf else "?", "versionTestIsNe": bool(vt and vt.group(1) == "!="),
             "routeRejectSites": len(re.findall(r"RouteOutcome::Reject\s*\{", rb)), "routeDispatchSites": len(re.findall(r"RouteOutcome::Dispatch\s*\{", rb)),
             # byte-range slices of the query / path inside route() (a `&path[..n]` can panic on a char boundary)
             "routeSlices": len(re.findall(r"\[[^\]\n]*\.\.[^\]\n]*\]", rb))}
    facts.update(handler_facts(disc, dict(table)))
    facts["serve"] = serve_facts(sr)
    return facts


# ---------------------------------------------------------------------------------------------------------
# built-in handlers: decode sites, entry points, serve loops.
# Rule: a form that is not recognised at a *dangerous* site (an accepted-format arm that does not hand the raw body to
# one of the known strict decoders, a notify branch, an echo argument, a flush, a send, the teardown) becomes a
# pessimistic FACT (strict = false, code 0, flag false) so that a theorem breaks; it never raises. Only the absence
# of a whole function raises (-> the committed defaults; the tie is then the correspondence alone).
# ---------------------------------------------------------------------------------------------------------
BODY_FORMATS = {"RawBinary": 0, "Beve": 1, "Json": 2, "Utf8": 3}
BODY_ARG = r"\(\s*(?:&\s*req\.body|&\s*request\.body|view\.body|body)\s*\)"
KINDS = [("JsonHandler", "json"), ("JsonHandlerCtx", "jsonCtx"), ("TypedHandler", "typed"), ("TypedHandlerCtx", "typedCtx"),
         ("TypedSliceHandler", "slice"), ("TypedSliceRefHandler", "sliceRef"), ("JsonTypedAdapter", "adapter"),
         ("RegisteredRegistry", "registry"), ("RegisteredStruct", "struct")]


def norm(t):
    return " ".join(t.split())


def match_arms(text, start=0):
    """Arms [(pattern, expr)] of the first `match … {` at or after `start` in stripped text."""
    m = re.compile(r"\bmatch\b[^{;]*\{").search(text, start)
    if not m: raise ExtractError("match not found")
    i = m.end() - 1
    body = text[i + 1:match_brace(text, i) - 1]
    arms, depth, cur, k = [], 0, [], 0
    while k < len(body):
        ch = body[k]
        if ch in "{([": depth += 1
        elif ch in "})]": depth -= 1
        cur.append(ch)
        end_block = ch == "}" and depth == 0 and "=>" in "".join(cur) and norm("".join(cur)).split("=>", 1)[1].lstrip().startswith("{")
        if (ch == "," and depth == 0) or end_block or k == len(body) - 1:
            t = norm("".join(cur)).rstrip(",").strip()
            if "=>" in t:
                pat, ex = t.split("=>", 1)
                arms.append((pat.strip(), ex.strip()))
            cur = []
        k += 1
    return arms


def classify_decode(ex):
    """Which strict decoder an accepted arm hands the raw body to, or None."""
    if re.search(r"serde_json::from_slice(::<\w+>)?" + BODY_ARG, ex) and "?" in ex: return "Json"
    if re.search(r"(beve_from_slice|beve::from_slice)(::<\w+>)?" + BODY_ARG, ex) and "?" in ex: return "Beve"
    if re.search(r"(read_typed_slice_body|decode_typed_slice_ref_body)(::<\w+>)?" + BODY_ARG, ex) and "?" in ex: return "Beve"
    if re.search(r"std::str::from_utf8" + BODY_ARG + r"\.map_err\(RegistryError::InvalidUtf8\)\?", ex): return "InvalidUtf8"
    if re.search(r"Value::Array\(\s*req\.body\.iter\(\)", ex): return "infallible"
    return None


def decode_site(text, start, disc, fail_code_of, fail_is_err, reject_code_of=None):
    """DecodeFacts of the body-format `match` at `start`."""
    arms = match_arms(text, start)
    accepts, fails, strict, reject = [], set(), True, None
    for pat, ex in arms:
        names = re.findall(r"Ok\(BodyFormat::(\w+)\)", pat)
        catch_all = pat == "_" or "Err(_)" in pat
        if catch_all or (names and re.search(r"create_error_response|UnsupportedBodyFormat|on_bad_format", ex) and classify_decode(ex) is None):
            # rejecting arm(s): the code of the error response
            mm = re.search(r"ErrorCode::(\w+)", ex)
            code = disc.get(mm.group(1), 0) if mm else (reject_code_of(ex) if reject_code_of else 0)
            if catch_all: reject = code if reject in (None, code) else 0
            elif code != (reject if reject is not None else code): reject = 0
            elif reject is None: reject = code
            continue
        if not names:
            strict = False    # an arm we cannot read
            continue
        kind = classify_decode(ex)
        for n in names:
            if n in BODY_FORMATS: accepts.append(BODY_FORMATS[n])
        if kind is None: strict = False
        elif kind != "infallible": fails.add(fail_code_of(kind))
    fail = fails.pop() if len(fails) == 1 else 0
    return {"accepts": sorted(set(accepts)), "rejectCode": reject or 0, "failCode": fail, "failIsErr": fail_is_err, "strict": strict}


def handler_facts(disc, to_code):
    srv = test_mod_cut(strip(read("src/server.rs")))
    reg = test_mod_cut(strip(read("src/registry.rs")))
    repe_fail = lambda kind: to_code.get(kind, 0)
    sites = {}
    for fn in ["decode_json_param", "decode_json_param_view", "decode_typed_param", "decode_typed_param_view",
               "decode_typed_slice_param", "decode_typed_slice_param_view"]:
        m = re.search(r"\bfn\s+" + fn + r"\b", srv)
        if not m: raise ExtractError(f"fn {fn}")
        sites[fn] = dict(decode_site(srv, m.end(), disc, repe_fail, True), emptySkips=False)
    # the bulk readers behind the slice routes (message.rs): the empty generic array, else beve's reader on the raw body
    msg = test_mod_cut(strip(read("src/message.rs")))
    rb = norm(fn_body(msg, "read_typed_slice_body"))
    bulk_strict = bool(re.fullmatch(r"if body == BEVE_EMPTY_GENERIC_ARRAY \{ return Ok\(Vec::new\(\)\); \} beve::read_typed_slice(?:::<\w+>)?\(body\)", rb)) \
        and bool(re.search(r"const BEVE_EMPTY_GENERIC_ARRAY: \[u8; 2\] = \[0x05, 0x00\];", norm(msg)))
    for fn in ["decode_typed_slice_param", "decode_typed_slice_param_view"]:
        sites[fn]["strict"] = sites[fn]["strict"] and bulk_strict
    ref_body = norm(fn_body(srv, "decode_typed_slice_ref_body"))
    ref_strict = bulk_strict and bool(re.fullmatch(r"if body\.first\(\) == Some\(&BEVE_ALIGNED_TYPED_ARRAY_MARKER\) \{ match beve::read_aligned_typed_slice_ref::<T>\(body\) \{ Ok\(slice\) => Ok\(SliceInput::Borrowed\(slice\)\), Err\(_\) => Ok\(SliceInput::Owned\(beve::read_aligned_typed_slice::<T>\( body,? \)\?\)\), \} \} else \{ Ok\(SliceInput::Owned\(read_typed_slice_body::<T>\(body\)\?\)\) \}", ref_body))
    # borrowed-slice route: one gate shared by both entry points, the error response is a closure argument
    m = re.search(r"\bfn\s+decode_typed_slice_ref_param\b", srv)
    if not m: raise ExtractError("fn decode_typed_slice_ref_param")
    ref_impl = impl_block(srv, r"HandlerErased\s+for\s+TypedSliceRefHandler\b[^{]*\{")
    for entry, fn in [("owned", "handle"), ("view", "handle_view")]:
        b = norm(fn_body(ref_impl, fn))
        mm = re.search(r"decode_typed_slice_ref_param::<\w+>\(\s*(?:req|view)\.header\.body_format\s*,\s*&?\s*(?:req|view)\.body\s*,\s*\|\|\s*\{?\s*create_error_response_\w+\(\s*(?:req|view)\s*,\s*ErrorCode::(\w+)", b)
        code = disc.get(mm.group(1), 0) if mm else 0
        sites["decode_typed_slice_ref_param@" + entry] = dict(decode_site(srv, m.end(), disc, repe_fail, True, reject_code_of=lambda ex: code), emptySkips=False)
        sites["decode_typed_slice_ref_param@" + entry]["strict"] &= ref_strict
    # JsonTypedAdapter / RegisteredStruct decode inline in `handle`
    ad = impl_block(srv, r"HandlerErased\s+for\s+JsonTypedAdapter\b[^{]*\{")
    sites["adapter"] = dict(decode_site(ad, 0, disc, repe_fail, True), emptySkips=False)
    st = impl_block(srv, r"HandlerErased\s+for\s+RegisteredStruct\b[^{]*\{")
    hb = fn_body(st, "handle")
    mm = re.search(r"let\s+body\s*=\s*if\s+req\.body\.is_empty\(\)\s*\{\s*None\s*\}\s*else\s*\{", hb)
    sites["struct"] = dict(decode_site(hb, mm.end() if mm else 0, disc, repe_fail, True), emptySkips=bool(mm))
    # Registry::decode_body + RegistryError::code; the mounted handler turns the error into a response itself
    rcode = {}
    for arm in re.finditer(r"((?:RegistryError::\w+\s*(?:\([^)]*\)|\{[^}]*\})?\s*\|?\s*)+)=>\s*ErrorCode::(\w+)", fn_body(reg, "code")):
        for v in re.findall(r"RegistryError::(\w+)", arm.group(1)): rcode[v] = disc.get(arm.group(2), 0)
    db = fn_body(reg, "decode_body")
    skips = bool(re.search(r"if\s+req\.body\.is_empty\(\)\s*\{\s*return\s+Ok\(None\)\s*;\s*\}", db))
    rr = impl_block(srv, r"HandlerErased\s+for\s+RegisteredRegistry\b[^{]*\{")
    as_response = all(re.search(r"Registry::decode_body\(req\)\s*\{\s*Ok\(value\)\s*=>\s*value\s*,\s*Err\(err\)\s*=>\s*return\s+Ok\(create_error_response_like\(req,\s*err\.code\(\)", norm(fn_body(rr, f))) for f in ["handle", "handle_with_ctx"])
    site = decode_site(db, 0, disc, lambda kind: rcode.get(kind, 0), False, reject_code_of=lambda ex: rcode.get("UnsupportedBodyFormat", 0))
    if not as_response: site["strict"] = False
    sites["registry"] = dict(site, emptySkips=skips)
    # which decode site each (kind, entry point) uses, and who overrides handle_view
    decode, overrides = {}, []
    flags = {}
    for ty, kind in KINDS + [("MiddlewarePipeline", None), ("OffReaderHandler", None)]:
        blk = impl_block(srv, r"HandlerErased\s+for\s+" + ty + r"\b[^{]*\{")
        has_view = bool(re.search(r"\bfn\s+handle_view\b", blk))
        if kind is None:
            flags[ty] = has_view
            if ty == "MiddlewarePipeline":
                flags["fwd"] = norm(fn_body(blk, "execution")) == "self.handler.execution()"
            continue
        if has_view: overrides.append(kind)
        owned_fn = "handle_with_ctx" if re.search(r"\bfn\s+handle_with_ctx\b", blk) and kind in ("jsonCtx", "typedCtx", "registry") else "handle"
        for entry, fn in [("owned", owned_fn), ("view", "handle_view" if has_view else owned_fn)]:
            if kind in ("adapter", "struct", "registry"):
                decode[(kind, entry)] = sites[kind]
                continue
            if kind == "sliceRef":
                decode[(kind, entry)] = sites["decode_typed_slice_ref_param@" + entry]
                continue
            used = set(re.findall(r"\b(decode_\w+)\s*(?:::<[^>]*>)?\(", fn_body(blk, fn)))
            site = sites.get(next(iter(used))) if len(used) == 1 else None
            decode[(kind, entry)] = site if site else {"accepts": [], "rejectCode": 0, "failCode": 0, "failIsErr": True, "strict": False, "emptySkips": False}
    return {"decode": {f"{k}.{e}": v for (k, e), v in decode.items()}, "viewOverrides": overrides,
            "pipelineOverridesView": flags["MiddlewarePipeline"], "offReaderOverridesView": flags["OffReaderHandler"],
            "pipelineForwardsExecution": flags["fwd"]}


def serve_facts(sr):
    f = {}
    dv, do = norm(fn_body(sr, "dispatch_view")), norm(fn_body(sr, "dispatch"))
    for key, body, call in [("view", dv, r"handler\.handle_view\(view, ctx\)"), ("owned", do, r"handler\.handle_with_ctx\(req, ctx\)")]:
        run = r"(?:let _\w* = " + call + r"|_ = " + call + r"|drop\(" + call + r"\)|" + call + r"\.ok\(\));"
        silent = bool(re.match(r"if notify \{ " + run + r" return None; \} Some\(match " + call + r" \{", body))
        n = len(re.findall(r"handler\.handle\w*\(", body))
        f[key + "NotifySilent"] = silent
        f[key + "HandlerCalls"] = 1 if (silent and n == 2) or n == 1 else n
    rv = norm(fn_body(sr, "route_request_view"))
    f["viewRejectNotifySilent"] = bool(re.search(r"RouteOutcome::Reject \{ notify, code, message,? \} => \(!notify\)\.then\(\|\| create_error_response_unstamped_view\(view, code, message\)\)", rv))
    # blocking and async TCP loops
    srv = test_mod_cut(strip(read("src/server.rs")))
    asv = test_mod_cut(strip(read("src/async_server.rs")))
    def some_block(body):
        m = re.search(r"if\s+let\s+Some\(resp\)\s*=\s*route_request_view\(&router,\s*&view\)\s*\{", body)
        if not m: return None
        i = m.end() - 1
        return norm(body[i + 1:match_brace(body, i) - 1])
    helper = r"(?:crate::message::|message::)?response_echo_query\(&resp, view\.query\)"
    echo_let = r"let (\w+) = " + helper + ";"
    def echo_name(block):
        mm = re.search(echo_let, block)
        # the name must be bound exactly once (a second `let echo = …` would replace the helper's result)
        if mm and len(re.findall(r"\blet (?:mut )?" + re.escape(mm.group(1)) + r"\b", block)) != 1: return "?rebound"
        return mm.group(1) if mm else None
    tb = some_block(fn_body(srv, "handle_connection"))
    tn = echo_name(tb) if tb else None
    targ = (re.escape(tn) if tn else helper)            # the helper's result by name, or the call written inline
    f["tcpEchoHelper"] = bool(tb and re.search(r"write_message_streaming\( ?&mut writer, resp\.header, " + targ + ",", tb))
    f["tcpFlushEach"] = bool(tb and re.fullmatch(r"(?:" + echo_let + r" )?write_message_streaming\(.*\)\?; writer\.flush\(\)\?;", tb))
    ab = some_block(fn_body(asv, "handle_connection"))
    if ab:
        an = echo_name(ab)
        args = re.findall(r"write_view_response\(&mut writer, &resp, ((?:[^()]|\([^()]*\))*)\)", ab)
        f["atcpEchoHelper"] = len(args) >= 1 and all((an and a.strip() == an) or re.fullmatch(helper, a.strip()) for a in args)
        ifs = re.findall(r"\bif\b[^{]*\{", ab)
        f["atcpFlushEach"] = len(args) >= 1 and len(re.findall(r"writer\.flush\(\)", ab)) == len(args) and all(norm(x) == "if let Some(dur) = write_timeout {" for x in ifs) \
            and not re.search(r"\.ok\(\)|let _ =", ab)
    else:
        f["atcpEchoHelper"] = f["atcpFlushEach"] = False
    # WebSocket reader / off-reader / teardown
    ws = test_mod_cut(strip(read("src/websocket_server.rs")))
    rt = fn_body(ws, "reader_task")
    arms = match_arms(rt, rt.find("match route("))
    rej = next((ex for pat, ex in arms if pat.startswith("RouteOutcome::Reject")), "")
    stamp_b = r"stamp_response_query\(&mut response, Cow::Borrowed\(view\.query\)\);"
    send = r"if conn\.outbound_tx\.send\(response\)\.await\.is_err\(\) \{ break; \}"
    f["wsRejectNotifySilent"] = bool(re.fullmatch(r"\{ if !notify \{ let mut response = create_error_response_unstamped_view\(&view, code, message\); " + stamp_b + " " + send + r" \} \}", rej))
    nrt = norm(rt)
    inline = re.search(r"Execution::Inline => \{ let ctx = [^;]*; if let Some\(mut response\) = dispatch_view\(handler\.as_ref\(\), &view, &ctx, notify\) \{ " + stamp_b + " " + send + r" \} \}", nrt)
    f["wsStampInline"] = bool(inline) and bool(re.search(stamp_b, rej))
    f["wsSendInOrder"] = bool(inline) and len(re.findall(r"outbound_tx\.send\(response\)\.await", nrt)) == 2 and not re.search(r"try_send|spawn\(", nrt)
    so = fn_body(ws, "spawn_off_reader")
    m = re.search(r"spawn_blocking\(\s*move\s*\|\|\s*\{", so)
    if m:
        i = m.end() - 1
        clo = norm(so[i + 1:match_brace(so, i) - 1])
        head = clo.split("dispatch(handler.as_ref(), &request, &ctx, notify)")[0] if "dispatch(handler.as_ref(), &request, &ctx, notify)" in clo else None
        f["wsOffRunsAlways"] = head is not None and not re.search(r"\breturn\b|\bif\b", head)
        mm = re.search(r"if let Some\(mut response\) = response \{ stamp_response_query\(&mut response, Cow::Owned\(request\.query\)\); (.*?) \}$", clo)
        f["wsStampOff"] = bool(mm)
        # the hand-off to the writer: only a send that waits for room is recognised
        f["wsOffSendWaits"] = bool(mm and re.fullmatch(r"(?:let _\w* = |_ = )?outbound_tx\.blocking_send\(response\)(?:\.ok\(\))?;", mm.group(1)))
    else:
        f["wsOffRunsAlways"] = f["wsStampOff"] = f["wsOffSendWaits"] = False
    # (s) timers, sleeps, timeouts and retry arms inside the loops the property depends on: counted; any that is not
    # there today changes the fact (read pessimistically: `source_facts` no longer holds)
    timer = r"\b(?:timeout|timeout_at|sleep|sleep_until|interval|Instant::now|set_read_timeout|set_write_timeout|recv_timeout|wait_timeout|elapsed|retry|retries|Duration::from_\w+)\b"
    f["timerArms"] = [len(re.findall(timer, x)) for x in (fn_body(srv, "handle_connection"), fn_body(asv, "handle_connection"), rt, fn_body(ws, "writer_task"), so,
                                                             fn_body(sr, "route") + fn_body(sr, "route_request_view") + fn_body(sr, "dispatch_view") + fn_body(sr, "dispatch"))]
    # saturated cap: the branch must leave the function (a notify is dropped, a request is answered), never fall through
    nso = norm(so)
    f["wsSaturationReturns"] = bool(re.search(r"try_acquire_owned\(\) \{ Ok\(permit\) => Some\(permit\), Err\(_\) => \{ (?:[^{}]|\{[^{}]*\})*? if notify \{ return true; \} let response = create_error_response_like\( &request, ErrorCode::ResourceExhausted, [^;]*\); return conn\.outbound_tx\.send\(response\)\.await\.is_ok\(\); \} \}, None => None, \};", nso))
    # struct mounts: the segment collector (stack of STACK_SEGS, then a Vec) keeps every segment
    ds = norm(fn_body(srv, "dispatch_struct_segments"))
    f["structSegmentsKept"] = bool(re.search(r"for seg in trimmed\.split\(' '\) \{ if let Some\(v\) = overflow\.as_mut\(\) \{ v\.push\(seg\); \} else if count < STACK_SEGS \{ stack\[count\] = seg; count \+= 1; \} else \{ let mut v = Vec::with_capacity\([^;]*\); v\.extend_from_slice\(&stack\); v\.push\(seg\); overflow = Some\(v\); \} \} match overflow\.as_deref\(\) \{ Some\(v\) => handler\.repe_handle\(v, body\), None => handler\.repe_handle\(&stack\[\.\.count\], body\), \}", ds)) \
        and bool(re.search(r"const STACK_SEGS: usize = 16;", ds))
    hc = fn_body(ws, "handle_connection_with_config")
    m = re.search(r"let\s+reader_result\s*=\s*\{", hc)
    if m:
        after = norm(hc[match_brace(hc, m.end() - 1):])
        blk = norm(hc[m.end():match_brace(hc, m.end() - 1) - 1])
        # the block's value is the select: a cancelled connection token ends the reader like a clean end (falls through
        # to the drain), it does not leave the function
        falls = bool(re.search(r"tokio::select! \{ r = reader_task\(ws_reader, &config\.router, conn, offreader_sem\) => r, _ = conn_token\.cancelled\(\) => Ok\(\(\)\),? \}$", blk)) and not re.search(r"\breturn\b", blk)
        f["wsDrainOnExit"] = falls and bool(re.match(r"; let _ = shutdown_tx\.send\(\(\)\); let writer_result = match writer_guard\.await \{.*\}; reader_result\.and\(writer_result\)$", after))
    else:
        f["wsDrainOnExit"] = False
    return f


def render(f):
    c = f["codes"]
    L = ["import RepeVerif.Model.Dispatch",
         "/-! GENERATED by /verif/extract/dispatch.py from /repo (src/constants.rs, error.rs, server_request.rs, server.rs, registry.rs, async_server.rs, websocket_server.rs). -/",
         "namespace Repe.Gen",
         "def codes : Codes := ⟨" + ", ".join(str(c[k]) for _, k in CODE_FIELDS) + "⟩",
         "def toErrorCode : List (String × Nat) := [" + ", ".join(f'("{v}", {n})' for v, n in f["toErrorCode"]) + "]",
         "def routeOrder : List RouteCheck := [" + ", ".join("." + x for x in f["routeOrder"]) + "]",
         f"def routeVersionCode : Nat := {f['routeCodes']['version']}",
         f"def routeUtf8Code : Nat := {f['routeCodes']['utf8']}",
         f"def routeRawBinaryCode : Nat := {f['routeCodes']['rawBinary']}",
         f"def routeLookupCode : Nat := {f['routeCodes']['lookup']}",
         f"def notifyValue : Nat := {f['notifyValue']}",
         f"def unknownQueryFormatIsRawBinary : Bool := {'true' if f['unknownQueryFormatIs'] == 'RawBinary' else 'false'}",
         f"def versionTestIsNe : Bool := {'true' if f['versionTestIsNe'] else 'false'}",
         f"def routeRejectSites : Nat := {f['routeRejectSites']}",
         f"def routeDispatchSites : Nat := {f['routeDispatchSites']}",
         f"def routeSlices : Nat := {f['routeSlices']}",
         ]
    b = lambda x: "true" if x else "false"
    L.append("def decodeFacts : HKind → Entry → DecodeFacts")
    for k in ["json", "jsonCtx", "typed", "typedCtx", "slice", "sliceRef", "adapter", "registry", "struct"]:
        for e in ["owned", "view"]:
            d = f["decode"][f"{k}.{e}"]
            L.append(f"  | .{k}, .{e} => ⟨{d['accepts']}, {d['rejectCode']}, {d['failCode']}, {b(d['failIsErr'])}, {b(d['emptySkips'])}, {b(d['strict'])}⟩")
    L.append("def entryFacts : EntryFacts := ⟨[" + ", ".join("." + k for k in f["viewOverrides"]) + f"], {b(f['pipelineOverridesView'])}, {b(f['offReaderOverridesView'])}, {b(f['pipelineForwardsExecution'])}⟩")
    sv = f["serve"]
    order = ["viewNotifySilent", "ownedNotifySilent", "viewRejectNotifySilent", "wsRejectNotifySilent", "viewHandlerCalls", "ownedHandlerCalls",
             "tcpEchoHelper", "atcpEchoHelper", "wsStampInline", "wsStampOff", "wsOffRunsAlways", "tcpFlushEach", "atcpFlushEach", "wsSendInOrder", "wsDrainOnExit", "wsOffSendWaits", "wsSaturationReturns", "structSegmentsKept"]
    L.append("def serveFacts : ServeFacts :=\n  { " + "\n    ".join(f"{k} := {sv[k] if isinstance(sv[k], int) and not isinstance(sv[k], bool) else b(sv[k])}" for k in order) + " }")
    L.append(f"def timerArms : List Nat := {f['serve']['timerArms']}")
    L.append("end Repe.Gen")
    return "\n".join(L) + "\n"


if __name__ == "__main__":
    import json
    f = extract(); print(json.dumps(f, indent=1)); print(render(f))
