from common import TB_COMMON
CONFIG = dict(
    gens=["wire", "dispatch"], props_module="RepeVerif.Props.C01", namespace="Repe.C01", exes=["repe_model_wire", "repe_model_dispatch"], leanchecker=True,
    runs=[
        dict(name="wire", bin="fam_wire", args=["wire"], exe="repe_model_wire", profile="dev"),
        dict(name="wire-release", bin="fam_wire", args=["wire"], exe="repe_model_wire", profile="release", thorough_only=True),
        # server-side emission routes: raw response bytes of the real Server / AsyncServer (each with and without a
        # write timeout: different framing branches) and WebSocketServer, compared with each other and with the model
        dict(name="dispatch", bin="fam_dispatch", args=[], exe="repe_model_dispatch", profile="dev", timeout=1500),
        # client-side emission routes: raw request bytes of the real Client / AsyncClient / WebSocketClient
        dict(name="emit", bin="fam_emit", args=[], exe="repe_model_wire", profile="dev", timeout=900),
    ],
    trusted_base=TB_COMMON + ["Vec::resize/copy_within/copy_from_slice behave as fill/memmove/copy (std)"],
    assumptions=["header fields are within their Rust integer widths (Header.InRange) - true of every Rust value",
                 "48+|query|+|body| < 2^64 for the builder theorems",
                 "stream read-back theorems: frame size < 2^62 (allocatable); a stream is a byte string then EOF, fragmentation does not matter to read_exact (varied in the harness)",
                 "the property is silent about a failing or panicking body callback of write_message_streaming: such cases are run, nothing is asserted"],
    manifest=dict(
        text="Lean 4 theorems over a model of header/message framing: the layout tables re-extracted from Header::encode/decode equal the REPE v1 layout (decide), encode is 48 bytes with little-endian fields at the spec offsets, decode∘encode = id for every in-range header (reserved bits, unknown format codes), one encoding, and to_vec = write_to = into_wire_bytes (every body capacity, in-place and fresh branch) = write_message_streaming; TCP echo framing (blocking: write_message_streaming, async: write_view_response) = WebSocket stamping; owned and borrowing response/error constructors agree; frames read back by the four stream readers (also pipelined through one reused buffer) are the frames written; serialized_len = emitted length. The write sequence of every buffered route, the in-place steps, the length patches, the builder, the stamping guard, the echo rule and the servers' call sites are re-read from the source on every run (source_routes_agree, source_shapes: an unrecognised statement at such a place is a pessimistic fact). Tied to /repo by fact extraction plus a differential run of every emission route of the real crate against the model executable and an independent layout oracle: sinks that take few bytes, interrupt or stay pending, several frames through one writer, recycled body buffers, fragmented readers, reused read buffers across streams and after errors, every builder setter order, the library's own response/error constructors, slice-writer twins, body callbacks that err/panic/are slow/re-enter, every query and body length 0..520 (thorough 0..4200 and 2^k±3), runs of 1..17 (thorough ..1000) frames through one writer / reader / client, cut-point delivery, frames at the 8 KiB buffer sizes, a peer that stops reading before a multi-MiB request, observers from two threads during emission.",
        note="Lean kernel; axioms propext/Classical.choice/Quot.sound only; extractor + harness + driver trusted; Vec primitives modelled as list operations; server-side framing over sockets is exercised by the `dispatch` family (raw responses of five real endpoints compared pairwise and with the model); client-side emission over sockets by the `emit` family (raw request frames of the three real clients captured by a recording peer and compared with the builder frame: every call/notify entry point incl. the _with_timeout twins, typed JSON/BEVE and registry helpers, batches, forward_message of arbitrary consistent messages, calls after an unanswered call). Not driven: UniUdpClient (its frame is builder + into_wire_bytes, both modelled) and the wasm client.",
        technique="Lean 4 proof (round-trip/algebraic laws) + regenerated layout facts + differential correspondence"),
)
