from common import TB_COMMON
CONFIG = dict(
    gens=["dispatch", "wire"], props_module="RepeVerif.Props.C03", namespace="Repe.C03", exes=["repe_model_dispatch"], leanchecker=True,
    runs=[dict(name="dispatch", bin="fam_dispatch", args=[], exe="repe_model_dispatch", profile="dev", timeout=1500)],
    trusted_base=TB_COMMON + [
        "handler bodies, serde_json/beve decoding inside handlers: parameters of the model (HOut), recorded from the implementation per request",
        "Router::get (route lookup) is C07's model; here `found` is observed on a probe router built by the same constructor",
        "tokio / std threads / tungstenite deliver frames in order per connection (exercised, not modelled)"],
    assumptions=["requests are well-framed (consistent header)", "transports_agree assumes the handler-twin contract `Twin` (exercised by C07's twin differential)",
                 "handlers return (panics are C16)"],
    manifest=dict(
        text="Lean 4 theorems over a model of route()/dispatch()/dispatch_view() and the four response-framing paths, with handlers as parameters: one response (request id, echoed or handler-chosen query) iff notify != 1, none for notify; handler invoked exactly once iff dispatched; error codes for bad version / non-JSON-pointer or non-UTF-8 query / unknown path / handler error as re-extracted from constants.rs, error.rs, server_request.rs and proved equal to the specification table; the connection loop answers in arrival order (loop = filterMap, by induction); the four transports produce byte-identical frames (to_vec of the same message) under the handler-twin contract. Tied to /repo by those extracted facts and by pipelined request sequences sent raw to the real Server, AsyncServer and WebSocketServer (inline + off-reader routes, all built-in handler kinds behind a counting middleware), compared with the model executable and with direct oracles (response counts, ids, order, invocation counts, cross-transport equality incl. error bodies).",
        note="Lean kernel; handler outcomes are recorded from the implementation (probe router) and passed to the model; error message texts are not modelled (error bodies are compared across transports, not with the model); runtime ordering guarantees of tokio/tungstenite are exercised only.",
        technique="Lean 4 proof (decision logic + loop induction + cross-transport equality) + regenerated code tables + differential correspondence on real servers"),
)
