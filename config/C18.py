from common import TB_COMMON
CONFIG = dict(
    gens=[], props_module="RepeVerif.Props.C18", namespace="Repe.C18", exes=["repe_model_peers"], leanchecker=True,
    runs=[dict(name="peers", bin="fam_peers", args=[], exe="repe_model_peers", profile="dev")],
    trusted_base=TB_COMMON + [],
    assumptions=[],
    manifest=dict(text="", note="", technique=""),
)
