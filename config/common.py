"""Shared trusted-base text for config fragments."""
TB_COMMON = [
    "Lean 4.33.0 kernel (lake build; thorough tier re-checks the property module with leanchecker)",
    "fact extractor /verif/extract (pattern matchers over comment-stripped source; unrecognised form => committed defaults + correspondence only)",
    "correspondence harness /verif/harness (Rust, calls the real code in-process or over loopback) and the repe_model_* line-protocol drivers",
    "modelled, not verified: Rust std collections/allocator, 64-bit little-endian target",
]
