from common import TB_COMMON
CONFIG = dict(
    gens=["router", "dispatch"], props_module="RepeVerif.Props.C07", namespace="Repe.C07", exes=["repe_model_router"], leanchecker=True,
    death_is_violation=False,
    runs=[dict(name="router", bin="fam_router", args=[], exe="repe_model_router", profile="dev")],
    trusted_base=TB_COMMON + [
        "serde_json / beve decoders and encoders are uninterpreted (Codec parameter): that the owned and the borrowed twin get the same verdict from the same bytes is checked differentially only",
        "HashMap<String, _> lookup/insert behave as an association list with replace-on-insert; Arc/Vec clones preserve contents",
        "str::split('/'), str::replace, strip_prefix, starts_with, trim_end_matches modelled on List Char (only ASCII '/' and '~' are inspected, so byte- and char-level agree)",
    ],
    assumptions=[
        "escapes in the relative path are well formed (every '~' followed by '0' or '1') - malformed escapes are outside the property's quantifier",
        "middleware in the 'forwarding' clauses passes the request on unchanged and returns the continuation's result (Forwarding)",
        "handler closures are deterministic functions of their input (the same closure value is called on every route)",
    ],
    manifest=dict(
        text="Lean 4 theorems over a model of Router (exact map, registry mounts, struct mounts, middleware list with raw/dispatched slots), Next/MiddlewarePipeline/OffReaderHandler, the default handle_view, the gate-decode-call-frame shape of the built-in handlers and the struct-mount tokenisers: after ANY sequence of registrations every entry's dispatched middleware list equals the router's (= all middleware in registration order); a forwarding chain is transparent on handle/handle_with_ctx/handle_view and keeps the execution hint; default handle_view = owned path on the copy; owned and borrowed built-in twins agree after the echo rule given equal gates (re-extracted); an exact route wins over any mount through any later history; a mount matches iff prefix empty / equal / extended at '/'; pointer_for and relative_pointer strip exactly the prefix; dispatch_struct_segments = RFC 6901 tokens for paths of any depth (stack branch, spill branch, escape branch) and replace(~1,/).replace(~0,~) = unescape on well-formed tokens. Tied to /repo by facts re-extracted from server.rs (lookup order in Router::get, STACK_SEGS, which registrars wrap / which collections register_middleware rebuilds, body-format gates of the four owned/borrowed decoder pairs, wrapper overrides) plus an in-process differential run of the real Router against the model executable with direct oracles (middleware trace per path, exact-over-prefix, boundary matching, independent RFC 6901 tokeniser, 9-route twin equality per handler kind x body-format code x body).",
        note="Lean kernel; axioms propext/Classical.choice/Quot.sound only; extractor + harness + driver trusted; serde/beve decoders are parameters (same function on same bytes in both twins - differential only); malformed '~' escapes outside the quantifier; TCP/WebSocket servers' use of these paths is exercised by the C03/C04 families, here the handlers are called in-process exactly as route_request_view / dispatch call them.",
        technique="Lean 4 proof (invariant over registration histories, loop invariant, string lemmas) + regenerated facts + differential correspondence"),
)
