from common import TB_COMMON
CONFIG = dict(
    gens=["numeric"], props_module="RepeVerif.Props.C08", namespace="Repe.C08", exes=["repe_model_numeric"], leanchecker=True,
    runs=[dict(name="numeric", bin="fam_numeric", args=[], exe="repe_model_numeric", profile="dev")],
    trusted_base=TB_COMMON + [
        "the BEVE wire format (typed / complex / aligned arrays, SIZE) is a hand-written model of the dependency beve 8, validated by the correspondence, not extracted",
        "beve's serde path and its unsafe bulk copies: differential only",
        "align_of::<T>() = size_of::<T>() for the element types (x86_64 / aarch64)"],
    assumptions=["little-endian target (the bulk copies are the wire bytes only there)",
                 "payload smaller than 2^62 bytes for the round-trip theorems (SIZE holds 62 bits)",
                 "element type is one of bf16,f16,f32,f64,i8..i128,u8..u128 (ElemTy.Valid); every block has the element width"],
    manifest=dict(text="", note="", technique="Lean 4 proof (codec round trips, alignment arithmetic) + regenerated facts + differential correspondence"),
)
