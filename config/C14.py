from common import TB_COMMON
CONFIG = dict(
    gens=["registry"], props_module="RepeVerif.Props.C14", namespace="Repe.C14", exes=["repe_model_registry"], leanchecker=True,
    runs=[
        dict(name="registry", bin="fam_registry", args=["seq"], exe="repe_model_registry", profile="dev"),
        dict(name="registry-conc", bin="fam_registry", args=["conc"], exe="repe_model_registry", profile="dev"),
    ],
    trusted_base=TB_COMMON + [
        "serde_json::Value / Map (a BTreeMap: preserve_order off, re-checked from Cargo.lock on every run) modelled as a nested list type with first-binding lookup and replace-or-append insert",
        "std RwLock: write sections exclude each other and readers; the lock regions of the Registry API are read off the source (one acquisition per method, first statement, guard held to the end: extracted facts) and exercised by the concurrent family",
        "usize::from_str (optional '+', ASCII digits, leading zeros, overflow => error) modelled by parseUsize; exercised on 01, +1, -, +, 2^64-1, 2^64",
    ],
    assumptions=[
        "JSON numbers are integers kept as canonical decimal text (floats are not generated and not compared)",
        "callable bodies are opaque: a call is its (registration tag, body) log entry plus whatever the callable returns",
        "pointers, keys and strings are sequences of Unicode scalar values; the code only splits them at ASCII '/' and '~' (byte- and char-level splits coincide)",
        "dispatch_write_linearizable_partial: no register_function of the same canonical key runs between the two lock regions of a body-bearing dispatch (not needed once the extracted fact recheckUnderWriteLock is true)",
    ],
    manifest=dict(
        text="Lean 4 theorems over a branch-by-branch model of src/registry.rs, src/json_pointer.rs and the Router registry mount, for unbounded pointers, trees and histories: escape/unescape round trips; canonical_key (incl. its borrowed fast path) = parse-then-re-escape with identical errors; malformed pointers give InvalidPointer whose extracted code is MethodNotFound and never mutate; a successful non-root write is returned by the next read (read_after_write) and leaves every pointer that leaves the written path at a token addressing a different child unchanged (write_frame, with index normalisation 1/01/+1); a root write merges keys; an empty body never mutates; a callable is invoked exactly once with the body exactly at its escape-normalised key (call_exactly_once, callable_key); the mount strips only the prefix at a '/' boundary; json_pointer::parse/evaluate agree with RFC 6901 and the registry walk. Concurrency: a schedule of lock-region steps (single-section API calls + the two sections of the body-bearing dispatch, any threads, any interleaving) equals the sequential run of its linearisation (calls placed at their completing step): proved without side condition when the extracted fact recheckUnderWriteLock is true (dispatch_linearizable - the source after fixes/F8-registry-recheck.diff), and as dispatch_write_linearizable_partial (no same-key register_function between the two sections) otherwise; f8_witness shows the unconditional statement is false without the re-check. Tied to /repo by extracted facts (error-code tables, one lock acquisition per method, lookup-then-write-lock shape and the re-check, sorted Map) and by a differential run of the real Registry: random op sequences (<=100 ops) incl. the Router mount, all sequences over 3 pointers x 3 values (27 ops) of length <=4 (quick) / 5 (thorough) in three domains, parse_json_pointer/eval_json_pointer, and real 2-4 thread x 2-4 op histories plus 10^5-10^6-iteration two-thread race loops, each outcome checked by a model-independent linearizability search on the real code and against the step model.",
        note="Lean kernel; axioms propext/Classical.choice/Quot.sound only; extractor + harness + driver trusted; serde_json Value/Map, RwLock and usize::from_str modelled (exercised, not verified); callables opaque; floats not generated; linearizability of real executions is tested (race loops, random histories), the theorem is about the lock-region model whose regions are extracted facts.",
        technique="Lean 4 proof (tree/pointer laws, schedule-to-linearisation simulation) + regenerated lock-region and error-code facts + differential and concurrent correspondence"),
)
