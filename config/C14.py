from common import TB_COMMON
CONFIG = dict(
    gens=["registry"], props_module="RepeVerif.Props.C14", namespace="Repe.C14", exes=["repe_model_registry"], leanchecker=True,
    runs=[
        dict(name="registry", bin="fam_registry", args=["seq"], exe="repe_model_registry", profile="dev"),
        dict(name="registry-conc", bin="fam_registry", args=["conc"], exe="repe_model_registry", profile="dev"),
    ],
    trusted_base=TB_COMMON + ["serde_json::Value / Map (a BTreeMap: preserve_order off, re-checked from Cargo.lock) modelled as a nested list type with first-binding lookup",
                               "std RwLock gives mutual exclusion of write sections and excludes writers during read sections; lock regions read off the source (one acquisition per method: extracted) and exercised by the concurrent family"],
    assumptions=["JSON numbers are integers kept as canonical decimal text (no float comparison)",
                 "callable bodies are opaque: a call is its (tag, body) log entry plus whatever the callable returns"],
    manifest=dict(text="TODO", note="TODO", technique="Lean 4 proof + regenerated facts + differential correspondence"),
)
