from common import TB_COMMON
CONFIG = dict(
    gens=["wire"], props_module="RepeVerif.Props.C02", namespace="Repe.C02", exes=["repe_model_wire"], leanchecker=True,
    death_is_violation=True,
    runs=[
        dict(name="parse", bin="fam_wire", args=["parse"], exe="repe_model_wire", profile="dev"),
        dict(name="parse-release", bin="fam_wire", args=["parse"], exe="repe_model_wire", profile="release", thorough_only=True),
    ],
    trusted_base=TB_COMMON + ["allocator: a request >= 2^62 bytes can never be satisfied; try_reserve_exact reports it as an error (std contract, exercised)",
                               "requests in (16 MiB, 2^62) are outside the property's quantifier and are not generated"],
    assumptions=["64-bit usize", "stream = finite byte string then EOF (read_exact semantics); fragmentation does not matter to read_exact"],
    manifest=dict(
        text="Lean 4 theorems with explicit panic/abort outcomes: with the checked header sum and fallible reservation that the extractor reads off the current source, Header::decode, the four slice parsers and the four stream readers return Ok/Err for every byte string, every declared size and both overflow-check profiles; a successful parse implies magic, length = 48+q+b, frame inside the buffer and query/body equal to the input slices; exact variants reject trailing bytes; truncation anywhere gives an I/O error. Witness examples show the unchecked/infallible forms violate it. Tied by extraction + differential run over hostile inputs (boundary lattice of the three 64-bit lengths, truncations at every position) with an independent parser oracle; a process death is attributed to its input. The same hostile inputs are also sent to the real Server, AsyncServer and WebSocketServer and used as replies to calls of the real Client, AsyncClient and WebSocketClient: no panic anywhere in the process (global panic hook), the endpoint keeps serving, the call returns.",
        note="Lean kernel; allocator behaviour for >= 2^62 assumed (std try_reserve contract, exercised); sizes in (16 MiB, 2^62) outside the property; 64-bit usize.",
        technique="Lean 4 proof (totality + soundness of parsers) + regenerated sum/alloc facts + differential correspondence"),
)
