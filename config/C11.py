from common import TB_COMMON
CONFIG = dict(
    gens=["transfer"], props_module="RepeVerif.Props.C11", namespace="Repe.C11", exes=["repe_model_transfer"], leanchecker=True,
    runs=[
        dict(name="credit", bin="fam_transfer", args=["credit"], exe="repe_model_transfer", profile="dev"),
        dict(name="credit-release", bin="fam_transfer", args=["credit"], exe="repe_model_transfer", profile="release", thorough_only=True),
    ],
    trusted_base=TB_COMMON + [
        "std::sync::Mutex serialises the public methods of TransferControl (each method body is one lock region = one atomic step); poisoning on a panic under the lock",
        "waits are exercised with an expired deadline / zero timeout only (blocking and wake-ups are C12)",
        "timestamps (last_chunk_at/last_ack_at) are not modelled"],
    assumptions=["u64 fields are naturals < 2^64 (true of every Rust value); sums in the statements are in N",
                 "credit_sound with a saturating add needs window != u64::MAX (a checked add needs nothing)",
                 "loop_bound: the history follows the documented loop (record_sent(sent+len) only after a granted wait_for_credit(len); advance_to_file only between chunks); inbound handlers are unconstrained"],
    manifest=dict(
        text="Lean 4 theorems over an executable model of TransferControl (one atomic step per public method, histories of any length over all 64-bit values, both overflow profiles): acked <= sent is invariant; an ack for another file or at/below the acked offset changes nothing; with the credit predicate's forms re-extracted from wait_for_credit (zero clause, sum form, <=), credit is granted only if nothing is in flight or in-flight + len <= window with + in N, never panics, and (expired deadline) is granted exactly then; a producer following the documented loop under arbitrary hostile acks/resumes/cancels has at most max(window, last chunk) in flight at every point; cancel is permanent, first reason wins, every later credit/reconnect wait reports it and a resume is refused. Tied to /repo by fact extraction plus a differential run: both sides enumerate every op sequence of length <= 4 over a 26-op alphabet and <= 7 over a 10-op alphabet (digest per sequence) and replay random 200-op histories over the 64-bit boundary lattice with hostile acks and oversized chunks; direct oracles evaluate each clause on the real object after every op. The idle watchdog (extracted: it calls only is_cancelled/timestamps/cancel) only ever cancels and never overrides an earlier reason; which call refreshes which watchdog time stamp is part of every observation; a real spawn_watchdog thread is exercised. The model refines C12's condvar model (same effect of every signalling method, same wait pass), so C12's wake-up theorems are about the same object. Concurrent callers: every method body takes the mutex exactly once (lock-acquisition counts re-extracted, theorem single_section_ops), so interleavings are sequential histories; 2-3 threads racing short programs on the real object must produce an outcome of some sequential order (decided on the real object's own sequential runs and by the model).",
        note="Lean kernel; axioms propext/Classical.choice/Quot.sound only; extractor + harness + driver trusted; Mutex/Condvar not verified; only the non-blocking pass of the two waits is modelled (C12 covers parking); timestamps not modelled.",
        technique="Lean 4 proof (invariants over histories) + regenerated predicate forms + exhaustive small-scope and random differential correspondence"),
)
