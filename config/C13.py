from common import TB_COMMON
CONFIG = dict(
    gens=["transfer"], props_module="RepeVerif.Props.C13", namespace="Repe.C13", exes=["repe_model_transfer"], leanchecker=True,
    runs=[
        dict(name="ring", bin="fam_transfer", args=["ring"], exe="repe_model_transfer", profile="dev"),
        dict(name="ring-release", bin="fam_transfer", args=["ring"], exe="repe_model_transfer", profile="release", thorough_only=True),
    ],
    trusted_base=TB_COMMON + [
        "std::sync::Mutex serialises the public methods of TransferControl (each method body is one lock region = one atomic step)",
        "VecDeque push_back/pop_front/iter behave as list append / head removal / in-order traversal (std)",
        "the private ReplayRing is observed through replay_chunks_from(0) (every retained chunk, bodies included); bytes_held itself is not observable, only its effect on eviction"],
    assumptions=["retained chunks end below 2^64 in the logical offset domain (c.offset + c.data_len < 2^64)",
                 "a history pushes fewer than 2^64 wire bytes in total (bytes_held.saturating_add never saturates)",
                 "contiguity: pushes abut (the API's contract; enforced by debug_assert in the dev profile, where no hypothesis is needed)"],
    manifest=dict(
        text="Lean 4 theorems over an executable model of the replay ring inside TransferControl (chunks carry their wire bodies; histories of any length, both profiles): the ring always is a suffix of the chunks pushed since the last advance (oldest-first eviction, bodies verbatim); under abutting pushes (always, in the dev profile) it is one contiguous run; bytes_held = sum of retained wire lengths and more than one chunk is retained only within capacity (capacity 0 and single oversized chunks included), with the eviction guard re-extracted from ReplayRing::push; the newest chunk is always retained; request_resume is accepted iff not cancelled, current file, and the offset is a retained boundary / the trailing edge / zero on an empty ring; on acceptance replay_chunks_from(off) is a contiguous suffix starting exactly at off, ending at the newest chunk, empty only at the trailing edge, unchanged until the next push/advance; acceptance installs peer and pending resume and moves acked only within (acked, sent]; wait_for_reconnect hands the pending resume over exactly once; advance empties the ring, resets offsets and discards the pending resume. Tied to /repo by fact extraction plus a differential run: exhaustive enumeration of all push/resume/reconnect/advance/cancel/replay sequences up to length 4-5 over a 21-op alphabet for capacities 0,2,3,2^64-1 and up to length 7 (thorough 8) over an 8-op alphabet, random 200-op histories (logical != wire lengths, hostile offsets), with oracles recomputing suffix/bound/gaplessness from the push log. Concurrent callers: one mutex acquisition per method (re-extracted, theorem single_section_ops) and a racing sub-family whose outcomes must be sequentially explainable.",
        note="Lean kernel; axioms propext/Classical.choice/Quot.sound only; extractor + harness + driver trusted; VecDeque/Mutex not verified; offsets whose chunk end exceeds 2^64 are outside the theorems (the model still predicts the code's wrap/panic there and the correspondence checks it).",
        technique="Lean 4 proof (ring invariants, refinement to the push log) + regenerated eviction guard + exhaustive small-scope and random differential correspondence"),
)
