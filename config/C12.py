from common import TB_COMMON
CONFIG = dict(
    gens=["wake"], props_module="RepeVerif.Props.C12", namespace="Repe.C12", exes=["repe_model_wake"], leanchecker=True,
    death_is_violation=False,
    runs=[
        dict(name="wake", bin="fam_wake", args=[], exe="repe_model_wake", profile="dev"),
    ],
    trusted_base=TB_COMMON + [
        "std::sync::Mutex/Condvar contract as modelled: wait_timeout releases the mutex and parks atomically, notify_all wakes every parked waiter, spurious wake-ups possible, a woken thread re-acquires the mutex before it continues",
        "OS scheduler: a runnable thread runs within the 10 s watchdog (only used to declare a wake-up missed)",
        "each signalling method is one atomic step (one lock region per method: re-checked by the extractor)",
    ],
    assumptions=[
        "one waiter per TransferControl (documented single-producer design); notify_one and notify_all are then indistinguishable",
        "time enters the model as the environment's answer to `now >= deadline` at each check; real durations are measured only by the correspondence family (one-sided)",
        "sent + chunk_len < 2^64 (the credit predicate's add is modelled in N; the wrapping case is finding F3 under C11); the harness keeps all values below 2^48",
        "replay-ring eviction is not modelled (harness bodies are 1 byte against a 64 MiB ring)",
    ],
    manifest=dict(
        text="Lean 4 theorems over a transition-system model of TransferControl's mutex/condvar protocol (one waiter in wait_for_credit or wait_for_reconnect, any number of signalling threads, every interleaving = every event list, spurious wake-ups, environment-chosen deadline answers): every method branch that turns a wait condition from false to true reaches notify_all (wake_obligation, all states, both waits); the waiter is never parked while its condition holds (parked_implies_not_pred, invariant by induction over the event list); once the condition holds the waiter does not park again and its next pass returns the matching value (no_repark, progress, progress_maximal, return_sound); Timeout is returned only from a check that saw the deadline passed with the condition false, and is reached when the condition stays false (timeout_exact, timeout_reached, only_timeout_while_false). The notify table (per method: is notify_all reached, under which ifs), the order of the tests in both wait loops and whether each loop holds the mutex without a gap from its tests to wait_timeout are re-extracted from src/stream.rs on every run, so deleting or mis-guarding a notify_all, testing the deadline first or dropping the lock between check and park breaks source_facts. Tied to the running code by family `wake`: real threads against the real TransferControl, waiter observed asleep via /proc before 1-3 ops from 1-3 threads, >=3000 (quick) / >=100000 (thorough) randomized schedules plus 30000 / 400000 fast entry-race rounds (waiter and signaller released together, start offset swept) and trickle cases (a steady stream of non-enabling wake-ups must not postpone the Timeout), outcome checked against the set of end states the model admits over all interleavings, plus direct oracles (condition true in the real final state => returned within 10 s; never Timeout before a far deadline; short-deadline waits return Timeout not before the deadline).",
        note="Lean kernel; axioms propext/Classical.choice/Quot.sound only; std Mutex/Condvar and the scheduler are trusted as modelled; single waiter; durations not modelled (measured one-sidedly by the harness); values < 2^64 without wrap-around (F3 belongs to C11).",
        technique="Lean 4 proof (invariant over all interleavings of a condvar protocol model) + regenerated notify/loop facts + threaded differential correspondence"),
)
